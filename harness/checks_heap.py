"""Heap family (Lifecycle.tla / MC_Heap.tla / Trace_Heap.tla): C08 C13 C15.

TLC enumerates every history of reconfiguration steps and validation calls up to the bound;
each history is replayed from scratch on fresh real objects (an untyped Element E, an Object
class C, a real subclass D(C)); at the last step the recorder takes the projected heap before
and after, the outcome, the outcome of the repeated call and of a freshly built object with
the same configuration, and a set of before/after comparisons.  Every recorded step is then
validated by TLC against the specification (Trace_Heap): a reconfiguration step must change
the projected heap exactly as the spec action does, a validation step must change nothing.
"""
import copy
import json
import os
import sys
import time
from collections import Counter

import common
from common import run_tlc, MachineryError
import codec
import drive
from docfamily import tlajson_to_tla, obs_to_tla
from report import Reporter

TIERS = {
    "quick": [dict(MaxLen=2, Shape='"all"'), dict(MaxLen=3, Shape='"vrv"')],
    "thorough": [dict(MaxLen=2, Shape='"all"'), dict(MaxLen=3, Shape='"vrv"')],   # 3 steps of any shape = 2M histories
}
SIM = {"quick": dict(num=6, depth=7, workers=8), "thorough": dict(num=40, depth=10, workers=16)}
PREFIX = {"C08": "C08:", "C13": "C13:", "C15": "C15:"}


def _cfg(c, props=True):
    return (f"CONSTANTS MaxLen = {c['MaxLen']}\n Shape = {c['Shape']}\nSPECIFICATION Spec\nINVARIANT Inv\n"
            + ("PROPERTIES PureValidate ParentIsolated\n" if props else "") + "CHECK_DEADLOCK FALSE\n")


# ------------------------------------------------------------------ real objects
def _make_heap(init):
    from statham.schema.elements import Object
    from statham.schema.elements.meta import ObjectMeta, ObjectClassDict
    heap0 = init["heap"]
    E = drive.build_element(_fix(heap0["E"]))
    C = drive.build_element(_fix(heap0["C"]))
    kwargs = drive.kwargs_of(_fixkw(init["init"]["dkw"]))
    cd = ObjectClassDict()
    for p in drive.kwargs_of({"properties": [_fixp(p) for p in init["init"]["dprops"]]})["properties"].items():
        cd[p[0]] = p[1]
    D = ObjectMeta("D", (C,), cd, **kwargs)
    F = ObjectMeta("F", (C,), ObjectClassDict(), **drive.kwargs_of(_fixkw(init["init"]["fkw"])))
    N = drive.build_element(_fix(heap0["N"]))
    U = drive.build_element(_fix(heap0["U"]))
    return {"E": E, "C": C, "D": D, "F": F, "N": N, "U": U}


def _fixkw(kw):
    return kw if isinstance(kw, dict) else {}


def _fixp(p):
    return dict(p, elem=_fix(p["elem"]))


def _fix(rec):
    from checks_ser import _fix as f
    return f(rec)


def _attr_and_value(kw, val):
    """(attribute name, python value) for a keyword in the spec's spelling"""
    ka = drive.kwargs_of({kw: val})
    (k, v), = ka.items()
    return k, v


def _apply(objs, op, values):
    from statham.schema.constants import NotPassed
    from statham.schema.property import Property
    x, name, arg = op["x"], op["op"], op["arg"]
    o = objs[x]
    if name == "set":
        k, v = _attr_and_value(arg[0], _fix(arg[1]) if isinstance(arg[1], dict) and "cls" in arg[1] else _fixval(arg[0], arg[1]))
        setattr(o, k, v)
    elif name == "clear":
        kw = arg[0]
        if kw in ("additionalPropertiesB", "additionalItemsB"):
            setattr(o, kw[:-1], True)
        elif kw in ("additionalProperties", "additionalItems"):
            setattr(o, kw, True)          # the constructor default of these two is True
        elif kw in ("depsL", "depsS"):
            setattr(o, "dependencies", NotPassed())
        elif kw == "itemsT":
            setattr(o, "items", NotPassed())
        else:
            setattr(o, kw, NotPassed())
    elif name == "putprop":
        p = _fixp(arg)
        o.properties[p["attr"]] = Property(drive.build_element(p["elem"]), required=bool(p["required"]),
                                           source=(p["source"] if p["source"] != p["attr"] else None))
    elif name == "updateprop":
        p = _fixp(arg)
        o.properties.update({p["attr"]: Property(drive.build_element(p["elem"]), required=bool(p["required"]),
                                                 source=(p["source"] if p["source"] != p["attr"] else None))})
        # update() does not bind the property to its name; the library binds when the element is
        # next used.  The step of the specification is "update, then first use": one validation call
        # (whose outcome is not looked at) completes it, so that the JSON name is fixed as PutProp says.
        drive.call(o, {})
    elif name == "delprop":
        del o.properties[arg[0]]
    elif name == "setpropdefault":
        o.properties[arg[0]].element.default = codec.val_to_py(arg[1])
    elif name == "setelems":
        o.elements = [drive.build_element(_fix(x)) for x in arg]
    elif name == "moveprop":
        o.properties[arg[1]] = o.properties.pop(arg[0])
    elif name == "togglereq":
        pr = o.properties[arg[0]]
        pr.required = not pr.required
    elif name == "validate":
        return values[arg[1] - 1]
    return None


def _fixval(kw, val):
    if kw == "properties":
        return [_fixp(p) for p in val]
    if kw in ("patternProperties", "depsS"):
        return [[p[0], _fix(p[1])] for p in val]
    return val


def _call_obs(obj, v):
    k, r = drive.call(obj, v)
    if k == "ok":
        try:
            return {"kind": "ok", "out": drive.project(r)}, r
        except Exception:  # noqa
            return {"kind": "other:unprojectable", "out": None}, r
    return {"kind": k, "out": None}, None


class _Slow(Exception):
    pass


def _alarm(signum, frame):
    raise _Slow()


_TIMEOUTS = [0]


def _limited(f, obj, seconds=2.0):
    """run f(obj) under a CPU-time limit (a tree that validation made grow can make repr /
    annotation inference exponentially slow: that must show up as a difference, not as a hang)"""
    import signal
    import threading
    if threading.current_thread() is not threading.main_thread():
        return f(obj)
    if _TIMEOUTS[0] > 15:
        seconds = 0.25          # this process keeps meeting pathological trees: do not wait long
    # the limit is on the CPU time of this process, not on wall-clock time: a loaded machine
    # must not turn into a difference between "before" and "after"
    old = signal.signal(signal.SIGVTALRM, _alarm)
    signal.setitimer(signal.ITIMER_VIRTUAL, seconds)
    try:
        return f(obj)
    except _Slow:
        _TIMEOUTS[0] += 1
        return "!timeout"
    finally:
        signal.setitimer(signal.ITIMER_VIRTUAL, 0)
        signal.signal(signal.SIGVTALRM, old)


def _texts(obj):
    from statham.serializers import serialize_json, serialize_python
    out = []
    for f in (repr, lambda o: json.dumps(serialize_json(o), sort_keys=True, default=repr), serialize_python):
        try:
            out.append(_limited(f, obj))
        except Exception as exc:  # noqa
            out.append("!" + type(exc).__name__)
    return out


def _texts_same(texts0, texts1, obj):
    """component-wise comparison of two _texts() results taken before / after a call on obj.
    A time limit that fired is not an observation: if it fired only AFTER, the text is computed
    again with a generous limit (a tree that grew pathologically still times out, and that IS a
    difference); if it fired BEFORE, the earlier text cannot be recovered: inconclusive (same)."""
    from statham.serializers import serialize_json, serialize_python
    fns = (repr, lambda o: json.dumps(serialize_json(o), sort_keys=True, default=repr), serialize_python)
    out = []
    for a, b, f in zip(texts0, texts1, fns):
        if a == "!timeout":
            out.append(True)
        elif b == "!timeout":
            saved, _TIMEOUTS[0] = _TIMEOUTS[0], 0
            try:
                b2 = _limited(f, obj, seconds=20.0)
            except Exception as exc:  # noqa
                b2 = "!" + type(exc).__name__
            _TIMEOUTS[0] = saved
            out.append(a == b2)
        else:
            out.append(a == b)
    return out


def _proj_heap(objs):
    return {x: drive.project_element(o) for x, o in objs.items()}


_INIT = {}


def replay_history(task):
    """task = (state, init_state).  Replays state['hist'] on fresh objects and records the last step."""
    st, init = task
    from statham.schema.elements.meta import ObjectMeta
    values = [codec.val_to_py(v) for v in init["init"]["values"]]
    objs = _make_heap(init)
    hist = st["hist"]
    rec = {"n": len(hist)}
    if not hist:
        # the subclass event: D's configuration right after class creation
        rec["subclass"] = dict(parent=drive.project_element(objs["C"]), child=drive.project_element(objs["D"]),
                               child2=drive.project_element(objs["F"]))
        rec["post"] = _proj_heap(objs)
        # a parent setting every class keyword; G(P) overrides nothing, H(P) overrides everything
        from statham.schema.elements.meta import ObjectMeta, ObjectClassDict
        P = drive.build_element(_fix(init["init"]["p0"]))
        G = ObjectMeta("G", (P,), ObjectClassDict())
        hcd = ObjectClassDict()
        for k, v in drive.kwargs_of({"properties": [_fixp(p) for p in init["init"]["hprops"]]})["properties"].items():
            hcd[k] = v
        hkw = dict(init["init"]["hkw"])
        for k in ("patternProperties", "depsS"):
            if k in hkw:
                hkw[k] = [[p[0], _fix(p[1])] for p in hkw[k]]
        if "propertyNames" in hkw:
            hkw["propertyNames"] = _fix(hkw["propertyNames"])
        H = ObjectMeta("H", (P,), hcd, **drive.kwargs_of(hkw))
        # a child that re-opens additionalProperties explicitly
        from statham.schema.elements import Object, String
        from statham.schema.property import Property
        Pf = Object.inline("Pf", properties={"a": Property(String())}, additionalProperties=False)
        Gf = ObjectMeta("Gf", (Pf,), ObjectClassDict(), additionalProperties=True)
        reopen = dict(parent=drive.project_element(Pf), child=drive.project_element(Gf),
                      kw={"additionalPropertiesB": True}, props=[])
        # three levels: D overrides C's property `a`; a grandchild of C through D must see D's version
        G2 = ObjectMeta("G2", (objs["D"],), ObjectClassDict())
        chain = dict(parent=drive.project_element(objs["D"]), child=drive.project_element(G2), kw={}, props=[])
        rec["merges"] = [reopen, chain,
            dict(parent=drive.project_element(P), child=drive.project_element(G), kw={}, props=[]),
            dict(parent=drive.project_element(P), child=drive.project_element(H), kw=hkw,
                 props=[_fixp(p) for p in init["init"]["hprops"]])]
        return rec
    try:
        for op in hist[:-1]:
            v = _apply(objs, op, values)
            if op["op"] == "validate":
                drive.call(objs[op["x"]], v)
        op = hist[-1]
        x = op["x"]
        target = objs[x]
        pre = _proj_heap(objs)
        flags = {}
        parent_before = None
        if x in ("D", "F"):
            parent_before = ([drive.call(objs["C"], v)[0] for v in values], _texts(objs["C"])[1])
        if op["op"] == "validate":
            v = _apply(objs, op, values)
            snap0 = drive.deep_snapshot(objs.values())
            texts0 = _texts(target)
            fresh_pre = drive.build_element(pre[x])
            try:
                flags["eqFreshBefore"] = bool(target == fresh_pre)
            except Exception:  # noqa
                flags["eqFreshBefore"] = False
            vin = copy.deepcopy(v)
            k, r = drive.call_raw(target, vin)
            out = _ob(k, r)
            try:
                flags["inputSame"] = codec.norm_real(vin) == codec.norm_real(v)
            except ValueError:      # the caller's value now holds objects that are not JSON
                flags["inputSame"] = False
            snap1 = drive.deep_snapshot(objs.values())
            texts1 = _texts(target)
            flags["snapSame"] = snap0 == snap1
            flags["reprSame"], flags["jsonSame"], flags["pySame"] = _texts_same(texts0, texts1, target)
            if texts0 != texts1:        # kept for the replay file: what exactly differed
                rec["texts_before"], rec["texts_after"] = [t[:400] for t in texts0], [t[:400] for t in texts1]
            try:
                flags["eqFreshAfter"] = bool(target == fresh_pre)
            except Exception:  # noqa
                flags["eqFreshAfter"] = False
            post = _proj_heap(objs)
            again, _ = _call_obs(target, v)
            fresh_obj = drive.build_element(post[x])
            fresh, _ = _call_obs(fresh_obj, v)
            # a fresh object with the configuration the SPECIFICATION says the history produces
            try:
                spec_obj = drive.build_element(_fix(st["heap"][x]))
                fresh_spec, _ = _call_obs(spec_obj, v)
            except Exception:  # noqa
                fresh_spec = None
            rec.update(out=out, again=again, fresh=fresh, fresh_spec=fresh_spec)
            if x in ("D", "F"):
                flags["instanceOfParent"] = (k != "ok") or isinstance(r, objs["C"])
                flat, _ = _call_obs(fresh_obj, v)
                rec["flat"] = flat
                from statham.serializers import serialize_json
                try:
                    flags["flatJsonSame"] = (json.dumps(serialize_json(target), sort_keys=True, default=repr)
                                             == json.dumps(serialize_json(fresh_obj), sort_keys=True, default=repr))
                except Exception:  # noqa
                    flags["flatJsonSame"] = False
        else:
            _apply(objs, op, values)
            post = _proj_heap(objs)
        if x in ("D", "F"):
            parent_after = ([drive.call(objs["C"], v)[0] for v in values], _texts(objs["C"])[1])
            flags["parentObsSame"] = parent_before[0] == parent_after[0] and \
                _texts_same(["", parent_before[1], ""], ["", parent_after[1], ""], objs["C"])[1]
        rec.update(pre=pre, post=post, flags=flags)
    except Exception as exc:  # noqa
        rec["error"] = type(exc).__name__ + ": " + str(exc)[:200]
    return rec


def _ob(k, r):
    if k == "ok":
        try:
            return {"kind": "ok", "out": drive.project(r)}
        except Exception:  # noqa
            return {"kind": "other:unprojectable", "out": None}
    return {"kind": k, "out": None}


# ------------------------------------------------------------------ purity sweep on the document family
def sweep_state(st):
    """parse one exported document, validate the whole value universe (each value twice), and
    compare every observable of the element tree before and after."""
    import docfamily as df
    _, pyvals = df.values()
    sj = codec.schema_to_json(st["doc"])
    kind, el = drive.parse_labelled(sj)
    if kind != "ok":
        return None
    try:
        pre = drive.project_element(el)
    except ValueError:
        return None
    snap0 = drive.deep_snapshot([el])
    texts0 = _texts(el)
    fresh = drive.build_element(pre)
    flags = {}
    try:
        flags["eqFreshBefore"] = bool(el == fresh)
    except Exception:  # noqa
        flags["eqFreshBefore"] = False
    input_same, repeat_same = True, True
    for vi, v in enumerate(pyvals):
        if vi in (3, 12, 30) and drive.deep_snapshot([el]) != snap0:
            break       # already changed: stop before a growing tree makes everything slow
        vin = copy.deepcopy(v)
        k1, r1 = drive.call_raw(el, vin)
        try:
            if codec.norm_real(vin) != codec.norm_real(v):
                input_same = False
        except ValueError:          # the caller's value now holds objects that are not JSON
            input_same = False
        k2, r2 = drive.call(el, v)
        if k1 != k2:
            repeat_same = False
        elif k1 == "ok":
            try:
                if codec.norm_real(drive.project(r1)) != codec.norm_real(drive.project(r2)):
                    repeat_same = False
            except Exception:  # noqa
                pass
    flags["inputSame"], flags["repeatSame"] = input_same, repeat_same
    flags["snapSame"] = drive.deep_snapshot([el]) == snap0
    texts1 = _texts(el)
    flags["reprSame"], flags["jsonSame"], flags["pySame"] = _texts_same(texts0, texts1, el)
    try:
        flags["eqFreshAfter"] = bool(el == fresh)
    except Exception:  # noqa
        flags["eqFreshAfter"] = False
    try:
        post = drive.project_element(el)
    except ValueError:
        post = {"cls": "Unprojectable", "kw": {}, "elems": [], "name": ""}
    return dict(pre=pre, post=post, flags=flags)


# ------------------------------------------------------------------ driver
def _heap_tla(h):
    return "[" + ", ".join(f"{x} |-> {tlajson_to_tla(h[x])}" for x in ("E", "C", "D", "F", "N", "U")) + "]"


def _flags_tla(f):
    names = ["inputSame", "reprSame", "jsonSame", "pySame", "eqFreshBefore", "eqFreshAfter",
             "parentObsSame", "instanceOfParent", "flatJsonSame", "snapSame"]
    return "[" + ", ".join(f"{n} |-> {'TRUE' if f.get(n, True) else 'FALSE'}" for n in names) + "]"


NONE = {"kind": "none", "out": None}


def _o(o):
    if o is None or o["kind"] == "none":
        return '[kind |-> "none", out |-> [k |-> "np"]]'
    try:
        return obs_to_tla(o)
    except (ValueError, TypeError):
        # a result outside the result vocabulary (e.g. a member whose name is not a string):
        # it is an outcome all the same, and equal to no outcome of the specification
        return '[kind |-> "other:result-outside-the-vocabulary", out |-> [k |-> "np"]]'


def run(pid, tier, replay_file=None):
    t0 = time.time()
    rep = Reporter(pid, tier)
    states, tlc_meta = [], []
    if replay_file:
        payload = json.load(open(replay_file))
        states = [payload["init"], payload["state"]]
    else:
        for c in TIERS[tier]:
            import docfamily as df
            lines, meta = df._cached_tlc("heap-bfs", _cfg(c), module="MC_Heap", workers=8)
            states += lines
            tlc_meta.append(dict(consts=c, states=meta["states"], distinct=meta["distinct"],
                                 wall=round(meta["wall"], 1), cached=meta.get("cached")))
        s = SIM[tier]
        lines, smeta = df._cached_tlc("heap-sim", _cfg(dict(MaxLen=s["depth"], Shape='"all"'), props=False),
                                      module="MC_Heap", simulate=f"num={s['num']}", depth=s["depth"] + 1,
                                      seed=common.SEED + 3, workers=s["workers"])
        # simulation exports every successor of every visited state: keep the long histories
        longs = [l for l in lines if len(l["hist"]) >= 4]
        longs.sort(key=lambda l: json.dumps(l["hist"], sort_keys=True))
        states += longs[:: max(1, len(longs) // (800 if tier == "quick" else 20000))]
        tlc_meta.append(dict(simulate=s, states=smeta["states"], kept=len(states)))
    inits = [s for s in states if not s["hist"] and s["init"]["values"]]
    if not inits:
        raise MachineryError("initial state not exported")
    init = inits[0]
    seen, uniq = set(), []
    for s in states:
        key = json.dumps(s["hist"], sort_keys=True)
        if key not in seen:
            seen.add(key)
            uniq.append(s)
    states = uniq
    # each property only needs the histories whose LAST step it constrains
    if pid == "C08":
        states = [s for s in states if not s["hist"] or s["hist"][-1]["op"] == "validate"]
    elif pid == "C15":
        states = [s for s in states if not s["hist"] or s["hist"][-1]["x"] in ("D", "F")]
    common.use_repo()
    recs = drive.pmap(replay_history, [(s, init) for s in states], chunksize=16)

    events, index = [], {}
    drift = Counter()
    ops = Counter()
    for si, (st, rec) in enumerate(zip(states, recs)):
        if "error" in rec:
            rep.violation((pid, "history-raises", st["hist"][-1]["op"] if st["hist"] else "init"),
                          f"history {_h(st['hist'])} raises {rec['error']}", dict(init=init, state=st, observed=rec))
            continue
        eid = len(index) + 1
        index[eid] = si
        if "subclass" in rec:
            sc = rec["subclass"]
            events.append((eid, '[id |-> %d, op |-> "subclass", parent |-> %s, child |-> %s, dkw |-> %s, dprops |-> %s]'
                           % (eid, tlajson_to_tla(sc["parent"]), tlajson_to_tla(sc["child"]),
                              tlajson_to_tla(_fixkw(init["init"]["dkw"])), tlajson_to_tla(init["init"]["dprops"]))))
            eid = len(index) + 1
            index[eid] = si
            events.append((eid, '[id |-> %d, op |-> "subclass", parent |-> %s, child |-> %s, dkw |-> %s, dprops |-> <<>>]'
                           % (eid, tlajson_to_tla(sc["parent"]), tlajson_to_tla(sc["child2"]),
                              tlajson_to_tla(_fixkw(init["init"]["fkw"])))))
            for m in rec.get("merges", []):
                eid = len(index) + 1
                index[eid] = si
                events.append((eid, '[id |-> %d, op |-> "subclass", parent |-> %s, child |-> %s, dkw |-> %s, dprops |-> %s]'
                               % (eid, tlajson_to_tla(m["parent"]), tlajson_to_tla(m["child"]),
                                  tlajson_to_tla(m["kw"]), tlajson_to_tla(m["props"]))))
            continue
        op = st["hist"][-1]
        ops[op["op"] + ":" + op["x"]] += 1
        # drift against the model's predicted heap / outcome
        try:
            same_heap = all(drive.norm_elem(rec["post"][x]) == drive.norm_elem(_fix(st["heap"][x])) for x in ("E", "C", "D", "F", "N", "U"))
        except Exception:  # noqa
            same_heap = False
        if not same_heap:
            drift["heap"] += 1
        if op["op"] == "validate" and not _same(rec["out"], st["last"]):
            drift["outcome"] += 1
        arg = op["arg"]
        arg_t = (tlajson_to_tla(_fixp(arg)) if op["op"] in ("putprop", "updateprop")
                 else tlajson_to_tla([_fix(x) for x in arg]) if op["op"] == "setelems" else tlajson_to_tla(arg))
        events.append((eid, '[id |-> %d, op |-> %s, x |-> %s, arg |-> %s, pre |-> %s, post |-> %s, out |-> %s, '
                            'again |-> %s, fresh |-> %s, freshspec |-> %s, flat |-> %s, flags |-> %s, pure |-> %s]'
                       % (eid, codec.tla_str(op["op"]), codec.tla_str(op["x"]), arg_t, _heap_tla(rec["pre"]),
                          _heap_tla(rec["post"]), _o(rec.get("out")), _o(rec.get("again")), _o(rec.get("fresh")),
                          _o(rec.get("fresh_spec") or rec.get("fresh")), _o(rec.get("flat")),
                          _flags_tla(rec["flags"]),
                          # the steps before this one were validation calls only
                          "TRUE" if all(h["op"] == "validate" for h in st["hist"][:-1]) else "FALSE")))
        if op["op"] == "validate" and not rec["flags"].get("snapSame", True) and pid == "C08":
            rep.violation(("C08", "attributes-rewritten", op["x"]),
                          f"validation rewrote attributes of pre-existing objects (deep vars() snapshot differs): {_h(st['hist'])}",
                          dict(init=init, state=st, observed=_slim(rec)))

    # ---- C08: purity sweep over the document family
    sweep_info = {}
    if pid == "C08" and not replay_file:
        import docfamily as df
        from checks_doc import _kwsig
        dstates, dinfo = df.stage1(tier, pid="doc")
        if tier == "quick":
            dstates = [s for s in dstates if s.get("src") == "bfs"][::2] + [s for s in dstates if s.get("src") == "seed"] \
                      + [s for s in dstates if s.get("src") == "sim"][:800]
        sweeps = drive.pmap(sweep_state, dstates, chunksize=16)
        n = 0
        for st, sw in zip(dstates, sweeps):
            if sw is None:
                continue
            n += 1
            eid = len(index) + 1
            index[eid] = ("sweep", st)
            fl = sw["flags"]
            ftxt = "[" + ", ".join(f"{k} |-> {'TRUE' if fl.get(k, True) else 'FALSE'}" for k in
                                   ("inputSame", "repeatSame", "snapSame", "reprSame", "jsonSame", "pySame",
                                    "eqFreshBefore", "eqFreshAfter")) + "]"
            events.append((eid, '[id |-> %d, op |-> "sweep", pre |-> %s, post |-> %s, flags |-> %s]'
                           % (eid, tlajson_to_tla(sw["pre"]), tlajson_to_tla(sw["post"]), ftxt)))
        sweep_info = dict(documents_swept=n, calls_per_document=2 * len(df.values()[1]),
                          tlc=dict(bfs=dinfo.get("bfs"), seeds=dinfo.get("seed"), sim=dinfo.get("sim")))

    # ---- C08: the repository's own test-suite under the recorder (code -> spec on real usage)
    suite_info = {}
    if pid == "C08" and not replay_file:
        import subprocess
        import tempfile
        out = tempfile.NamedTemporaryFile(suffix=".jsonl", delete=False).name
        env = dict(os.environ, VERIF_REC_OUT=out, PYTHONPATH=os.path.dirname(os.path.abspath(__file__)),
                   VERIF_REPO=common.REPO)
        r = subprocess.run([sys.executable, "-m", "pytest", "-q", "-p", "no:cacheprovider", "-p", "verif_recorder",
                            "--timeout=900", "--continue-on-collection-errors", "tests"],
                           cwd=common.REPO, env=env, capture_output=True, text=True, timeout=1200)
        n_ev = 0
        dummy = {"cls": "Element", "kw": {}, "elems": [], "name": ""}
        try:
            for line in open(out):
                ev = json.loads(line)
                if "summary" in ev:
                    suite_info["recorder"] = ev["summary"]
                    continue
                n_ev += 1
                eid = len(index) + 1
                index[eid] = ("suite", ev)
                fl = ev["flags"]
                ftxt = "[" + ", ".join(f"{k} |-> {'TRUE' if fl.get(k, True) else 'FALSE'}" for k in
                                       ("inputSame", "repeatSame", "snapSame", "reprSame", "jsonSame", "pySame",
                                        "eqFreshBefore", "eqFreshAfter")) + "]"
                pre = ev["pre"] if ev["pre"] is not None and ev["post"] is not None else dummy
                post = ev["post"] if ev["pre"] is not None and ev["post"] is not None else dummy
                try:
                    events.append((eid, '[id |-> %d, op |-> "sweep", pre |-> %s, post |-> %s, flags |-> %s]'
                                   % (eid, tlajson_to_tla(pre), tlajson_to_tla(post), ftxt)))
                except ValueError:
                    events.append((eid, '[id |-> %d, op |-> "sweep", pre |-> %s, post |-> %s, flags |-> %s]'
                                   % (eid, tlajson_to_tla(dummy), tlajson_to_tla(dummy), ftxt)))
        finally:
            os.unlink(out)
        suite_info.update(calls_recorded=n_ev, pytest_tail=r.stdout.strip().splitlines()[-1:] if r.stdout else [])
        if n_ev < 100:
            raise MachineryError("test-suite recorder produced too few events: " + (r.stdout[-300:] + r.stderr[-300:]))

    # ---- trace validation, several TLC processes at once
    from concurrent.futures import ThreadPoolExecutor
    adj_states = 0
    rejected = {}

    def chunk_run(part):
        data = ("---- MODULE TraceData ----\nEXTENDS Integers, Sequences, TLC\nEvents == <<\n"
                + ",\n".join(t for _, t in part) + "\n>>\n====\n")
        r = run_tlc("Trace_Heap", "SPECIFICATION Spec\nINVARIANT Inv\nPOSTCONDITION Consumed\nCHECK_DEADLOCK FALSE\n",
                    extra_modules={"TraceData": data}, workers=1, coverage=False)
        if not r.ok:
            raise MachineryError("Trace_Heap failed:\n" + r.raw_tail[-2500:])
        return {l["reject"]: l["clauses"] for l in r.lines}, r.distinct
    size = max(100, min(600, (len(events) + 7) // 8))
    parts = [events[i:i + size] for i in range(0, len(events), size)]
    with ThreadPoolExecutor(max_workers=8) as ex:
        for rej, n in ex.map(chunk_run, parts):
            rejected.update(rej)
            adj_states += n
    for eid, clauses in sorted(rejected.items()):
        if isinstance(index[eid], tuple) and index[eid][0] == "suite":
            ev = index[eid][1]
            for cl in clauses:
                rep.violation(("C08", cl, "test-suite"),
                              f"{cl}: call recorded from the repository's test {ev['test'][:120]} on {ev['element'][:100]}",
                              dict(event={k: v for k, v in ev.items() if k not in ('pre', 'post')}))
            continue
        if isinstance(index[eid], tuple):
            dst = index[eid][1]
            from checks_doc import _kwsig
            for cl in clauses:
                rep.violation(("C08", cl, "sweep", _kwsig(dst["doc"])),
                              f"{cl}: validating the value universe against the element parsed from "
                              f"{json.dumps(codec.schema_to_json(dst['doc']))[:240]}", dict(state=dst))
            continue
        st, rec = states[index[eid]], recs[index[eid]]
        op = st["hist"][-1] if st["hist"] else {"op": "subclass", "x": "D"}
        for cl in clauses:
            if cl.startswith(PREFIX[pid]):
                rep.violation((pid, cl, op["op"], op["x"]),
                              f"{cl}: history {_h(st['hist'])}", dict(init=init, state=st, observed=_slim(rec)))

    n_val = sum(v for k, v in ops.items() if k.startswith("validate"))
    if not replay_file and (n_val < 2 or (pid == "C13" and len(ops) < 6) or (pid == "C15" and len(ops) < 4)):
        raise MachineryError("vacuity: too few operation kinds exercised: %r" % dict(ops))
    coverage = dict(
        states=sum(m.get("distinct", m.get("states", 0)) for m in tlc_meta) + adj_states,
        transitions=sum(m.get("states", 0) for m in tlc_meta) + len(events),
        traces_validated_against_impl=len(states) + sweep_info.get("documents_swept", 0) + suite_info.get("calls_recorded", 0),
        evaluations=len(states) + sweep_info.get("documents_swept", 0), distinct_nontrivial=len(states) - 1,
        rule="one case = one history (sequence of reconfiguration steps and validation calls on E, C, D(C)) replayed on fresh real objects; all histories within the bound are distinct and non-trivial except the empty one",
        samples=[dict(history=_h(states[i]["hist"]), last_step_flags=recs[i].get("flags"))
                 for i in (1, len(states) // 2, len(states) - 1) if i < len(states)],
        exhaustive=False, bounds=dict(bfs=TIERS[tier] if not replay_file else None, simulate=SIM[tier]),
        bfs_exhaustive_within_bound=True,
        tlc=tlc_meta, operations=dict(ops), drift=dict(drift), events_validated=len(events),
        document_family_sweep=sweep_info, repository_test_suite_trace=suite_info,
        design_level="TLC checked the action properties PureValidate and ParentIsolated on Lifecycle for every BFS instance")
    return rep.finish(coverage, time.time() - t0,
                      assumptions=["A1 bounded exhaustiveness (heap of three objects, fixed argument sets)",
                                   "in-place mutation of dict-valued keywords shared with a parent class is ordinary Python aliasing and not generated"])


def _same(o, p):
    if o["kind"] != p["kind"]:
        return False
    if o["kind"] != "ok":
        return True
    return codec.norm_real(o["out"]) == codec.norm_tagged(p["out"])


def _h(hist):
    out = []
    for op in hist:
        a = op["arg"]
        if op["op"] in ("putprop", "updateprop"):
            a = a["attr"] + ("!" if a["required"] else "") + ":" + a["elem"]["cls"]
        elif op["op"] == "setelems":
            a = "+".join(x["cls"] for x in a)
        elif op["op"] == "validate":
            a = "v%d" % a[1]
        else:
            a = a[0] if isinstance(a, list) else a
        out.append(f"{op['op']}({op['x']},{a})")
    return " ; ".join(out) or "(init)"


def _slim(rec):
    return {k: v for k, v in rec.items() if k in ("flags", "out", "again", "fresh", "flat", "error", "n", "texts_before", "texts_after")}
