"""Check of the orderer family: C11 (class declaration order is a complete topological order;
cycles are refused).

Stage 1  TLC enumerates MC_Orderer (spec/Orderer.tla): every digraph on <= MaxClasses classes,
         each edge placed in a keyword position / behind wrapper elements according to a variant,
         for every root sequence; the orderer model runs action by action (CycleCheck, Pop,
         Finish) with the safety invariants checked in EVERY state; every terminal state is
         exported (element heap, roots, predicted outcome, verdict of R_C11 on the model).
         A second TLC run checks liveness (Terminates under WF, no state constraint).
Stage 2  every exported heap is realised as REAL classes / elements and `orderer(*roots)` is
         consumed under a CPU-time limit (ITIMER_VIRTUAL: independent of machine load); the real outcome is compared with the prediction.
         Acyclic heaps are realised twice: by assignment after creation, and by declaration in
         dependency order (Object.inline with keyword arguments).
Stage 3  outcomes that differ from the prediction (drift) are adjudicated by TLC against the
         REFERENCE predicate R_C11 (spec/OrdererRef.tla, Trace_Orderer.tla); only a rejected
         observation is a violation (any valid topological order is accepted).
Stage 4  code -> spec beyond the bound: seeded random heaps (more classes, shared wrapper
         elements, wrapper roots, cycles among non-object elements) are observed on the real
         code and EVERY observation is adjudicated by Trace_Orderer (no prediction involved).
"""
import gzip
import hashlib
import itertools
import json
import multiprocessing as mp
import os
import random
import signal
import time
from collections import Counter

import common
from common import run_tlc, MachineryError, VERIF, SPEC, SEED
from report import Reporter

CACHE = os.path.join(VERIF, ".cache")
MY_MODULES = ("OrdererRef.tla", "Orderer.tla", "MC_Orderer.tla", "Trace_Orderer.tla")
MAX_EVENTS = 3000          # drifted observations adjudicated per run (the rest is counted)
CALL_TIMEOUT = 10.0        # seconds of wall clock allowed to ONE orderer call (normal: ~2 ms)
RETRY_TIMEOUT = 20.0       # a timed-out call is retried once with this allowance
MAX_TIMEOUTS_PER_WORKER = 1

MODES = ("src", "mix", "deep", "uni")
KEYWORD_POSITIONS = ("items", "itemsT", "additionalItems", "contains", "properties",
                     "patternProperties", "additionalProperties", "propertyNames", "dependencies",
                     "anyOf", "oneOf", "allOf", "not")


def _variants(spec):
    """spec: list of (mode, iterable of r, spin)"""
    return [dict(r=r, mode=m, spin=sp) for m, rs, sp in spec for r in rs]


ROOTS3 = [[1], [2], [3], [1, 2], [3, 1], [2, 2], [2, 3, 1]]
TIERS = {
    # all digraphs (self-loops included) on <= MaxClasses classes x variants x root sequences
    "quick": dict(
        runs=[dict(name="n3", MaxClasses=3,
                   variants=_variants([("src", range(0, 12, 2), False), ("uni", (1, 5, 7), False),
                                       ("mix", (0, 5), False), ("deep", (1, 6), False)]),
                   roots=[[1], [2], [3, 1]])],
        live=dict(MaxClasses=3, variants=_variants([("deep", (4,), False)]), roots=ROOTS3),
        random=400, random_classes=(4, 6)),
    "thorough": dict(
        runs=[dict(name="n3", MaxClasses=3,
                   variants=_variants([(m, range(12), False) for m in MODES]),
                   roots=[[1], [2], [3, 1], [2, 2], [2, 3, 1]]),
              # 4 classes: one (graph-dependent) rotation per labelled graph
              dict(name="n4a", MaxClasses=4, variants=_variants([("uni", (0,), True)]), roots=[[2, 1]]),
              dict(name="n4b", MaxClasses=4, variants=_variants([("mix", (1,), True)]), roots=[[1]])],
        live=dict(MaxClasses=3, variants=_variants([(m, (2 + i,), False) for i, m in enumerate(MODES)]),
                  roots=ROOTS3),
        random=6000, random_classes=(4, 8)),
}

SAFETY_INVARIANTS = ("TypeOK", "SafePrefix", "RefusalIsClean", "NoAssertion", "Shrinks")


# ------------------------------------------------------------------ stage 1: TLC
def _tla_variant(v):
    return '[r |-> %d, mode |-> "%s", spin |-> %s]' % (v["r"], v["mode"], "TRUE" if v["spin"] else "FALSE")


def _instance(run):
    mod = ("---- MODULE MCO_run ----\nEXTENDS MC_Orderer\n"
           "VariantsC == {%s}\nRootSetsC == {%s}\n====\n"
           % (", ".join(_tla_variant(v) for v in run["variants"]),
              ", ".join("<<" + ", ".join(map(str, r)) + ">>" for r in run["roots"])))
    consts = ("CONSTANTS\n MaxClasses = %d\n Variants <- VariantsC\n RootSets <- RootSetsC\n"
              % run["MaxClasses"])
    return mod, consts


def _spec_hash():
    h = hashlib.sha1()
    for fn in MY_MODULES:
        h.update(fn.encode())
        h.update(open(os.path.join(SPEC, fn), "rb").read())
    return h


def _tlc_export(run):
    """BFS of MC_Orderer; terminal states are streamed into a gz cache file (TLC's enumeration
    does not depend on the repository).  Returns (path, meta)."""
    mod, consts = _instance(run)
    cfg = (consts + "SPECIFICATION Spec\nINVARIANTS " + " ".join(SAFETY_INVARIANTS)
           + " Inv\nCHECK_DEADLOCK FALSE\n")
    h = _spec_hash()
    h.update(mod.encode())
    h.update(cfg.encode())
    path = os.path.join(CACHE, "orderer-%s-%s.jsonl.gz" % (run["name"], h.hexdigest()[:20]))
    if os.path.exists(path) and not os.environ.get("VERIF_NOCACHE"):
        with gzip.open(path, "rt") as fh:
            meta = json.loads(fh.readline())
        meta["cached"] = True
        return path, meta
    os.makedirs(CACHE, exist_ok=True)
    tmp = path + ".tmp%d" % os.getpid()
    count = [0]
    with gzip.open(tmp, "wt", compresslevel=3) as fh:
        def sink(obj):
            count[0] += 1
            fh.write(json.dumps(obj, separators=(",", ":")) + "\n")
        res = run_tlc("MCO_run", cfg, extra_modules={"MCO_run": mod}, coverage=False,
                      line_sink=sink, timeout=7200)
    if not res.ok:
        os.unlink(tmp)
        raise MachineryError("TLC failed on MC_Orderer (%s): %s\n%s"
                             % (run["name"], res.violation, res.raw_tail[-3000:]))
    meta = dict(states=res.states, distinct=res.distinct, depth=res.depth,
                wall=round(res.wall, 1), exported=count[0], cached=False,
                invariants=list(SAFETY_INVARIANTS))
    # rewrite with the meta line first
    with gzip.open(tmp, "rt") as src, gzip.open(path + ".w%d" % os.getpid(), "wt", compresslevel=3) as dst:
        dst.write(json.dumps(meta) + "\n")
        for line in src:
            dst.write(line)
    os.unlink(tmp)
    os.replace(path + ".w%d" % os.getpid(), path)
    return path, meta


def _tlc_liveness(live):
    mod, consts = _instance(dict(live, name="live"))
    cfg = consts + "SPECIFICATION FairSpec\nINVARIANTS TypeOK NoAssertion\nPROPERTY Terminates\nCHECK_DEADLOCK FALSE\n"
    h = _spec_hash()
    h.update(mod.encode())
    h.update(cfg.encode())
    path = os.path.join(CACHE, "orderer-live-%s.json" % h.hexdigest()[:20])
    if os.path.exists(path) and not os.environ.get("VERIF_NOCACHE"):
        meta = json.load(open(path))
        meta["cached"] = True
        return meta
    res = run_tlc("MCO_run", cfg, extra_modules={"MCO_run": mod}, coverage=False, timeout=3600)
    if not res.ok or res.violation:
        raise MachineryError("liveness run of MC_Orderer failed (%s):\n%s"
                             % (res.violation, res.raw_tail[-3000:]))
    meta = dict(states=res.states, distinct=res.distinct, depth=res.depth, wall=round(res.wall, 1),
                property="Terminates == [](status = \"running\" => <>(status # \"running\")) under WF_vars(Run)",
                MaxClasses=live["MaxClasses"], variants=live["variants"], roots=live["roots"],
                cached=False)
    os.makedirs(CACHE, exist_ok=True)
    json.dump(meta, open(path, "w"))
    return meta


# ------------------------------------------------------------------ stage 2: real code
class _Timeout(BaseException):
    pass


def _on_alarm(signum, frame):
    raise _Timeout()


def _filler():
    from statham.schema.elements import String
    return String()


def _make_wrapper(el, get):
    """Build the non-object element `el` (heap record); get(id) -> built element or None when
    the target does not exist yet (cycle among wrappers: patched afterwards).
    Returns (element, patches) with patches = [(pos, index, target id)]."""
    from statham.schema.elements import Element, Array, AnyOf, OneOf, AllOf, Not
    from statham.schema.property import Property
    cls = el["cls"]
    patches = []

    def tgt(kid, index=0):
        t = get(kid["to"])
        if t is None:
            patches.append((kid["pos"], index, kid["to"]))
            return _filler()
        return t

    kids = el["kids"]
    by = {}
    for kd in kids:
        by.setdefault(kd["pos"], []).append(kd)
    if cls in ("AnyOf", "OneOf", "AllOf"):
        pos = {"AnyOf": "anyOf", "OneOf": "oneOf", "AllOf": "allOf"}[cls]
        if set(by) - {pos}:
            raise MachineryError(f"composition wrapper with foreign positions: {el}")
        members = [_filler()] + [tgt(kd, i + 1) for i, kd in enumerate(by.get(pos, []))]
        return {"AnyOf": AnyOf, "OneOf": OneOf, "AllOf": AllOf}[cls](*members), patches
    if cls == "Not":
        if list(by) != ["not"] or len(kids) != 1:
            raise MachineryError(f"Not wrapper needs exactly one operand: {el}")
        return Not(tgt(kids[0])), patches
    kwargs = {}
    if "items" in by and "itemsT" in by:
        raise MachineryError("items and tuple items on one element")
    if "items" in by:
        if len(by["items"]) != 1:
            raise MachineryError("two single `items`")
        kwargs["items"] = tgt(by["items"][0])
    if "itemsT" in by:
        kwargs["items"] = [_filler()] + [tgt(kd, i + 1) for i, kd in enumerate(by["itemsT"])]
    if "additionalItems" in by:
        # the ordering walks `additionalItems` whatever `items` is: next to tuple items (Array),
        # and next to no items at all (untyped element) or a single items schema
        if cls == "Array":
            if "items" not in kwargs:
                kwargs["items"] = [_filler()] if by["additionalItems"][0]["to"] % 2 else _filler()
        kwargs["additionalItems"] = tgt(by["additionalItems"][0])
    if "contains" in by:
        kwargs["contains"] = tgt(by["contains"][0])
    if cls == "Array":
        if set(by) - {"items", "itemsT", "additionalItems", "contains"}:
            raise MachineryError(f"Array wrapper with object keywords: {el}")
        items = kwargs.pop("items", None)
        return Array(items if items is not None else _filler(), **kwargs), patches
    if cls != "Element":
        raise MachineryError(f"unknown wrapper class {cls}")
    if "properties" in by:
        kwargs["properties"] = {"x%d" % i: Property(tgt(kd, i)) for i, kd in enumerate(by["properties"])}
    if "patternProperties" in by:
        kwargs["patternProperties"] = {"^x%d" % i: tgt(kd, i) for i, kd in enumerate(by["patternProperties"])}
    if "dependencies" in by:
        kwargs["dependencies"] = {"x%d" % i: tgt(kd, i) for i, kd in enumerate(by["dependencies"])}
    for single in ("additionalProperties", "propertyNames"):
        if single in by:
            if len(by[single]) != 1:
                raise MachineryError("two values in a single-slot keyword")
            kwargs[single] = tgt(by[single][0])
    if set(by) - {"items", "itemsT", "additionalItems", "contains", "properties", "patternProperties",
                  "dependencies", "additionalProperties", "propertyNames"}:
        raise MachineryError(f"generic wrapper with composition positions: {el}")
    return Element(**kwargs), patches


def _apply_patch(w, pos, index, target):
    if pos == "items":
        w.items = target
    elif pos == "itemsT":
        w.items[index] = target
    elif pos in ("additionalItems", "contains", "additionalProperties", "propertyNames"):
        setattr(w, pos, target)
    elif pos in ("anyOf", "oneOf", "allOf"):
        w.elements[index] = target
    elif pos == "not":
        w.element = target
    elif pos == "patternProperties":
        w.patternProperties["^x%d" % index] = target
    elif pos == "dependencies":
        w.dependencies["x%d" % index] = target
    elif pos == "properties":
        from statham.schema.property import Property
        w.properties["x%d" % index] = Property(target)
    else:
        raise MachineryError("cannot patch position " + pos)


def _class_keywords(el, get):
    """keyword arguments of an object class from its kids (insertion order kept)."""
    from statham.schema.property import Property
    kw = {}
    for i, kd in enumerate(el["kids"]):
        pos, t = kd["pos"], get(kd["to"])
        if pos == "properties":
            kw.setdefault("properties", {})["p%d" % i] = Property(t)
        elif pos == "patternProperties":
            kw.setdefault("patternProperties", {})["^q%d" % i] = t
        elif pos == "dependencies":
            kw.setdefault("dependencies", {})["d%d" % i] = t
        elif pos in ("additionalProperties", "propertyNames"):
            if pos in kw:
                raise MachineryError("two values in a single-slot class keyword")
            kw[pos] = t
        else:
            raise MachineryError(f"object classes do not have keyword {pos}")
    return kw


def build_assigned(heap):
    """All classes are created first (empty), the non-object elements are constructed, then the
    class keywords are ASSIGNED (the only way to obtain cyclic class graphs)."""
    from statham.schema.elements import Object
    objs = {}
    for i, el in enumerate(heap, 1):
        if el["cls"] == "Object":
            objs[i] = Object.inline(el["name"])
    pending = []
    for i in range(len(heap), 0, -1):
        el = heap[i - 1]
        if el["cls"] != "Object":
            w, patches = _make_wrapper(el, objs.get)
            objs[i] = w
            pending += [(w, p) for p in patches]
    for w, (pos, index, to) in pending:
        _apply_patch(w, pos, index, objs[to])
    for i, el in enumerate(heap, 1):
        if el["cls"] == "Object":
            for k, v in _class_keywords(el, objs.get).items():
                setattr(objs[i], k, v)
    return objs


def _succ(heap, i):
    return [kd["to"] for kd in heap[i - 1]["kids"]]


def heap_is_acyclic(heap):
    state = {}

    def visit(i):
        stack = [(i, iter(_succ(heap, i)))]
        state[i] = 1
        while stack:
            node, it = stack[-1]
            for j in it:
                if state.get(j) == 1:
                    return False
                if j not in state:
                    state[j] = 1
                    stack.append((j, iter(_succ(heap, j))))
                    break
            else:
                state[node] = 2
                stack.pop()
        return True

    return all(state.get(i) == 2 or visit(i) for i in range(1, len(heap) + 1))


def build_declared(heap):
    """Acyclic heaps only: every element is DECLARED after what it refers to, classes with
    Object.inline(name, properties=..., patternProperties=..., ...): the ordinary way."""
    from statham.schema.elements import Object
    objs = {}

    def get(i):
        if i not in objs:
            el = heap[i - 1]
            for j in _succ(heap, i):
                get(j)
            if el["cls"] == "Object":
                objs[i] = Object.inline(el["name"], **_class_keywords(el, objs.get))
            else:
                objs[i], patches = _make_wrapper(el, objs.get)
                if patches:
                    raise MachineryError("declared build met a forward reference")
        return objs[i]

    for i in range(1, len(heap) + 1):
        get(i)
    return objs


def observe(objs, heap, roots):
    """list(orderer(*roots)) under a CPU-time limit (ITIMER_VIRTUAL: independent of machine load) -> dict(kind, out)."""
    from statham.serializers.orderer import orderer
    from statham.schema.exceptions import SchemaParseError
    names = {id(o): heap[i - 1]["name"] for i, o in objs.items() if heap[i - 1]["cls"] == "Object"}
    limit = len(heap) + 3
    args = [objs[r] for r in roots]

    def attempt(seconds):
        out = []
        kind = None
        msg = ""
        old = signal.signal(signal.SIGVTALRM, _on_alarm)
        signal.setitimer(signal.ITIMER_VIRTUAL, seconds)
        try:
            try:
                for cls in orderer(*args):
                    out.append(names.get(id(cls), "?not-a-class-of-the-graph"))
                    if len(out) > limit:
                        kind = "other:runaway"
                        break
                else:
                    kind = "done"
            except SchemaParseError:
                kind = "SchemaParseError"
            except _Timeout:
                kind = "timeout"
            except BaseException as exc:   # noqa: B902  (the property is about what escapes)
                kind = "other:" + type(exc).__name__
                msg = str(exc)[:120]
        except _Timeout:                   # alarm fired between the inner handlers
            kind = "timeout"
        finally:
            signal.setitimer(signal.ITIMER_VIRTUAL, 0)
            signal.signal(signal.SIGVTALRM, old)
        return dict(kind=kind, out=out, msg=msg)

    ob = attempt(CALL_TIMEOUT)
    if ob["kind"] == "timeout":
        ob = attempt(RETRY_TIMEOUT)
    return ob


_worker_timeouts = 0


def _observe_guarded(build, heap, roots):
    global _worker_timeouts
    if _worker_timeouts >= MAX_TIMEOUTS_PER_WORKER:
        return dict(kind="skipped", out=[], msg="earlier calls in this worker timed out")
    try:
        objs = build(heap)
    except MachineryError:
        raise
    except Exception as exc:      # the library refuses to BUILD the graph: not an orderer outcome
        return dict(kind="unbuildable:" + type(exc).__name__, out=[], msg=str(exc)[:160])
    ob = observe(objs, heap, roots)
    if ob["kind"] == "timeout":
        _worker_timeouts += 1
    return ob


def _same(ob, st):
    return ob["kind"] == st["kind"] and ob["out"] == st["out"]


def _stats_of(st, stats):
    heap = st["heap"]
    for el in heap:
        for kd in el["kids"]:
            stats["pos:" + kd["pos"]] += 1
        if el["cls"] != "Object":
            stats["wrap:" + el["cls"]] += 1
    stats["kind:" + st["kind"]] += 1
    stats["mode:" + st["var"]["mode"]] += 1
    stats["nc:%d" % st["nc"]] += 1
    stats["outlen:%d" % len(st["out"])] += 1
    stats["roots:%d" % len(st["roots"])] += 1
    if st["kind"] == "SchemaParseError" and not _has_self_loop(heap):
        stats["cycle-without-self-loop"] += 1
    if _has_twins(heap):
        stats["twins-behind-equal-wrappers"] += 1
    if len(st["out"]) >= 2 or st["kind"] != "done":
        stats["nontrivial"] += 1
    if not st["mok"]:
        stats["model-violates-R_C11"] += 1


def _class_succ(heap, i):
    """object classes directly below element i (looking through non-object elements)"""
    out, stack, seen = [], list(_succ(heap, i)), set()
    while stack:
        j = stack.pop()
        if heap[j - 1]["cls"] == "Object":
            out.append(j)
        elif j not in seen:
            seen.add(j)
            stack.extend(_succ(heap, j))
    return out


def _has_self_loop(heap):
    return any(i in _class_succ(heap, i) for i, el in enumerate(heap, 1) if el["cls"] == "Object")


def _has_twins(heap):
    """a class holding two structurally identical wrappers that lead to two different leaf
    classes of identical (empty) shape: what an ==-based visited list confuses."""
    for el in heap:
        if el["cls"] != "Object":
            continue
        sigs = {}
        for kd in el["kids"]:
            w = heap[kd["to"] - 1]
            if w["cls"] == "Object" or len(w["kids"]) != 1:
                continue
            leaf = heap[w["kids"][0]["to"] - 1]
            if leaf["cls"] == "Object" and not leaf["kids"]:
                sigs.setdefault((kd["pos"], w["cls"], w["kids"][0]["pos"]), set()).add(w["kids"][0]["to"])
        if any(len(v) > 1 for v in sigs.values()):
            return True
    return False


def replay_chunk(lines):
    """Worker: replay exported terminal states (raw JSON lines).  Returns compact results."""
    stats = Counter()
    cases = []       # (state, which, observation) for drift / confirmed model counter-examples
    n_calls = 0
    samples = []
    for line in lines:
        st = json.loads(line) if isinstance(line, str) else line
        _stats_of(st, stats)
        todo = [("assigned", build_assigned)]
        if st["kind"] == "done" and heap_is_acyclic(st["heap"]):
            todo.append(("declared", build_declared))
        for which, build in todo:
            ob = _observe_guarded(build, st["heap"], st["roots"])
            n_calls += 1
            stats["real:" + ob["kind"].split(":")[0]] += 1
            stats["realisation:" + which] += 1
            if ob["kind"] == "skipped":
                continue
            if _same(ob, st):
                if not st["mok"]:
                    cases.append((st, which, ob, "model"))
            else:
                cases.append((st, which, ob, "drift"))
        if len(samples) < 2 and len(st["out"]) >= 2:
            samples.append(st)
    return dict(n=len(lines), calls=n_calls, stats=stats, cases=cases, samples=samples)


def _init_worker():
    signal.signal(signal.SIGINT, signal.SIG_IGN)
    common.use_repo()


def _chunks(path, size):
    with gzip.open(path, "rt") as fh:
        fh.readline()
        while True:
            part = list(itertools.islice(fh, size))
            if not part:
                return
            yield part


# ------------------------------------------------------------------ stage 4: random heaps
R_CHAINS = [
    ["properties"], ["patternProperties"], ["dependencies"], ["additionalProperties"], ["propertyNames"],
    ["properties", "items"], ["properties", "itemsT"], ["properties", "additionalItems"],
    ["properties", "contains"], ["properties", "anyOf"], ["properties", "oneOf"], ["properties", "allOf"],
    ["properties", "not"], ["properties", "properties"], ["properties", "patternProperties"],
    ["properties", "additionalProperties"], ["properties", "propertyNames"], ["properties", "dependencies"],
    ["patternProperties", "items", "not"], ["dependencies", "anyOf", "contains"],
    ["properties", "itemsT", "allOf", "additionalItems"], ["additionalProperties", "oneOf"],
    ["propertyNames", "not", "not"], ["properties", "items", "items", "items"],
]


def _wrap_cls(pos):
    return {"items": "Array", "additionalItems": "Array", "anyOf": "AnyOf", "oneOf": "OneOf",
            "allOf": "AllOf", "not": "Not"}.get(pos, "Element")


def random_heap(rng, lo, hi):
    """A heap in the vocabulary of OrdererRef.tla, beyond the bound of MC_Orderer: more classes,
    wrapper elements shared between several holders, non-object roots, cycles among non-object
    elements.  Half of the graphs are acyclic by construction."""
    n = rng.randint(lo, hi)
    names = ["K%d" % i for i in range(n)]
    rng.shuffle(names)
    heap = [dict(cls="Object", name=names[i], kids=[]) for i in range(n)]
    dag = rng.random() < 0.55
    rank = list(range(1, n + 1))
    rng.shuffle(rank)
    p = rng.choice((0.12, 0.2, 0.3, 0.45))
    shared = {}     # target -> list of wrapper ids whose chain ends at target

    def add_chain(src, chain, target):
        # src -chain[0]-> w1 ... -chain[-1]-> target ; returns nothing
        if chain[0] in ("additionalProperties", "propertyNames") and \
                any(kd["pos"] == chain[0] for kd in heap[src - 1]["kids"]):
            chain = ["properties"] + chain
        if len(chain) > 1 and shared.get(target) and rng.random() < 0.25:
            heap[src - 1]["kids"].append(dict(pos=chain[0], to=rng.choice(shared[target])))
            return
        ids = [len(heap) + j + 1 for j in range(len(chain) - 1)]
        for j, w in enumerate(ids):
            pos = chain[j + 1]
            heap.append(dict(cls=_wrap_cls(pos), name="",
                             kids=[dict(pos=pos, to=ids[j + 1] if j + 1 < len(ids) else target)]))
        heap[src - 1]["kids"].append(dict(pos=chain[0], to=ids[0] if ids else target))
        if ids:
            shared.setdefault(target, []).append(ids[0])

    for a in range(1, n + 1):
        for b in range(1, n + 1):
            if rng.random() >= p:
                continue
            if dag and rank[a - 1] >= rank[b - 1]:
                continue
            add_chain(a, list(rng.choice(R_CHAINS)), b)
    roots = rng.sample(range(1, n + 1), rng.choice((1, 1, 2, 3)))
    if rng.random() < 0.25:     # a non-object root: orderer(Array(K), ...)
        c = rng.randint(1, n)
        pos = rng.choice(("items", "contains", "anyOf", "not", "additionalProperties"))
        heap.append(dict(cls=_wrap_cls(pos), name="", kids=[dict(pos=pos, to=c)]))
        roots[rng.randrange(len(roots))] = len(heap)
    if rng.random() < 0.2:      # a cycle among NON-object elements (not a class cycle)
        c = rng.randint(1, n)
        w = len(heap) + 1
        kind = rng.choice(("Array", "AnyOf", "Not"))
        if kind == "Array":
            heap.append(dict(cls="Array", name="", kids=[dict(pos="items", to=w)]))
        elif kind == "AnyOf":
            heap.append(dict(cls="AnyOf", name="", kids=[dict(pos="anyOf", to=w), dict(pos="anyOf", to=c)]))
        else:
            heap.append(dict(cls="Not", name="", kids=[dict(pos="not", to=w + 1)]))
            heap.append(dict(cls="Array", name="", kids=[dict(pos="contains", to=w)]))
        holder = rng.randint(1, n)
        heap[holder - 1]["kids"].append(dict(pos="properties", to=w))
    return dict(heap=heap, roots=roots)


def random_chunk(cases):
    out = []
    for st in cases:
        ob = _observe_guarded(build_assigned, st["heap"], st["roots"])
        out.append(ob)
    return out


# ------------------------------------------------------------------ stage 3: adjudication
def tla_str(s):
    s = "".join(c if 32 <= ord(c) <= 126 and c not in '"\\' else "_" for c in s)
    return '"' + s + '"'


def heap_to_tla(heap):
    els = []
    for el in heap:
        kids = ", ".join('[pos |-> %s, to |-> %d]' % (tla_str(kd["pos"]), kd["to"]) for kd in el["kids"])
        els.append('[cls |-> %s, name |-> %s, kids |-> <<%s>>]'
                   % (tla_str(el["cls"]), tla_str(el["name"]), kids))
    return "<<" + ", ".join(els) + ">>"


def event_tla(eid, heap, roots, ob):
    return ('[id |-> %d, heap |-> %s, roots |-> <<%s>>, kind |-> %s, out |-> <<%s>>]'
            % (eid, heap_to_tla(heap), ", ".join(map(str, roots)), tla_str(ob["kind"]),
               ", ".join(tla_str(x) for x in ob["out"])))


def adjudicate(events, chunk=1500):
    """events: list of (id, tla record text) -> ({rejected id: clause}, info)"""
    rejected = {}
    states = 0
    t0 = time.time()
    for c in range(0, len(events), chunk):
        part = events[c:c + chunk]
        data = ("---- MODULE TraceData ----\nEXTENDS Integers, Sequences, TLC\nEvents == <<\n"
                + ",\n".join(t for _, t in part) + "\n>>\n====\n")
        cfg = "SPECIFICATION Spec\nINVARIANT Inv\nPOSTCONDITION Consumed\nCHECK_DEADLOCK FALSE\n"
        res = run_tlc("Trace_Orderer", cfg, extra_modules={"TraceData": data}, workers=1,
                      coverage=False, timeout=3600)
        if not res.ok:
            raise MachineryError("trace validation run failed (trace not consumed or TLC error):\n"
                                 + res.raw_tail[-2500:])
        for l in res.lines:
            rejected[l["reject"]] = l["clause"]
        states += res.distinct
    return rejected, dict(events=len(events), tlc_states=states, wall=round(time.time() - t0, 2))


# ------------------------------------------------------------------ messages
def describe(heap, roots):
    """class-level edges with the keyword path they go through, e.g. A -properties.items-> B"""
    edges = []
    for i, el in enumerate(heap, 1):
        if el["cls"] != "Object":
            continue
        stack = [(kd["to"], [kd["pos"]], {i}) for kd in reversed(el["kids"])]
        while stack:
            j, path, seen = stack.pop()
            tgt = heap[j - 1]
            if tgt["cls"] == "Object":
                edges.append("%s -%s-> %s" % (el["name"], ".".join(path), tgt["name"]))
            elif j not in seen:
                for kd in reversed(tgt["kids"]):
                    stack.append((kd["to"], path + [kd["pos"]], seen | {j}))
    rn = [heap[r - 1]["name"] or "%s#%d" % (heap[r - 1]["cls"], r) for r in roots]
    classes = [el["name"] for el in heap if el["cls"] == "Object"]
    return "classes %s; %s; orderer(%s)" % (",".join(classes), "; ".join(edges) or "no edges", ", ".join(rn))


def _outcome(ob):
    return "%s after yielding [%s]" % (ob["kind"], ", ".join(ob["out"]))


# ------------------------------------------------------------------ the check
def run(pid, tier, replay_file=None):
    t0 = time.time()
    rep = Reporter(pid, tier)
    cfgt = TIERS[tier]
    common.use_repo()
    stats = Counter()
    cases = []            # (state, which, observation, why)
    samples = []
    tlc_info = {}
    n_states = n_calls = 0
    tlc_states = tlc_trans = 0
    live = None

    if replay_file:
        payload = json.load(open(replay_file))
        st = payload["state"]
        if st.get("kind") is None:          # a random case: no prediction, adjudicated directly
            ob = _observe_guarded(build_assigned, st["heap"], st["roots"])
            cases.append((st, "random", ob, "random"))
            n_calls = 1
        else:
            r = replay_chunk([st])
            cases, stats, n_calls = r["cases"], r["stats"], r["calls"]
        n_states = 1
    else:
        live = _tlc_liveness(cfgt["live"])
        tlc_states += live["distinct"]
        tlc_trans += live["states"]
        ctx = mp.get_context("fork")
        with ctx.Pool(common.NPROC, initializer=_init_worker) as pool:
            for run_ in cfgt["runs"]:
                path, meta = _tlc_export(run_)
                tlc_info[run_["name"]] = dict(MaxClasses=run_["MaxClasses"], variants=len(run_["variants"]),
                                              roots=run_["roots"], **meta)
                tlc_states += meta["distinct"]
                tlc_trans += meta["states"]
                got = 0
                for r in pool.imap_unordered(replay_chunk, _chunks(path, 250)):
                    got += r["n"]
                    n_calls += r["calls"]
                    stats.update(r["stats"])
                    if len(cases) < 4 * MAX_EVENTS:
                        cases.extend(r["cases"])
                    else:
                        stats["cases-not-kept"] += len(r["cases"])
                    if len(samples) < 4:
                        samples.extend(r["samples"][:1])
                if got != meta["exported"]:
                    raise MachineryError(f"replayed {got} of {meta['exported']} exported states")
                n_states += got
            # ---------------- stage 4: random heaps beyond the bound
            rng = random.Random(SEED * 7919 + 11)
            lo, hi = cfgt["random_classes"]
            rcases = [random_heap(rng, lo, hi) for _ in range(cfgt["random"])]
            parts = [rcases[i:i + 50] for i in range(0, len(rcases), 50)]
            robs = [ob for part in pool.map(random_chunk, parts) for ob in part]
        for st, ob in zip(rcases, robs):
            n_calls += 1
            stats["random:" + ob["kind"].split(":")[0]] += 1
            if ob["kind"] != "skipped":
                cases.append((dict(st, kind=None, out=None), "random", ob, "random"))

    # ---------------- stage 3: verdicts
    events, index = [], {}
    drift = Counter()
    for st, which, ob, why in cases:
        if why == "model":
            rep.violation((pid, "model", st["kind"]),
                          "the orderer does exactly what the model predicts and the prediction "
                          "violates R_C11: %s -> %s" % (describe(st["heap"], st["roots"]), _outcome(ob)),
                          dict(state=st, observed=ob, realisation=which))
            continue
        if ob["kind"].startswith("unbuildable"):
            raise MachineryError("cannot realise an exported heap on the library: %s: %s"
                                 % (describe(st["heap"], st["roots"]), ob))
        if why == "drift":
            drift[which + ":" + ob["kind"].split(":")[0]] += 1
        eid = len(index) + 1
        index[eid] = (st, which, ob, why)
        if len(events) < MAX_EVENTS or why == "random":
            events.append((eid, event_tla(eid, st["heap"], st["roots"], ob)))
    adj = dict(events=0, tlc_states=0)
    accepted_random = 0
    if events:
        rejected, adj = adjudicate(events)
        for eid, _ in events:
            st, which, ob, why = index[eid]
            if eid not in rejected:
                accepted_random += why == "random"
                continue
            clause = rejected[eid]
            pred = "" if why == "random" else " (model predicted %s)" % _outcome(st)
            rep.violation((pid, clause, ob["kind"].split(":")[-1] if ob["kind"] != "done" else "done"),
                          "observation rejected by R_C11 [%s]: %s -> %s%s"
                          % (clause, describe(st["heap"], st["roots"]), _outcome(ob), pred),
                          dict(state=st, observed=ob, realisation=which, clause=clause))
    tlc_states += adj.get("tlc_states", 0)
    tlc_trans += adj.get("events", 0)

    # ---------------- vacuity guards (computed from the exported states themselves)
    witnesses = {}
    if not replay_file:
        witnesses = dict(
            AddClass=stats["nc:2"] + stats["nc:3"] + stats["nc:4"] > 0,
            AddEdge=sum(v for k, v in stats.items() if k.startswith("pos:")) > 0,
            Freeze=n_states > 0,
            CycleCheck_refuses=stats["kind:SchemaParseError"] > 0,
            CycleCheck_passes=stats["kind:done"] > 0,
            Pop=sum(v for k, v in stats.items() if k.startswith("outlen:") and k != "outlen:0") > 0,
            Finish=stats["kind:done"] > 0,
            two_roots=stats["roots:2"] > 0,
            cycle_without_self_loop=stats["cycle-without-self-loop"] > 0,
            twins_behind_equal_wrappers=stats["twins-behind-equal-wrappers"] > 0,
            declared_realisation=stats["realisation:declared"] > 0,
            random_acyclic=stats["random:done"] > 0,
            random_cyclic=stats["random:SchemaParseError"] > 0 or bool(rep.groups),
        )
        missing = [p for p in KEYWORD_POSITIONS if not stats["pos:" + p]]
        if missing:
            raise MachineryError("vacuity: keyword positions never exercised: %s" % missing)
        for m in MODES:
            if not stats["mode:" + m]:
                raise MachineryError("vacuity: variant mode never explored: " + m)
        bad = [k for k, v in witnesses.items() if not v]
        if bad and not rep.groups:
            raise MachineryError("vacuity: no witness for %s" % bad)
        if stats["real:skipped"] or stats["random:skipped"]:
            if not rep.groups:
                raise MachineryError("calls were skipped after timeouts but nothing was reported")

    coverage = dict(
        states=tlc_states,
        transitions=tlc_trans,
        traces_validated_against_impl=n_states + adj.get("events", 0),
        evaluations=n_calls,
        distinct_nontrivial=stats["nontrivial"] if not replay_file else n_states,
        rule="one case = (exported terminal state of MC_Orderer: element heap + roots, realisation); "
             "the real list(orderer(*roots)) must equal the model's prediction or be accepted by "
             "R_C11 in TLC; non-trivial = distinct exported states that are refused or order >= 2 classes",
        samples=[dict(graph=describe(s["heap"], s["roots"]), predicted=_outcome(s)) for s in samples[:4]],
        exhaustive=False,
        bfs_exhaustive_within_bound=True,
        bounds=dict(tlc=tlc_info, liveness=live,
                    random=dict(cases=cfgt["random"], classes=cfgt["random_classes"], seed=SEED)
                    if not replay_file else None,
                    call_timeout_s=CALL_TIMEOUT, retry_timeout_s=RETRY_TIMEOUT),
        tlc=dict(safety_invariants=list(SAFETY_INVARIANTS), trace_validation=adj),
        action_witnesses=witnesses,
        positions={k[4:]: v for k, v in stats.items() if k.startswith("pos:")},
        wrapper_elements={k[5:]: v for k, v in stats.items() if k.startswith("wrap:")},
        predicted_outcomes={k[5:]: v for k, v in stats.items() if k.startswith("kind:")},
        real_outcomes={k[5:]: v for k, v in stats.items() if k.startswith("real:")},
        realisations={k[12:]: v for k, v in stats.items() if k.startswith("realisation:")},
        random_outcomes={k[7:]: v for k, v in stats.items() if k.startswith("random:")},
        random_accepted_by_R_C11=accepted_random,
        model_states_violating_R_C11=stats["model-violates-R_C11"],
        drift=dict(drift),
        drift_events_total=sum(1 for c in cases if c[3] == "drift"),
        drift_events_adjudicated=sum(1 for eid, _ in events if index[eid][3] == "drift"),
        cases_not_kept=stats["cases-not-kept"],
    )
    return rep.finish(coverage, time.time() - t0,
                      assumptions=["A1 bounded exhaustiveness (all digraphs on <= MaxClasses classes; "
                                   "positions by rotation, not every combination)",
                                   "A2 the model is bound to the code on the replayed states only",
                                   "class names are unique (stated assumption of orderer)",
                                   "a hang is observed as a %.0f s + %.0f s wall-clock timeout"
                                   % (CALL_TIMEOUT, RETRY_TIMEOUT)])
