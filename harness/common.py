"""Shared plumbing: locating the repository under test, TLC invocation, evidence."""
import hashlib
import json
import os
import re
import shutil
import subprocess
import sys
import tempfile
import time

VERIF = os.path.dirname(os.path.dirname(os.path.abspath(__file__)))
SPEC = os.path.join(VERIF, "spec")
REPO = os.environ.get("VERIF_REPO", "/repo")
SEED = int(os.environ.get("VERIF_SEED", "0") or 0)
NPROC = int(os.environ.get("VERIF_NPROC", "16"))
TLC_JAR = "/opt/veriftools/tla/tla2tools.jar:/opt/veriftools/tla/CommunityModules-deps.jar"


def use_repo():
    """Make `import statham` resolve to the tree under test (current working tree)."""
    if sys.path[0] != REPO:
        sys.path.insert(0, REPO)
    import statham  # noqa

    got = os.path.dirname(os.path.dirname(os.path.abspath(statham.__file__)))
    if os.path.realpath(got) != os.path.realpath(REPO):
        raise MachineryError(f"statham imported from {got}, expected {REPO}")


class MachineryError(Exception):
    """Anything that is the framework's fault: exit 2, never a VIOLATION."""


class TlcResult:
    def __init__(self):
        self.lines = []  # decoded PrintT payloads (python objects)
        self.raw_tail = ""
        self.states = 0
        self.distinct = 0
        self.depth = 0
        self.ok = False
        self.violation = None  # name of violated invariant/property, if any
        self.coverage = {}  # action name -> (distinct, total)
        self.wall = 0.0
        self.stdout_path = None


_STATS = re.compile(r"(\d+) states generated, (\d+) distinct states found")
_SIMSTATS = re.compile(r"The number of states generated: (\d+)")
_DEPTH = re.compile(r"The depth of the complete state graph search is (\d+)")
_COV = re.compile(r"^<(\w+) line (\d+), col (\d+) to line (\d+), col (\d+) of module (\w+)>: (\d+):(\d+)")
_INVVIOL = re.compile(r"Error: Invariant (\w+) is violated|Error: Action property (\w+) is violated|Error: Temporal properties were violated")


def run_tlc(module, cfg_text, *, workers=None, simulate=None, depth=None, seed=None,
            extra_modules=None, timeout=3600, keep_lines=True, line_sink=None,
            java_opts=None, coverage=True, deadlock=False, env=None, heap=None):
    """Run TLC on spec/<module>.tla with the given cfg text in a scratch metadir.

    PrintT(ToJson(x)) lines are decoded to python objects and returned (or passed to
    line_sink).  extra_modules: {name: text} of generated modules (trace data).
    """
    workers = workers or NPROC
    tmp = tempfile.mkdtemp(prefix="verif-tlc-")
    try:
        for fn in os.listdir(SPEC):
            if fn.endswith(".tla"):
                shutil.copy(os.path.join(SPEC, fn), tmp)
        for name, text in (extra_modules or {}).items():
            with open(os.path.join(tmp, name + ".tla"), "w") as fh:
                fh.write(text)
        with open(os.path.join(tmp, module + ".cfg"), "w") as fh:
            fh.write(cfg_text)
        if heap is None:      # trace validation is linear and small; model checking gets more
            heap = "3g" if module.startswith("Trace_") else "6g"
        cmd = ["java", "-XX:+UseParallelGC", "-Xss64m", "-Xmx" + heap,
               "-Djava.io.tmpdir=" + tmp] + (java_opts or []) + [
            "-cp", TLC_JAR, "tlc2.TLC", "-workers", str(workers), "-metadir",
            os.path.join(tmp, "meta"), "-noGenerateSpecTE"]
        if coverage:
            cmd += ["-coverage", "1"]
        if simulate:
            cmd += ["-simulate", simulate]
            if depth:
                cmd += ["-depth", str(depth)]
        if seed is not None:
            cmd += ["-seed", str(seed)]
        if deadlock:
            cmd += ["-deadlock"]
        cmd += [module + ".tla"]
        res = TlcResult()
        t0 = time.time()
        proc = subprocess.Popen(cmd, cwd=tmp, stdout=subprocess.PIPE, stderr=subprocess.STDOUT,
                                text=True, env={**os.environ, **(env or {})})
        tail = []
        try:
            for line in proc.stdout:
                if line.startswith('"{') or line.startswith('"['):
                    try:
                        obj = json.loads(json.loads(line))
                    except Exception as exc:  # pragma: no cover
                        raise MachineryError(f"undecodable TLC export line: {line[:200]!r}: {exc}")
                    if line_sink:
                        line_sink(obj)
                    elif keep_lines:
                        res.lines.append(obj)
                    continue
                tail.append(line)
                if len(tail) > 400:
                    del tail[:100]
                m = _STATS.search(line)
                if m:
                    res.states, res.distinct = int(m.group(1)), int(m.group(2))
                m = _SIMSTATS.search(line)
                if m:
                    res.states = res.distinct = int(m.group(1))
                m = _DEPTH.search(line)
                if m:
                    res.depth = int(m.group(1))
                m = _COV.match(line)
                if m:
                    res.coverage[m.group(1)] = (int(m.group(7)), int(m.group(8)))
                m = _INVVIOL.search(line)
                if m:
                    res.violation = m.group(1) or m.group(2) or "temporal"
            proc.wait(timeout=timeout)
        finally:
            if proc.poll() is None:
                proc.kill()
        res.wall = time.time() - t0
        res.raw_tail = "".join(tail[-120:])
        res.ok = proc.returncode == 0
        res.returncode = proc.returncode
        return res
    finally:
        shutil.rmtree(tmp, ignore_errors=True)


def write_evidence(pid, tier, level, coverage, wall, violations, assumptions=None):
    evdir = os.environ.get("VERIF_EVIDENCE_DIR") or os.path.join(VERIF, "evidence")
    os.makedirs(evdir, exist_ok=True)
    ev = {
        "property_id": pid,
        "tier": tier,
        "seed": SEED,
        "level": level,
        "coverage": coverage,
        "assumptions": assumptions or [],
        "wall_s": round(wall, 2),
        "violations": violations,
    }
    path = os.path.join(evdir, f"{pid}.json")
    tmp = path + ".tmp"
    with open(tmp, "w") as fh:
        json.dump(ev, fh, indent=1, default=str)
    os.replace(tmp, path)
    return path


def write_replay(pid, payload):
    rdir = os.environ.get("VERIF_REPLAY_DIR") or os.path.join(VERIF, "replays")
    os.makedirs(rdir, exist_ok=True)
    blob = json.dumps(payload, sort_keys=True, default=str)
    h = hashlib.sha1(blob.encode()).hexdigest()[:12]
    path = os.path.join(rdir, f"{pid}-{h}.json")
    with open(path, "w") as fh:
        fh.write(blob)
    return path


def load_known_findings():
    path = os.path.join(VERIF, "known_findings.json")
    if not os.path.exists(path):
        return {"findings": [], "fixed": []}
    with open(path) as fh:
        return json.load(fh)
