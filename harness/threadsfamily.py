"""Thread family (C14): element trees, payloads, recording of access programs, replay of
schedules on real threads, free-running rounds.  See checks_threads.py for the pipeline and
threadmon.py for the monitor and the gate.

Everything runs against the tree under test ($VERIF_REPO); nothing in the repository is edited.
"""
import hashlib
import itertools
import sys
import threading
import warnings

import common
from common import MachineryError
from threadmon import MON, run_gated

warnings.simplefilter("ignore")      # once, globally: catch_warnings() is not thread-safe


# ====================================================================== cases
# A case builds a FRESH element tree and FRESH payloads every time it is called:
#   mk() -> (roots: {name: element}, payloads: [(root name, value), ...])   (>= 3 payloads)
# Payloads of one mk() may share sub-objects (the same list inside two payloads).
def _lib():
    from statham.schema import elements as E
    from statham.schema.property import Property
    return E, Property


def case_elem2():
    """the element of the abstract bind protocol: one element, two declared properties"""
    E, P = _lib()
    root = E.Element(properties={"x": P(E.Integer(minimum=0), required=True),
                                 "z": P(E.String(maxLength=3))},
                     additionalProperties=False)
    return {"r": root}, [("r", {"x": 1, "z": "ab"}), ("r", {"x": -1, "z": "ab"}),
                         ("r", {"z": "q"}), ("r", {"x": 2, "w": 0}), ("r", {"x": 3, "z": "cd"})]


def case_wide():
    """many keywords per element: a partially built validator list accepts wrongly"""
    E, P = _lib()
    root = E.Element(
        minProperties=1, additionalProperties=False,
        properties={
            "count": P(E.Integer(minimum=0, maximum=10, multipleOf=2), required=True),
            "name": P(E.String(minLength=2, maxLength=5, pattern="^[a-z]+$")),
            "tags": P(E.Array(E.String(minLength=1), minItems=1, maxItems=2, uniqueItems=True)),
        })
    return {"r": root}, [("r", {"count": 4}), ("r", {"name": "ab"}), ("r", {"count": 11}),
                         ("r", {"count": 2, "name": "toolong"}), ("r", {"count": 2, "tags": ["a", "a"]}),
                         ("r", {"count": 2, "extra": 1})]


def case_leafs():
    """plain leaf elements called directly, accepted and rejected"""
    E, P = _lib()
    num = E.Number(minimum=1, exclusiveMaximum=9, multipleOf=0.5)
    arr = E.Array([E.Integer(), E.String(enum=["a", "b"])], additionalItems=False,
                  contains=E.Element(const=1))
    req = E.Element(required=["k"], maxProperties=2)      # explicit required list, no required property
    return {"n": num, "a": arr, "q": req}, [("n", 2.5), ("n", 9), ("a", [1, "a"]), ("a", [2, "c"]),
                                            ("n", 0.75), ("a", [1, "b", 3]), ("q", {"k": 1}), ("q", {"j": 2})]


def case_models():
    """model classes: renamed property, required, container defaults, patternProperties that
    match declared names, subclass"""
    E, P = _lib()

    class Inner(E.Object):
        class_ = P(E.String(minLength=1), source="class")
        value = P(E.Integer(), required=True)

    class Outer(E.Object, additionalProperties=False,
                patternProperties={"^in": E.Element(minProperties=1), "^x_": E.Integer()}):
        inner = P(Inner, required=True)
        tags = P(E.Array(E.String(minLength=1), default=["t"]))
        meta = P(E.Element(default={"k": [1]}, properties={"k": P(E.Array(E.Integer()))}))

    class Child(Outer):
        extra = P(E.Boolean(default=False))

    return {"o": Outer, "c": Child, "i": Inner}, [
        ("o", {"inner": {"class": "A", "value": 1}}),
        ("o", {"inner": {"value": "no"}}),
        ("c", {"inner": {"value": 2}, "extra": True, "x_1": 5}),
        ("i", {"class": "", "value": 3}),
        ("c", {"inner": {"class": "B", "value": 4}, "tags": ["u", "v"]}),
        ("o", {"inner": {"value": 5}, "x_2": "bad"}),
        ("o", {"tags": ["only"]}),                       # required property missing
        ("c", {"inner": {"value": 6}, "zzz": 1}),        # additionalProperties=False
    ]


def case_additional():
    """keys that are NOT declared: additionalProperties / patternProperties build their property
    objects per key and per call"""
    E, P = _lib()
    root = E.Element(properties={"a": P(E.Integer())}, patternProperties={"^p_": E.String(maxLength=2)},
                     additionalProperties=E.Integer(minimum=0))

    class Bag(E.Object, additionalProperties=E.Array(E.Integer())):
        a = P(E.Integer())

    return {"r": root, "b": Bag}, [
        ("r", {"a": 1, "extra1": 2}), ("r", {"extra2": 3, "p_x": "s"}), ("r", {"p_y": 5}),
        ("r", {"other": "str"}), ("b", {"k1": [1], "k2": [2, 3]}), ("b", {"a": 2, "k3": [4]}),
        ("b", {"k4": ["x"]})]


def case_array_objs():
    """Array of objects; payloads that SHARE sub-objects (the same dict / list object inside
    two different payloads)"""
    E, P = _lib()

    class Item(E.Object):
        key = P(E.String(pattern="^[a-z]"), required=True)
        vals = P(E.Array(E.Integer(minimum=0)))

    root = E.Array(Item, minItems=1)
    wrapper = E.Element(properties={"items": P(root), "id": P(E.Integer(), required=True)})
    shared_vals = [1, 2, 3]
    shared_item = {"key": "a", "vals": shared_vals}
    return {"r": root, "w": wrapper}, [
        ("r", [shared_item, {"key": "b"}]),
        ("r", [{"key": "c", "vals": shared_vals}, shared_item]),
        ("w", {"id": 1, "items": [shared_item]}),
        ("r", [{"key": "9"}]),
        ("w", {"id": 2, "items": [{"key": "d", "vals": [-1]}]}),
        ("r", []),
    ]


def case_anyof():
    """AnyOf / OneOf / AllOf / Not over classes and leafs"""
    E, P = _lib()

    class Cat(E.Object):
        purr = P(E.Boolean(), required=True)

    class Dog(E.Object):
        bark = P(E.Integer(minimum=0), required=True)

    any_ = E.AnyOf(Cat, Dog, E.Array(Cat))
    one = E.OneOf(E.Integer(multipleOf=2), E.Integer(multipleOf=3), E.Not(E.Integer()))
    root = E.Element(properties={"pet": P(any_), "n": P(one), "both": P(E.AllOf(Cat, E.Element(maxProperties=1)))})
    return {"r": root, "a": any_}, [
        ("r", {"pet": {"purr": True}, "n": 4}),
        ("r", {"pet": {"bark": -1}}),
        ("a", [{"purr": False}]),
        ("r", {"n": 6}),
        ("r", {"n": "s", "both": {"purr": True}}),
        ("a", {"bark": 3}),
    ]


def case_defaults():
    """container defaults that live in the shared tree; both payloads omit the property"""
    E, P = _lib()

    class Option(E.Object):
        key = P(E.String(minLength=1), required=True)

    class Request(E.Object):
        id = P(E.Integer(minimum=0), required=True)
        options = P(E.Array(Option, default=[{"key": "verbose"}]))
        conf = P(E.Element(default={"a": {"b": [1]}}))
        bad = P(E.Array(E.Integer(), default=["not-an-int"]))

    return {"r": Request}, [("r", {"id": 1}), ("r", {"id": 2}), ("r", {"id": -1}),
                            ("r", {"id": 3, "options": [{"key": ""}]}),
                            ("r", {"id": 4, "conf": {"z": 1}})]


def case_shared_sub():
    """one element instance used in several places; one property object declared by two elements
    under the SAME name; dependencies, propertyNames, format"""
    E, P = _lib()
    word = E.String(minLength=2, format="uuid-ish")
    ident = P(E.Integer(minimum=1), required=True)
    left = E.Element(properties={"id": ident, "w": P(word)}, propertyNames=E.String(maxLength=3),
                     dependencies={"w": ["id"], "id": E.Element(minProperties=1)})
    right = E.Element(properties={"id": ident, "ws": P(E.Array(word))})
    root = E.Element(properties={"l": P(left), "r": P(right), "w": P(word)})
    return {"r": root, "left": left, "right": right}, [
        ("r", {"l": {"id": 1, "w": "ab"}, "w": "cd"}),
        ("r", {"r": {"id": 0}}),
        ("right", {"id": 2, "ws": ["ab", "c"]}),
        ("left", {"id": 3, "long": 1}),
        ("r", {"r": {"id": 5, "ws": ["xy"]}, "l": {"id": 6}}),
    ]


def case_formats():
    """format keyword: registered checkers (shared register) and an unknown format"""
    E, P = _lib()
    root = E.Element(properties={"u": P(E.String(format="uuid")), "d": P(E.String(format="date-time")),
                                 "q": P(E.String(format="no-such-format"))})
    return {"r": root}, [("r", {"u": "12345678-1234-5678-1234-567812345678"}),
                         ("r", {"u": "nope"}), ("r", {"d": "2020-01-01T00:00:00Z", "q": "x"}),
                         ("r", {"d": "yesterday-ish"})]


def case_cross_renamed():
    """ONE property object declared by two elements under DIFFERENT attribute names"""
    E, P = _lib()
    shared = P(E.Integer(minimum=0))
    left = E.Element(properties={"x": shared, "z": P(E.String())}, additionalProperties=False)
    right = E.Element(properties={"y": shared}, additionalProperties=False)
    root = E.Element(properties={"l": P(left), "r": P(right)})
    return {"root": root, "l": left, "r": right}, [
        ("l", {"x": 1, "z": "s"}), ("r", {"x": 2}), ("root", {"l": {"x": 3}}),
        ("root", {"r": {"x": 4}})]


def case_control():
    """POSITIVE CONTROL, not library code: an element class defined HERE that keeps per-call
    state on the shared element.  Every run must find it racy through every channel (monitor ->
    TLC candidate -> gate replay -> R_C14 rejects; pre-emption sweep); its rejections are never
    reported, their absence is a machinery failure."""
    E, P = _lib()

    class Racy(E.Element):
        def construct(self, value, property_):
            self.scratch = value              # write to the shared element
            _ = self.minimum                  # a monitored access in between (a gate point)
            return self.scratch * 10          # ... and read back

    return {"r": Racy()}, [("r", 1), ("r", 2), ("r", 3)]


class Case:
    def __init__(self, name, mk, groups, tier="quick", finding=None):
        self.name, self.mk, self.groups, self.tier, self.finding = name, mk, groups, tier, finding


def cases(tier):
    cs = [
        Case("elem2", case_elem2, [(0, 4), (1, 2), (0, 3), (0, 1, 2)]),
        Case("wide", case_wide, [(0, 1), (0, 2), (3, 4), (0, 5), (0, 1, 2)]),
        Case("leafs", case_leafs, [(0, 1), (6, 7), (2, 3), (4, 5)]),
        Case("models", case_models, [(0, 6), (2, 7), (0, 1), (2, 4), (3, 5), (0, 2), (0, 2, 4)]),
        Case("additional", case_additional, [(0, 1), (4, 5), (1, 2), (0, 3), (5, 6), (0, 1, 3)]),
        Case("array_objs", case_array_objs, [(0, 1), (2, 3), (0, 2), (4, 5), (0, 1, 2)]),
        Case("anyof", case_anyof, [(0, 1), (2, 5), (3, 4), (0, 2)]),
        Case("defaults", case_defaults, [(0, 1), (2, 3), (0, 4), (0, 1, 4)]),
        Case("shared_sub", case_shared_sub, [(0, 1), (2, 3), (0, 4), (0, 2, 3)]),
        Case("formats", case_formats, [(0, 1), (2, 3)]),
        Case("cross_renamed", case_cross_renamed, [(0, 1), (2, 3), (1, 0)], finding="cross_renamed"),
        Case("control", case_control, [(0, 1), (0, 1, 2)]),
    ]
    return cs


CASES = {c.name: c for c in cases("thorough")}


# ====================================================================== projection of results
def project(r, depth=0):
    from statham.schema.constants import NotPassed
    from statham.schema.elements import Object
    from statham.schema.elements.base import _AnonymousObject
    if depth > 40:
        return "<deep>"
    if isinstance(r, NotPassed):
        return "NP"
    if r is None or isinstance(r, (bool, int, float, str)):
        return "%s:%r" % (type(r).__name__, r)
    if isinstance(r, Object):
        d = object.__getattribute__(r, "__dict__").get("_dict", {})
        return "M:%s(%s)" % (type(r).__name__, ",".join("%r=%s" % (k, project(v, depth + 1)) for k, v in d.items()))
    if isinstance(r, _AnonymousObject):
        return "A(%s)" % ",".join("%r=%s" % (k, project(dict.__getitem__(r, k), depth + 1)) for k in dict.__iter__(r))
    if isinstance(r, dict):
        return "D(%s)" % ",".join("%r=%s" % (k, project(dict.__getitem__(r, k), depth + 1)) for k in dict.__iter__(r))
    if isinstance(r, (list, tuple)):
        it = list.__iter__(r) if isinstance(r, list) else iter(r)
        return "L[%s]" % ",".join(project(v, depth + 1) for v in it)
    return "X:" + type(r).__name__


def do_call(element, value):
    """One validation call; returns (kind, projected result).  Never the message."""
    from statham.schema.exceptions import ValidationError
    try:
        r = element(value)
    except ValidationError:
        return ("reject", "")
    except MachineryError:
        raise
    except TypeError:
        return ("typeerror", "")
    except Exception as exc:  # noqa
        return ("other:" + type(exc).__name__, "")
    tl = MON.tls
    was = getattr(tl, "busy", True)
    tl.busy = True                      # projecting is the harness's business, not the call's
    try:
        return ("ok", project(r))
    finally:
        tl.busy = was


# ====================================================================== a world = tree + payloads
class World:
    """A freshly built tree with fresh payloads, instrumented and registered with the monitor."""

    def __init__(self, case, group, variant, instrument=True):
        self.case, self.group, self.variant = case, tuple(group), variant
        roots, payloads = case.mk()
        self.roots = roots
        self.payloads = [payloads[i] for i in self.group]
        MON.active = False
        MON.reset()
        self.instrumented = instrument
        if variant == "warm":
            # every call of the group once, sequentially, BEFORE the objects are registered: what
            # the first calls leave behind (caches, ...) then belongs to the pre-existing objects
            _r2, p2 = case.mk()            # separate payload objects for the warm-up
            for i in self.group:
                do_call(self.roots[p2[i][0]], p2[i][1])
        if instrument:
            self._register()
            MON.prime()
        self.tree0 = self.tree()

    # ---- registration: walk, label, replace plain containers by traced ones
    def _register(self):
        from statham.schema.elements.base import Element, UNBOUND_PROPERTY
        from statham.schema.elements.meta import ObjectMeta
        from statham.schema.property import _Property, _PropertyDict
        from statham.schema.validation.format import format_checker
        mon = MON
        self.elements, self.props, self.containers = [], [], []
        memo = {}
        counter = itertools.count(1)

        def trace_value(v, lab):
            """traced deep copy of plain containers (sharing preserved), registered"""
            t = type(v)
            if t not in (list, dict):
                if isinstance(v, (list, dict)) and id(v) not in mon.labels \
                        and isinstance(v, (mon.TList, mon.TDict, _PropertyDict)):
                    mon.watch(lab, v)
                    self.containers.append(v)
                return v
            if id(v) in memo:
                return memo[id(v)]
            new = mon.traced(v)
            memo[id(v)] = new
            mon.keep.append(v)
            mon.watch(lab, new)
            self.containers.append(new)
            if t is list:
                for i, x in enumerate(list.__iter__(v)):
                    list.__setitem__(new, i, trace_value(x, "%s[%d]" % (lab, i)))
            else:
                for k in list(dict.__iter__(v)):
                    dict.__setitem__(new, k, trace_value(dict.__getitem__(v, k), "%s[%s]" % (lab, k)))
            return new

        def children(v, out):
            if isinstance(v, (Element, _Property)):
                out.append(v)
            elif isinstance(v, dict):
                for k in dict.__iter__(v):
                    children(dict.__getitem__(v, k), out)
            elif isinstance(v, (list, tuple)):
                for x in (list.__iter__(v) if isinstance(v, list) else v):
                    children(x, out)

        def visit(x):
            if id(x) in mon.labels:
                return
            if isinstance(x, _Property):
                lab = "p%d" % next(counter)
                mon.watch(lab, x)
                self.props.append(x)
                d = object.__getattribute__(x, "__dict__")
                for k in ("element", "parent"):
                    if isinstance(d.get(k), Element):
                        visit(d[k])
                return
            is_cls = isinstance(x, type)
            name = type.__getattribute__(x, "__name__") if is_cls else type(x).__name__
            lab = "e%d:%s" % (next(counter), name)
            mon.watch(lab, x)
            self.elements.append(x)
            d = type.__getattribute__(x, "__dict__") if is_cls else object.__getattribute__(x, "__dict__")
            setter = type.__setattr__ if is_cls else object.__setattr__
            for k in list(d):
                v = d[k]
                if not _state_attr(k, v):
                    continue
                if isinstance(v, (list, dict)):
                    nv = trace_value(v, lab + "." + k)
                    if nv is not v:
                        setter(x, k, nv)
                        v = nv
                out = []
                children(v, out)
                for y in out:
                    visit(y)
            if is_cls:
                for b in type.__getattribute__(x, "__mro__")[1:]:
                    if isinstance(b, ObjectMeta):
                        visit(b)

        for name in sorted(self.roots):
            visit(self.roots[name])
        # module-level singletons
        mon.watch("U", UNBOUND_PROPERTY)
        self.props.append(UNBOUND_PROPERTY)
        ud = object.__getattribute__(UNBOUND_PROPERTY, "__dict__")
        mon.watch("U.element", ud["element"])
        mon.watch("U.parent", ud["parent"])
        self.elements += [ud["element"], ud["parent"]]
        mon.watch("F", format_checker)
        fd = object.__getattribute__(format_checker, "__dict__")
        reg = fd["_callable_register"]
        if type(reg) is dict:
            fd["_callable_register"] = reg = mon.traced(reg)
        mon.watch("F.register", reg)
        self.containers.append(reg)
        for lab, obj in _module_globals():
            mon.watch(lab, obj)
            self.containers.append(obj)
        # payload containers (so that sub-objects shared between payloads are shared locations)
        pmemo_before = len(self.containers)
        self.payloads = [(name, trace_value(val, "v%d" % i)) for i, (name, val) in enumerate(self.payloads)]
        self.n_payload_containers = len(self.containers) - pmemo_before

    # ---- projected tree: the library's own notion of an element's identity (public keywords and
    # the declared properties) for every element, every property's binding, every container
    def tree(self):
        if not self.instrumented:
            return None
        mon = MON
        out = {}
        for x in self.elements:
            lab = mon.labels[id(x)]
            is_cls = isinstance(x, type)
            d = type.__getattribute__(x, "__dict__") if is_cls else object.__getattribute__(x, "__dict__")
            for k, v in d.items():
                if (k.startswith("_") and k != "_properties") or not _state_attr(k, v):
                    continue
                out[lab + "." + k] = mon.fp(v, 3)
        for p in self.props:
            lab = mon.labels[id(p)]
            d = object.__getattribute__(p, "__dict__")
            for k in ("element", "required", "source", "name", "parent"):
                out[lab + "." + k] = mon.fp(d.get(k), 1)
        for c in self.containers:
            lab = mon.labels[id(c)]
            if lab.startswith("v"):
                continue
            out[lab + ".*"] = mon.content_fp(c)
        return out

    def thunk(self, k):
        name, val = self.payloads[k]
        el = self.roots[name]
        return lambda: do_call(el, val)


def _state_attr(k, v):
    import types
    if k.startswith("__"):
        return False
    t = type(v)
    return not (t is types.FunctionType or t is property or t is staticmethod or t is classmethod)


_GLOBALS = None


def _module_globals():
    global _GLOBALS
    if _GLOBALS is None:
        _GLOBALS = MON.wrap_module_globals()
    return _GLOBALS


def setup_process():
    """once per (worker) process"""
    common.use_repo()
    import statham.schema.parser  # noqa: F401  (module-level containers live there too)
    import statham.schema.elements  # noqa: F401
    MON.install()
    sys.setrecursionlimit(max(sys.getrecursionlimit(), 5000))


def _libdir():
    import os
    import statham
    return os.path.dirname(os.path.abspath(statham.__file__)) + os.sep


def tree_hash(tree):
    return hashlib.sha1(repr(sorted(tree.items())).encode()).hexdigest()[:16]


def tree_diff(a, b, limit=6):
    out = []
    for k in sorted(set(a) | set(b)):
        if a.get(k) != b.get(k):
            out.append("%s: %s -> %s" % (k, str(a.get(k))[:80], str(b.get(k))[:80]))
    return out[:limit]


# ====================================================================== recording (one call ALONE)
def record_instance(task):
    """task = (case name, group, variant, opts).  Returns the recorded instance:
    alone outcome and access program of every thread, sequential orders, baseline."""
    cname, group, variant, opts = task
    setup_process()
    case = CASES[cname]
    n = len(group)
    # uninstrumented baseline (transparency of the instrumentation)
    base = []
    for k in range(n):
        w = World(case, group, variant, instrument=False)
        base.append(w.thunk(k)())
    progs, alone, trees_after, tree0 = [], [], [], None
    for k in range(n):
        w = World(case, group, variant)
        tree0 = w.tree0
        MON.diff, MON.log_reads, MON.trace_calls = True, True, None
        MON.active = True
        log = MON.enrol(k + 1)
        try:
            out = w.thunk(k)()
        finally:
            MON.leave()
            MON.active = False
        progs.append(log)
        alone.append(out)
        trees_after.append(w.tree())
    for k in range(n):
        if alone[k] != base[k]:
            raise MachineryError("instrumentation is not transparent for %s%s/%s thread %d: %r vs %r"
                                 % (cname, group, variant, k + 1, alone[k], base[k]))
    # sequential orders: outcomes and tree afterwards
    seq_trees, history_dep = [], []
    for perm in itertools.permutations(range(n)):
        w = World(case, group, variant)
        outs = {}
        for k in perm:
            outs[k] = w.thunk(k)()
        t = w.tree()
        seq_trees.append(t)
        for k in range(n):
            if outs[k] != alone[k]:
                history_dep.append((perm, k, outs[k], alone[k]))
    return dict(case=cname, group=tuple(group), variant=variant, progs=progs, alone=alone,
                tree0=tree0, trees_alone=trees_after, seq_trees=seq_trees, history_dep=history_dep,
                labels=len(MON.labels))


# ====================================================================== replay on real threads
def replay(task):
    """task = (case name, group, variant, schedule, tail_order, opts) -> observation"""
    cname, group, variant, schedule, tail, opts = task
    setup_process()
    case = CASES[cname]
    w = World(case, group, variant)
    MON.diff = False
    MON.log_reads = bool(opts.get("paths", True))
    MON.trace_calls = _libdir() if opts.get("fn_entries") else None
    MON.active = True
    try:
        results, logs, steps = run_gated(MON, [w.thunk(k) for k in range(len(group))], schedule, tail)
    finally:
        MON.active = False
        MON.trace_calls = None
    return dict(got=results, tree1=w.tree(), tree0=w.tree0, steps=steps, stalls=getattr(MON, "last_stalls", 0),
                paths=[[e[:3] for e in lg if e[0] in "rw"] for lg in logs] if opts.get("paths", True) else None)


def replay_many(task):
    """(case, group, variant, [(tag, schedule, tail)], opts) -> [(tag, observation summary)]"""
    cname, group, variant, scheds, opts, ref = task
    out = []
    for tag, schedule, tail in scheds:
        ob = replay((cname, group, variant, schedule, tail, opts))
        summ = summarise(ob, ref)
        summ["schedule"], summ["tail"] = schedule, tail
        out.append((tag, summ))
    return out


def summarise(ob, ref):
    """Compact, picklable summary of an observation against the instance's reference data."""
    alone = ref["alone"]
    same_out = [tuple(g) == tuple(a) for g, a in zip(ob["got"], alone)]
    t1 = tree_hash(ob["tree1"])
    tree_ok = t1 == ref["tree0_hash"]
    in_seq = t1 in ref["seq_hashes"]
    path_drift = None
    if ob.get("paths") is not None and ref.get("paths") is not None:
        path_drift = [p != q for p, q in zip(ob["paths"], ref["paths"])]
    s = dict(got=[tuple(g) for g in ob["got"]], same_out=same_out, tree1=t1, tree_same=tree_ok,
             tree_in_seq=in_seq, steps=ob["steps"], path_drift=path_drift, stalls=ob.get("stalls", 0))
    if not (tree_ok or in_seq):
        s["tree_diff"] = tree_diff(ob["tree0"], ob["tree1"])
    return s


# ====================================================================== free-running threads
def free_rounds(task):
    """(case, group, variant, rounds, nthreads, seed, ref) -> list of round summaries.
    Threads start together behind a barrier with a tiny switch interval; the monitor logs the
    writes to pre-existing objects (per-thread sequence numbers, no clock)."""
    cname, group, variant, rounds, copies, seed, ref = task
    setup_process()
    case = CASES[cname]
    old = sys.getswitchinterval()
    out = []
    try:
        sys.setswitchinterval(1e-6)
        for rnd in range(rounds):
            w = World(case, group, variant)
            n = len(group)
            nthreads = n * copies
            MON.diff, MON.log_reads, MON.trace_calls = False, False, None
            MON.gate = None
            barrier = threading.Barrier(nthreads)
            results = [None] * nthreads
            logs = [[] for _ in range(nthreads)]
            errs = []

            def body(j):
                try:
                    fn = w.thunk(j % n)
                    MON.enrol(j + 1, logs[j])
                    MON.tls.busy = True
                    barrier.wait(timeout=60)
                    MON.tls.busy = False
                    try:
                        results[j] = fn()
                    finally:
                        MON.leave()
                except BaseException as exc:  # noqa
                    errs.append(exc)

            MON.active = True
            try:
                ths = [threading.Thread(target=body, args=(j,), daemon=True) for j in range(nthreads)]
                for th in ths:
                    th.start()
                for th in ths:
                    th.join(timeout=120)
                    if th.is_alive():
                        raise MachineryError("free-running thread did not terminate")
            finally:
                MON.active = False
            if errs:
                raise MachineryError("free-running thread died in the harness: %r" % (errs[0],))
            t1 = w.tree()
            h1 = tree_hash(t1)
            writes = []
            for j, lg in enumerate(logs):
                for s, e in enumerate(x for x in lg if x[0] == "w"):
                    writes.append((j + 1, s + 1, e[1], e[2] == e[3]))
            summ = dict(round=rnd, got=[tuple(r) for r in results],
                        same_out=[tuple(results[j]) == tuple(ref["alone"][j % n]) for j in range(nthreads)],
                        tree1=h1, tree_same=h1 == ref["tree0_hash"], tree_in_seq=h1 in ref["seq_hashes"],
                        writes=len(writes), nonpreserving=[wr[:3] for wr in writes if not wr[3]][:20],
                        n_nonpreserving=sum(1 for wr in writes if not wr[3]))
            if not (summ["tree_same"] or summ["tree_in_seq"]):
                summ["tree_diff"] = tree_diff(w.tree0, t1)
            out.append(summ)
    finally:
        sys.setswitchinterval(old)
    return out
