"""Document family (MC_Doc): C01 C04 C05 C10 C20 share one exploration.

Stage 1  TLC enumerates documents (BFS within the bound, then -simulate beyond it) and
         exports one JSON line per state: the document, the reference verdict sets, the
         implementation model's predictions, and the model-level verdict of each R_Cxx.
Stage 2  every exported state is replayed on the real library (16 processes) and every
         observation is compared with the prediction.
Stage 3  observations that differ from the prediction (drift) are written to a generated
         TraceData.tla and adjudicated by TLC against the REFERENCE predicates
         (Trace_Doc.tla).  Only a rejected observation is a violation.
"""
import copy
import gzip
import hashlib
import json
import os
import time

import common
from common import run_tlc, MachineryError, VERIF, SPEC, SEED
import codec
from codec import (schema_to_json, val_to_py, norm_real, norm_tagged, py_to_tla, tla_str)
import drive

CACHE = os.path.join(VERIF, ".cache")

TIERS = {
    # name: (bfs constants, simulate constants or None, simulate num, depth)
    "quick": dict(bfs=dict(MaxSize=2, MaxDepth=1, Rich="FALSE"),
                  seed=dict(MaxSize=30, MaxDepth=2, Rich="FALSE"), seed_levels=1,
                  sim=dict(MaxSize=6, MaxDepth=2, Rich="TRUE"), sim_num=1, sim_workers=8, sim_depth=7),
    "thorough": dict(bfs=dict(MaxSize=3, MaxDepth=2, Rich="FALSE"),
                     seed=dict(MaxSize=30, MaxDepth=2, Rich="TRUE"), seed_levels=1,
                     sim=dict(MaxSize=8, MaxDepth=3, Rich="TRUE"), sim_num=12, sim_workers=16, sim_depth=9),
}


def _cfg(consts, uns, spec="Spec", seed_levels=0):
    lines = ["CONSTANTS", f" SeedLevels = {seed_levels}"]
    for k, v in consts.items():
        lines.append(f" {k} = {v}")
    lines.append(f" WithUnsupported = {'TRUE' if uns else 'FALSE'}")
    lines += ["SPECIFICATION " + spec, "INVARIANT Inv", "CHECK_DEADLOCK FALSE"]
    return "\n".join(lines) + "\n"


def _closure(module, seen=None):
    """Transitive EXTENDS/INSTANCE closure of a spec module (files present in spec/ only)."""
    import re
    seen = seen if seen is not None else set()
    path = os.path.join(SPEC, module + ".tla")
    if module in seen or not os.path.exists(path):
        return seen
    seen.add(module)
    text = open(path).read()
    for m in re.finditer(r"^\s*(?:EXTENDS|INSTANCE)\s+([^\n]+)", text, re.M):
        for name in re.split(r"[,\s]+", m.group(1).strip()):
            if name and name != "WITH":
                _closure(name, seen)
    return seen


def _spec_hash(module="MC_Doc"):
    h = hashlib.sha1()
    for name in sorted(_closure(module)):
        h.update(name.encode())
        h.update(open(os.path.join(SPEC, name + ".tla"), "rb").read())
    return h


def _cached_tlc(tag, cfg, module="MC_Doc", keep=None, project=None, **kw):
    """TLC's enumeration does not depend on the repository: cache exports by spec+cfg hash.
    Lines are streamed to the cache file; `keep(obj)` (optional) decides which exported states
    are retained for replay (TLC still evaluates its invariants on every state)."""
    h = _spec_hash(module)
    h.update(cfg.encode())
    h.update(json.dumps(kw, sort_keys=True).encode())
    h.update((keep.__name__ if keep else "").encode())
    key = h.hexdigest()[:20]
    path = os.path.join(CACHE, f"{tag}-{key}.jsonl.gz")
    if os.path.exists(path) and not os.environ.get("VERIF_NOCACHE"):
        with gzip.open(path, "rt") as fh:
            meta = json.loads(fh.readline())
            lines = [project(json.loads(l)) if project else json.loads(l) for l in fh]
        meta["cached"] = True
        return lines, meta
    os.makedirs(CACHE, exist_ok=True)
    tmp = path + ".tmp%d" % os.getpid()
    kept = []
    counts = {"exported": 0}
    with gzip.open(tmp + ".body", "wt") as fh:
        def sink(obj):
            counts["exported"] += 1
            if keep is None or keep(obj):
                fh.write(json.dumps(obj) + "\n")
                kept.append(project(obj) if project else obj)
        res = run_tlc(module, cfg, coverage=False, line_sink=sink, **kw)
    if not res.ok:
        os.unlink(tmp + ".body")
        raise MachineryError(f"TLC failed on {module}:\n" + res.raw_tail[-3000:])
    meta = dict(states=res.states, distinct=res.distinct, depth=res.depth, wall=res.wall,
                exported=counts["exported"], kept=len(kept), cached=False)
    with gzip.open(tmp, "wt") as out, gzip.open(tmp + ".body", "rt") as body:
        out.write(json.dumps(meta) + "\n")
        for l in body:
            out.write(l)
    os.unlink(tmp + ".body")
    os.replace(tmp, path)
    return kept, meta


def keep_seed_sampled(obj):
    if any(obj.get(k) for k in ("m01", "m04", "m05", "m05w", "m05np", "m10", "m20")):
        return True
    return int(hashlib.sha1(json.dumps(obj["doc"], sort_keys=True).encode()).hexdigest()[:8], 16) % 4 == 0


def keep_flagged_or_sampled(obj):
    """thorough tier: every state the MODEL flags, every state within the quick bound, and a
    deterministic 1-in-8 sample of the rest are replayed (TLC has checked all of them)."""
    if obj.get("size", 0) <= 2:
        return True
    if any(obj.get(k) for k in ("m01", "m04", "m05", "m05w", "m05np", "m10", "m20")):
        return True
    return int(hashlib.sha1(json.dumps(obj["doc"], sort_keys=True).encode()).hexdigest()[:8], 16) % 8 == 0


NEEDED = {
    "C01": ("doc", "size", "depth", "parse", "uns", "allowed", "calls", "m01"),
    "C04": ("doc", "size", "depth", "parse", "uns", "calls", "m04"),
    "C05": ("doc", "size", "depth", "parse", "uns", "calls", "np", "dobs", "dconv", "edef", "m05", "m05w", "m05np"),
    "C10": ("doc", "size", "depth", "parse", "uns", "calls", "np", "m10"),
    "C20": ("doc", "size", "depth", "parse", "uns", "strip", "stripParse", "m20"),
    "ser": ("doc", "size", "depth", "parse", "uns", "elem", "names", "allowed"),
    "doc": ("doc", "size", "depth", "parse", "uns"),
}


def _projector(pid):
    keys = NEEDED.get(pid)
    if not keys:
        return None
    kinds_only = pid in ("C01", "C10")

    def proj(obj):
        out = {k: obj[k] for k in keys if k in obj}
        if kinds_only and "calls" in out:
            out["calls"] = [{"kind": c["kind"], "out": {"k": "np"}} for c in out["calls"]]
        return out
    return proj


def stage1(tier, uns=False, pid=None):
    """pid: keep in memory only the exported fields that property's check reads"""
    t = TIERS[tier]
    _proj = _projector(pid)
    states, meta = _cached_tlc("doc-bfs", _cfg(t["bfs"], uns), project=_proj,
                               keep=keep_flagged_or_sampled if tier == "thorough" else None)
    info = dict(bfs=dict(consts=t["bfs"], **meta))
    seen = set()
    out = []
    for s in states:
        key = json.dumps(s["doc"], sort_keys=True)
        if key not in seen:
            seen.add(key)
            s["src"] = "bfs"
            out.append(s)
    if t.get("seed"):
        seed_states, smeta = _cached_tlc(
            "doc-seed", _cfg(t["seed"], uns, "SeedSpec", t["seed_levels"]), project=_proj,
            keep=keep_seed_sampled if tier == "thorough" else None)
        n0 = len(out)
        for s in seed_states:
            key = json.dumps(s["doc"], sort_keys=True)
            if key not in seen:
                seen.add(key)
                s["src"] = "seed"
                out.append(s)
        info["seed"] = dict(consts=t["seed"], levels=t["seed_levels"], new_states=len(out) - n0,
                            **smeta)
    if t.get("sim"):
        sim_states, smeta = _cached_tlc(
            "doc-sim", _cfg(t["sim"], uns, "SimSpec"), simulate=f"num={t['sim_num']}",
            depth=t["sim_depth"], seed=SEED + 1, workers=t["sim_workers"], project=_proj,
            keep=keep_seed_sampled if tier == "thorough" else None)
        n0 = len(out)
        for s in sim_states:
            key = json.dumps(s["doc"], sort_keys=True)
            if key not in seen:
                seen.add(key)
                s["src"] = "sim"
                out.append(s)
        info["sim"] = dict(consts=t["sim"], num=t["sim_num"] * t["sim_workers"], sim_depth=t["sim_depth"],
                           new_states=len(out) - n0, **smeta)
    return out, info


# ------------------------------------------------------------------ stage 2 (worker side)
_VALUES = None


def values():
    global _VALUES
    if _VALUES is None:
        mod = ("---- MODULE MC_Values ----\nEXTENDS Universe, Json, TLC\nVARIABLE x\n"
               "Init == x = 0\nNext == UNCHANGED x\nSpec == Init /\\ [][Next]_x\n"
               "Inv == PrintT(ToJson(Values))\n====\n")
        path = os.path.join(CACHE, "values-%s.json" % _spec_hash("Universe").hexdigest()[:16])
        if os.path.exists(path):
            tagged = json.load(open(path))
        else:
            r = run_tlc("MC_Values", "SPECIFICATION Spec\nINVARIANT Inv\nCHECK_DEADLOCK FALSE\n",
                        extra_modules={"MC_Values": mod}, workers=1, coverage=False)
            if not r.lines:
                raise MachineryError("could not read the value universe:\n" + r.raw_tail)
            tagged = r.lines[0]
            os.makedirs(CACHE, exist_ok=True)
            json.dump(tagged, open(path, "w"))
        _VALUES = (tagged, [val_to_py(v) for v in tagged])
    return _VALUES


def _mutate(r, depth=0, skip=frozenset()):
    """Aliasing probe: deface a returned result in place (append to lists, add members).
    A later call must not see any of it."""
    from statham.schema.elements import Object
    done = False
    if depth > 6 or id(r) in skip:
        return False     # raw defaults are returned as-is by design: not ours to deface
    if isinstance(r, list):
        for x in list(r):
            done = _mutate(x, depth + 1, skip) or done
        r.append("__mutated__")
        return True
    if isinstance(r, Object):
        for x in list(r._dict.values()):
            done = _mutate(x, depth + 1, skip) or done
        r._dict["__mutated__"] = 1
        return True
    if isinstance(r, dict):
        for x in list(r.values()):
            done = _mutate(x, depth + 1, skip) or done
        r["__mutated__"] = 1
        return True
    return done


def _instance_probe(r, v, proj):
    """model instances: passing an instance to its own class returns it; an instance equals a
    second instance built from the same data and differs from one built from other data"""
    from statham.schema.elements import Object
    if not isinstance(r, Object):
        return proj
    cls = type(r)
    bad = []
    import warnings
    try:
        with warnings.catch_warnings():
            warnings.simplefilter("ignore")
            if cls(r) is not r:
                bad.append("__instance_not_returned__")
            twin = cls(copy.deepcopy(v))
            if not (twin == r and r == twin) or (twin != r):
                bad.append("__equal_data_unequal_instances__")
    except Exception:  # noqa
        bad.append("__instance_probe_raises__")
    for b in bad:
        proj.members.append((b, True))
    return proj


def _obs_call(el, v, probe=True, skip=frozenset()):
    k, r = drive.call(el, v)
    if k == "ok":
        try:
            p1 = drive.project(r)
            p1 = _instance_probe(r, v, p1)
        except Exception as exc:  # projection failure = unknown result shape
            return {"kind": "other:unprojectable", "out": None, "msg": repr(exc)[:200]}
        if probe and _mutate(r, 0, skip):
            k2, r2 = drive.call(el, v)
            try:
                p2 = drive.project(r2) if k2 == "ok" else None
                stable = k2 == "ok" and norm_real(p2) == norm_real(p1)
            except Exception:
                p2, stable = None, False
            if not stable:
                # report what the second call returned: it carries the leaked mutation
                if k2 == "ok" and p2 is not None:
                    return {"kind": "ok", "out": p2, "unstable": True}
                return {"kind": "other:unstable-" + k2, "out": None, "unstable": True}
        return {"kind": "ok", "out": p1}
    return {"kind": k, "out": None, "msg": str(r)[:160]}


def replay_state(state):
    """Drive the real library through one exported state; return its observations."""
    from statham.schema.constants import NotPassed
    _, pyvals = values()
    sj = schema_to_json(state["doc"])
    obs = {"parse": None, "calls": [], "np": None, "dobs": [], "dconv": None, "strip": None}
    kind, el = drive.parse_labelled(sj)
    obs["parse"] = kind
    if kind != "ok":
        obs["parse_msg"] = str(el)[:200]
    if state.get("uns"):
        k2, _ = drive.parse_labelled(schema_to_json(state["strip"]))
        obs["strip"] = k2
    if kind != "ok":
        return obs
    skip = drive.default_ids(el)
    for v in pyvals:
        obs["calls"].append(_obs_call(el, v, skip=skip))
    obs["np"] = _obs_call(el, NotPassed(), skip=skip)
    # a model class is also used through a subclass that adds nothing: the same document
    # describes it, so its results answer to the same reference predicates
    from statham.schema.elements.meta import ObjectMeta
    if isinstance(el, ObjectMeta):
        try:
            ns = {"Parent": el}
            exec("class Child(Parent):\n    pass\n", ns)  # noqa: S102
            child = ns["Child"]
            obs["sub_calls"] = [_obs_call(child, v, skip=drive.default_ids(child)) for v in pyvals]
        except Exception as exc:  # noqa
            obs["sub_err"] = type(exc).__name__ + ": " + str(exc)[:120]
    # the same declarations entered through properties.update(...) (the mapping is filled
    # without __setitem__; binding happens when the element is next used): same document
    if state.get("dobs"):
        try:
            from statham.schema.property import Property
            k4, el2 = drive.parse_labelled(sj)
            items = list(el2.properties.items())
            for attr, _p in items:
                del el2.properties[attr]
            el2.properties.update({attr: Property(p_.element, required=p_.required, source=p_.source)
                                   for attr, p_ in items})
            obs["upd_calls"] = [_obs_call(el2, v, skip=drive.default_ids(el2)) for v in pyvals]
        except Exception as exc:  # noqa
            obs["upd_err"] = type(exc).__name__ + ": " + str(exc)[:120]
    # the element used (all the calls above), then `additionalProperties` reassigned: later results
    # answer to the document with that keyword replaced (seed documents only: every accepted value
    # is adjudicated, there is no prediction for the changed document)
    if state.get("src") == "seed" and isinstance(sj, dict) and ("properties" in sj or sj.get("type") == "object") \
            and not any(k in sj for k in ("anyOf", "oneOf", "allOf", "not")) and not isinstance(sj.get("type"), list) \
            and sj.get("type", "object") == "object" and hasattr(el, "additionalProperties") \
            and set(sj.get("required", [])) <= set(sj.get("properties", {})):     # (undeclared required names get their element at parse time)
        try:
            from statham.schema.parser import parse_element
            saved = el.additionalProperties
            el.additionalProperties = parse_element({"type": "number"})
            try:
                obs["reconf_doc"] = dict(sj, additionalProperties={"type": "number"})
                obs["reconf_calls"] = [_obs_call(el, v, probe=False) for v in pyvals]
            finally:
                el.additionalProperties = saved
        except Exception as exc:  # noqa
            obs["reconf_err"] = type(exc).__name__ + ": " + str(exc)[:120]
    # the element used, then a REQUIRED property without a default is given one in place
    # (prop.element.default = d): omitted values must now be filled (the requirement is waived),
    # as the document with that default says (seed documents, plain object hosts)
    if state.get("src") == "seed" and isinstance(sj, dict) and isinstance(sj.get("properties"), dict) \
            and not any(k in sj for k in ("anyOf", "oneOf", "allOf", "not")) \
            and not isinstance(sj.get("type"), list) and sj.get("type", "object") == "object":
        try:
            DEF = {"string": "d", "integer": 7, "number": 1.5, "boolean": True, "null": None}
            pick = next((n for n, ps in sj["properties"].items()
                         if n in sj.get("required", []) and isinstance(ps, dict) and "default" not in ps
                         and ps.get("type") in DEF and set(ps) <= {"type"}), None)
            if pick is not None and hasattr(el, "properties"):
                attr = next(a for a, p_ in el.properties.items() if p_.source == pick)
                pe = el.properties[attr].element
                pe.default = DEF[sj["properties"][pick]["type"]]
                try:
                    d2 = copy.deepcopy(sj)
                    d2["properties"][pick]["default"] = DEF[sj["properties"][pick]["type"]]
                    obs["later_default_doc"] = d2
                    obs["later_default_src"] = pick
                    obs["later_default_calls"] = [_obs_call(el, v, probe=False) for v in pyvals]
                    dobs2 = []
                    for src2, ps2 in d2["properties"].items():      # every defaulted property, document order
                        if isinstance(ps2, dict) and "default" in ps2:
                            k6, pel = drive.parse_labelled(ps2)
                            dobs2.append((src2, _obs_call(pel, ps2["default"], probe=False) if k6 == "ok"
                                          else {"kind": "parse:" + k6, "out": None}))
                    obs["later_default_dobs"] = dobs2
                finally:
                    from statham.schema.constants import NotPassed as _NP
                    pe.default = _NP()
        except Exception as exc:  # noqa
            obs["later_default_err"] = type(exc).__name__ + ": " + str(exc)[:120]
    # the same (labelled) document dictionary parsed a second time, as happens to a sub-document
    # that several references share: the second parse must describe the same schema
    if state.get("dobs") or (isinstance(sj, dict) and "default" in json.dumps(sj)):
        try:
            from statham.schema.parser import parse_element
            shared = drive.label(copy.deepcopy(sj)) if isinstance(sj, dict) else sj
            parse_element(shared)
            el3 = parse_element(shared)
            obs["again_calls"] = [_obs_call(el3, v, skip=drive.default_ids(el3)) for v in pyvals]
            obs["again_np"] = _obs_call(el3, NotPassed(), skip=drive.default_ids(el3))
        except Exception as exc:  # noqa
            obs["again_err"] = type(exc).__name__ + ": " + str(exc)[:120]
    edef = getattr(el, "default", NotPassed())
    if isinstance(edef, NotPassed):
        obs["edef"] = codec.NotPassedMarker()
    else:
        obs["edef"] = copy.deepcopy(edef)
        obs["dconv"] = _obs_call(el, copy.deepcopy(edef), skip=skip)
    for src, _pred in state.get("dobs", []):
        ps = sj["properties"][src]
        k3, pel = drive.parse_labelled(ps)
        if k3 != "ok":
            obs["dobs"].append((src, {"kind": "parse:" + k3, "out": None}))
        else:
            obs["dobs"].append((src, _obs_call(pel, ps["default"], skip=drive.default_ids(pel))))
    return obs


def same_call(o, p):
    """real observation o vs model prediction p (tagged)"""
    if o["kind"] != p["kind"]:
        return False
    if o["kind"] != "ok":
        return True
    return norm_real(o["out"]) == norm_tagged(p["out"])


# ------------------------------------------------------------------ stage 3
def tlajson_to_tla(x):
    """Generic: ToJson output (records->objects, sequences->arrays) back to a TLA+ literal."""
    if isinstance(x, bool):
        return "TRUE" if x else "FALSE"
    if isinstance(x, int):
        return str(x)
    if isinstance(x, str):
        return tla_str(x)
    if isinstance(x, list):
        return "<<" + ", ".join(tlajson_to_tla(y) for y in x) + ">>"
    if isinstance(x, dict):
        plain = [(k, v) for k, v in x.items() if k.isidentifier() and k not in _TLA_KW]
        odd = [(k, v) for k, v in x.items() if not (k.isidentifier() and k not in _TLA_KW)]
        rec = "[" + ", ".join(f"{k} |-> {tlajson_to_tla(v)}" for k, v in plain) + "]" if plain else None
        parts = ([rec] if rec else []) + ["(%s :> %s)" % (tla_str(k), tlajson_to_tla(v)) for k, v in odd]
        if not parts:
            return "[x \\in {} |-> TRUE]"
        return "(" + " @@ ".join(parts) + ")" if len(parts) > 1 else parts[0]
    raise ValueError(type(x))


_TLA_KW = {"if", "then", "else", "not", "in", "let", "case", "other", "choose", "except",
           "domain", "subset", "union", "enabled", "unchanged", "with", "extends", "instance",
           "local", "module", "variable", "variables", "constant", "constants", "assume",
           "theorem", "lambda", "recursive"}


def obs_to_tla(o):
    if o["kind"] == "ok":
        return '[kind |-> "ok", out |-> %s]' % py_to_tla(o["out"])
    return '[kind |-> %s, out |-> [k |-> "np"]]' % tla_str(o["kind"])


def _adjudicate_chunk(part):
    data = ("---- MODULE TraceData ----\nEXTENDS Integers, Sequences, TLC\nEvents == <<\n"
            + ",\n".join(t for _, t in part) + "\n>>\n====\n")
    cfg = ("SPECIFICATION Spec\nINVARIANT Inv\nPOSTCONDITION Consumed\nCHECK_DEADLOCK FALSE\n")
    res = run_tlc("Trace_Doc", cfg, extra_modules={"TraceData": data}, workers=1, coverage=False)
    if not res.ok:
        raise MachineryError("trace validation run failed (trace not consumed or TLC error):\n"
                             + res.raw_tail[-2500:])
    return {l["reject"]: l.get("clause", "") for l in res.lines}, res.distinct


def adjudicate(events, chunk=None, parallel=8):
    """events: list of (id, tla_record_text).  Returns ({rejected id: failing clause}, stats).
    Chunks are independent traces; they are validated by several TLC processes at once."""
    from concurrent.futures import ThreadPoolExecutor
    if chunk is None:
        chunk = max(50, min(800, (len(events) + parallel - 1) // parallel))
    rejected = {}
    total_states = 0
    t0 = time.time()
    parts = [events[c:c + chunk] for c in range(0, len(events), chunk)]
    with ThreadPoolExecutor(max_workers=parallel) as ex:
        for rej, n in ex.map(_adjudicate_chunk, parts):
            rejected.update(rej)
            total_states += n
    return rejected, dict(events=len(events), tlc_states=total_states, chunks=len(parts),
                          wall=round(time.time() - t0, 2))
