"""Typed codec between the TLA+ encodings (as printed by ToJson) and Python objects.

TLA side (see spec/JsonValue.tla, spec/Draft6.tla):
  value   : {"k": "null"|"bool"|"num"|"str"|"arr"|"obj"|"np"|"model"|"anon", ...}
  schema  : {"sch": true, kw: arg, ...} | {"bs": bool}
"""
import math
from fractions import Fraction

SINGLE = ("items", "additionalItems", "contains", "additionalProperties", "propertyNames", "not",
          "if", "then", "else", "unevaluatedItems", "unevaluatedProperties")
SEQ = ("anyOf", "oneOf", "allOf")
PAIR = ("properties", "patternProperties", "definitions", "$defs")
NUMKW = ("minimum", "maximum", "exclusiveMinimum", "exclusiveMaximum", "multipleOf")
LITKW = ("const", "default")


class NotPassedMarker:
    def __repr__(self):
        return "NP"


# ---------------------------------------------------------------- values: TLA -> python
def val_to_py(t):
    k = t["k"]
    if k == "null":
        return None
    if k == "bool":
        return bool(t["v"])
    if k == "num":
        if t["f"]:
            return t["n"] / t["d"]
        if t["d"] != 1:
            raise ValueError("non-integral python int")
        return int(t["n"])
    if k == "str":
        return t["v"]
    if k == "arr":
        return [val_to_py(x) for x in t["v"]]
    if k == "obj":
        return {kv[0]: val_to_py(kv[1]) for kv in t["v"]}
    raise ValueError(f"not a JSON value: {t}")


# ---------------------------------------------------------------- schema: TLA -> JSON schema
def schema_to_json(s):
    if "bs" in s:
        return bool(s["bs"])
    out = {}
    deps = {}
    for kw, a in s.items():
        if kw == "sch":
            continue
        if kw == "types":
            out["type"] = list(a)
        elif kw in LITKW:
            out[kw] = val_to_py(a)
        elif kw == "enum":
            out[kw] = [val_to_py(x) for x in a]
        elif kw in NUMKW:
            out[kw] = val_to_py(a)
        elif kw in SINGLE:
            out[kw] = schema_to_json(a)
        elif kw == "itemsT":
            out["items"] = [schema_to_json(x) for x in a]
        elif kw in SEQ:
            out[kw] = [schema_to_json(x) for x in a]
        elif kw in PAIR:
            out[kw] = {p[0]: schema_to_json(p[1]) for p in a}
        elif kw == "depsL":
            for p in a:
                deps[p[0]] = list(p[1])
        elif kw == "depsS":
            for p in a:
                deps[p[0]] = schema_to_json(p[1])
        elif kw == "required":
            out[kw] = list(a)
        elif kw == "ref":
            out["$ref"] = "#/definitions/" + a
        else:
            out[kw] = a
    if deps:
        out["dependencies"] = deps
    return out


# ---------------------------------------------------------------- python -> TLA literal text
def tla_str(s):
    if any(ord(c) < 32 or ord(c) > 126 for c in s):
        raise ValueError("string outside the TLA-printable vocabulary")
    return '"' + s.replace("\\", "\\\\").replace('"', '\\"') + '"'


def _frac_parts(x):
    fr = Fraction(x)
    return fr.numerator, fr.denominator


def py_to_tla(v):
    """Python JSON value (or projected result) -> TLA+ literal text of the tagged value."""
    if isinstance(v, NotPassedMarker):
        return '[k |-> "np"]'
    if v is None:
        return '[k |-> "null"]'
    if isinstance(v, bool):
        return '[k |-> "bool", v |-> %s]' % ("TRUE" if v else "FALSE")
    if isinstance(v, int):
        if abs(v) >= 2 ** 31:
            raise ValueError("int outside TLC range")
        return '[k |-> "num", n |-> %d, d |-> 1, f |-> FALSE]' % v
    if isinstance(v, float):
        if math.isnan(v) or math.isinf(v):
            raise ValueError("non-finite float")
        n, d = _frac_parts(v)
        if abs(n) >= 2 ** 31 or d >= 2 ** 31:
            raise ValueError("float outside TLC range")
        return '[k |-> "num", n |-> %d, d |-> %d, f |-> TRUE]' % (n, d)
    if isinstance(v, str):
        return '[k |-> "str", v |-> %s]' % tla_str(v)
    if isinstance(v, Model):
        return '[k |-> "model", cls |-> %s, v |-> %s]' % (tla_str(v.cls), _pairs(v.members))
    if isinstance(v, Anon):
        return '[k |-> "anon", v |-> %s]' % _pairs(v.members)
    if isinstance(v, (list, tuple)):
        return '[k |-> "arr", v |-> <<%s>>]' % ", ".join(py_to_tla(x) for x in v)
    if isinstance(v, dict):
        return '[k |-> "obj", v |-> %s]' % _pairs(list(v.items()))
    raise ValueError(f"cannot encode {type(v)}")


def py_to_tagged(v):
    """Python JSON value / projected result -> tagged dict form (as ToJson prints it)."""
    if isinstance(v, NotPassedMarker):
        return {"k": "np"}
    if v is None:
        return {"k": "null"}
    if isinstance(v, bool):
        return {"k": "bool", "v": v}
    if isinstance(v, int):
        if abs(v) >= 2 ** 31:
            raise ValueError("int outside TLC range")
        return {"k": "num", "n": v, "d": 1, "f": False}
    if isinstance(v, float):
        if math.isnan(v) or math.isinf(v):
            raise ValueError("non-finite float")
        n, d = _frac_parts(v)
        if abs(n) >= 2 ** 31 or d >= 2 ** 31:
            raise ValueError("float outside TLC range")
        return {"k": "num", "n": n, "d": d, "f": True}
    if isinstance(v, str):
        tla_str(v)
        return {"k": "str", "v": v}
    if isinstance(v, Model):
        return {"k": "model", "cls": v.cls, "v": [[k, py_to_tagged(x)] for k, x in v.members]}
    if isinstance(v, Anon):
        return {"k": "anon", "v": [[k, py_to_tagged(x)] for k, x in v.members]}
    if isinstance(v, (list, tuple)):
        return {"k": "arr", "v": [py_to_tagged(x) for x in v]}
    if isinstance(v, dict):
        for k in v:
            if not isinstance(k, str):
                raise ValueError("non-string key")
            tla_str(k)
        return {"k": "obj", "v": [[k, py_to_tagged(x)] for k, x in v.items()]}
    raise ValueError(f"cannot encode {type(v).__name__}")


def _pairs(items):
    return "<<" + ", ".join("<<%s, %s>>" % (tla_str(k), py_to_tla(x)) for k, x in items) + ">>"


def tla_seq(texts):
    return "<<" + ", ".join(texts) + ">>"


def tla_strseq(strings):
    return "<<" + ", ".join(tla_str(s) for s in strings) + ">>"


class Model:
    """Projection of an instance of an Object class."""

    def __init__(self, cls, members):
        self.cls, self.members = cls, members


class Anon:
    """Projection of an _AnonymousObject (result of an untyped element on a dict)."""

    def __init__(self, members):
        self.members = members


# ---------------------------------------------------------------- JSON schema -> TLA literal
def json_to_tla_schema(j):
    """Real JSON schema (python) -> TLA literal of the schema record.  Raises ValueError when
    the document leaves the modelled vocabulary."""
    if isinstance(j, bool):
        return "[bs |-> %s]" % ("TRUE" if j else "FALSE")
    if not isinstance(j, dict):
        raise ValueError("schema must be bool or dict")
    f = ["sch |-> TRUE"]

    def fld(name, text):
        if name.isidentifier() and name not in ("if", "then", "else", "not"):
            f.append(f"{name} |-> {text}")
        else:
            raise ValueError("field needs function syntax: " + name)

    extra = []  # (name, text) for names that are not TLA identifiers
    for kw, a in j.items():
        if kw == "_x_autotitle":
            continue
        if kw == "type":
            if isinstance(a, list):
                fld("types", tla_strseq(a))
            else:
                fld("type", tla_str(a))
        elif kw in LITKW:
            fld(kw, py_to_tla(a))
        elif kw == "enum":
            fld(kw, tla_seq([py_to_tla(x) for x in a]))
        elif kw in NUMKW:
            fld(kw, py_to_tla(a))
        elif kw in ("minLength", "maxLength", "minItems", "maxItems", "minProperties", "maxProperties"):
            if not isinstance(a, int) or isinstance(a, bool):
                raise ValueError("non-int size keyword")
            fld(kw, str(a))
        elif kw in ("pattern", "format", "description", "title"):
            fld(kw, tla_str(a))
        elif kw == "uniqueItems":
            fld(kw, "TRUE" if a else "FALSE")
        elif kw == "items" and isinstance(a, list):
            fld("itemsT", tla_seq([json_to_tla_schema(x) for x in a]))
        elif kw == "not":
            extra.append(("not", json_to_tla_schema(a)))
        elif kw in ("items", "additionalItems", "contains", "additionalProperties", "propertyNames"):
            fld(kw, json_to_tla_schema(a))
        elif kw in SEQ:
            fld(kw, tla_seq([json_to_tla_schema(x) for x in a]))
        elif kw in ("properties", "patternProperties", "definitions"):
            fld(kw, tla_seq(["<<%s, %s>>" % (tla_str(k), json_to_tla_schema(x)) for k, x in a.items()]))
        elif kw == "required":
            fld(kw, tla_strseq(a))
        elif kw == "dependencies":
            dl = [(k, x) for k, x in a.items() if isinstance(x, list)]
            ds = [(k, x) for k, x in a.items() if not isinstance(x, list)]
            if dl:
                fld("depsL", tla_seq(["<<%s, %s>>" % (tla_str(k), tla_strseq(x)) for k, x in dl]))
            if ds:
                fld("depsS", tla_seq(["<<%s, %s>>" % (tla_str(k), json_to_tla_schema(x)) for k, x in ds]))
        elif kw == "$ref":
            if not a.startswith("#/definitions/"):
                raise ValueError("ref outside #/definitions")
            fld("ref", tla_str(a[len("#/definitions/"):]))
        else:
            raise ValueError("keyword outside vocabulary: " + kw)
    rec = "[" + ", ".join(f) + "]"
    for name, text in extra:
        rec = "(%s @@ (%s :> %s))" % (rec, tla_str(name), text)
    return rec


# ---------------------------------------------------------------- normal forms for comparison
def norm_tagged(t):
    """Tagged value/result (TLA export) -> hashable normal form (member order ignored,
    class names ignored)."""
    k = t["k"]
    if k in ("null", "np"):
        return (k,)
    if k == "bool":
        return ("bool", bool(t["v"]))
    if k == "num":
        return ("num", Fraction(t["n"], t["d"]), bool(t["f"]))
    if k == "str":
        return ("str", t["v"])
    if k == "arr":
        return ("arr", tuple(norm_tagged(x) for x in t["v"]))
    if k in ("obj", "anon", "model"):
        return (k, tuple(sorted((p[0], norm_tagged(p[1])) for p in t["v"])))
    raise ValueError(k)


def norm_real(v):
    """Projected real result -> the same normal form."""
    if isinstance(v, NotPassedMarker):
        return ("np",)
    if v is None:
        return ("null",)
    if isinstance(v, bool):
        return ("bool", v)
    if isinstance(v, int):
        return ("num", Fraction(v), False)
    if isinstance(v, float):
        return ("num", Fraction(v), True)
    if isinstance(v, str):
        return ("str", v)
    # member names are strings on the unchanged tree; a changed tree may produce other keys
    # (e.g. None for a property that was never bound): they must still give a normal form
    skey = lambda kv: (str(type(kv[0]).__name__), str(kv[0]))     # noqa: E731
    if isinstance(v, Model):
        return ("model", tuple(sorted(((k, norm_real(x)) for k, x in v.members), key=skey)))
    if isinstance(v, Anon):
        return ("anon", tuple(sorted(((k, norm_real(x)) for k, x in v.members), key=skey)))
    if isinstance(v, (list, tuple)):
        return ("arr", tuple(norm_real(x) for x in v))
    if isinstance(v, dict):
        return ("obj", tuple(sorted(((k, norm_real(x)) for k, x in v.items()), key=skey)))
    raise ValueError(type(v))
