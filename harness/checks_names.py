"""Check of the name family: C12 (see namesfamily.py for the pipeline).

Violation keys (root causes):
  ("attr", "not-identifier", <classes of the characters that break the identifier>)
  ("attr", "keyword"|"reserved", <the attribute name>)       ("attr", "source-lost", ..)
  ("attr", "exception"|"parse-error", <exception type>)
  ("collision", "<derivation>~<derivation>")   two different sibling names, one attribute; the two
                                               derivations of the shared output character
  ("collision", "unpredicted", "<class seq> | <class seq>")  a real collision the model lacks
  ("siblings", <what>, "<class seq> | ...")    properties/required lost in another way
  ("generated", "siblings", "<class seq> | ...")  lost only in the generated module
  ("class-name", "empty"|"not-identifier"|"keyword"|"shadows"|"duplicate", <class name>)
"""
import json
import time
from collections import Counter, defaultdict

import common
from common import MachineryError
import drive
import namesfamily as nf
from namesfamily import flat_name, class_seq, nfkc
from report import Reporter

MAX_EVENTS = 6000
MAX_UNPREDICTED = 300


def _sigkeys(sig):
    return sorted({"~".join(sorted(pr)) if len(pr) == 2 else pr[0] + "~" + pr[0] for pr in sig})


def _norm_attr(a):
    """attribute names as the compiler sees them in a class body called T: NFKC-normalised,
    and `__x` (not ending in `__`) mangled to `_T__x`; compare modulo both"""
    a = nfkc(a)
    if a.startswith("_T__") and not a.endswith("__"):
        a = a[2:]
    return a


def _norm_props(props):
    return sorted((_norm_attr(a), s, bool(r)) for a, s, r in props)


def _gen_reason(parsed_attr, gen_attr):
    if gen_attr == parsed_attr:
        return "same-name"
    if gen_attr == "_T" + parsed_attr:
        return "private-name-mangling"
    if gen_attr == nfkc(parsed_attr):
        return "nfkc-normalisation"
    return "other"


def run(pid, tier, replay_file=None):
    t0 = time.time()
    rep = Reporter(pid, tier)

    def viol(key, msg, payload, n=1):
        """count an occurrence; message and payload are built for the first one only"""
        g = rep.groups.get(key)
        if g is None:
            rep.violation(key, msg(), payload())
            g = rep.groups[key]
            n -= 1
        g["count"] += n

    by, meta = nf.stage1("quick" if replay_file and tier not in nf.TIERS else tier)
    table = nf.set_table(by["table"][0])
    if replay_file:
        payload = json.load(open(replay_file))
        by = {"name": [], "sib": [], "title": [], "doc": [], "table": by["table"]}
        for st in payload.get("states", []):
            by[st["t"]].append(st)
        extra_names = payload.get("names", [])
    else:
        extra_names = None
    common.use_repo()
    table.validate()
    T = nf.TIERS[tier]

    names, sibs, titles, docs = by["name"], by["sib"], by["title"], by["doc"]
    if not replay_file and any(not s["xcheck"] for s in names):
        bad = next(s for s in names if not s["xcheck"])
        raise MachineryError("NameClasses.AttrNameC and Names.AttrName disagree on "
                             + flat_name(bad["name"]))

    # ------------------------------------------------------------ stage 2: replay
    name_obs = drive.pmap(nf.replay_name, names, chunksize=64)
    sib_obs = drive.pmap(nf.replay_sib, sibs, chunksize=64)
    title_obs = drive.pmap(nf.replay_title, titles, chunksize=64)
    doc_obs = drive.pmap(nf.replay_doc, docs, chunksize=64)

    events = []          # (id, text)
    ev_info = {}         # id -> dict(kind, ...)
    drift = Counter()
    checked = Counter()
    nontrivial = Counter()
    kinds_seen = set()
    skipped_events = 0

    def add_event(text, **info):
        nonlocal skipped_events
        eid = len(ev_info) + 1
        ev_info[eid] = info
        if len(events) < MAX_EVENTS:
            events.append((eid, text))
        else:
            skipped_events += 1
        return eid

    def attr_key(clause, attr):
        if clause == "not-identifier":
            cs = table.classes(attr)
            bad = sorted({c for c in cs if not table.attr[c]["xc"]})
            if not bad and cs and not table.attr[cs[0]]["xs"]:
                bad = ["start:" + cs[0]]
            return ("attr", clause, "+".join(bad) if attr else "empty")
        if clause in ("keyword", "reserved"):
            return ("attr", clause, attr)
        return ("attr", clause, "")

    # ---------------- names: function level, parser level, generated code
    for si, (st, obs) in enumerate(zip(names, name_obs)):
        for it in st["out"]:
            kinds_seen.add(it["k"])
        for mi, r in enumerate(obs):
            checked["name"] += 1
            s = r["s"]
            if r["real"] is None:
                rep.violation(("attr", "exception", r["err"].split(":")[0]),
                              f"_parse_attribute_name({s!r}) raised {r['err']}",
                              dict(kind="name", states=[st], map=mi))
                continue
            if r["props"] is None:
                rep.violation(("attr", "parse-error", r["err"].split(":")[1].strip() if ":" in r["err"] else r["err"]),
                              f"object schema with property {s!r} cannot be parsed: {r['err']}",
                              dict(kind="name", states=[st], map=mi))
                continue
            want_props = [(r["exp"], s, False)]
            same = (r["real"] == r["exp"] and r["props"] == want_props
                    and (r["gen"] is None or _norm_props(r["gen"]) == _norm_props(want_props)))
            if st["clause"] != "ok" or any(it["k"] != "in" for it in st["out"]):
                nontrivial["name"] += 1
            if same:
                if not st["ok"]:
                    rep.violation(attr_key(st["clause"], r["real"]),
                                  f"property name {s!r} is mapped to {r['real']!r}: {st['clause']} "
                                  f"(classes {class_seq(st['name'])})",
                                  dict(kind="name", states=[st], map=mi, observed=r["real"]))
                continue
            drift["name"] += 1
            seen_attrs = set()
            for attr, srcok, origin in (
                    [(r["real"], True, "function")]
                    + [(a, src == s, "parser") for a, src, _ in r["props"]]
                    + [(a, src == s, "generated") for a, src, _ in (r["gen"] or [])]):
                if (attr, srcok) in seen_attrs:
                    continue
                seen_attrs.add((attr, srcok))
                text, _, _ = nf.attr_event(table, attr, srcok)
                add_event(text, kind="name", si=si, mi=mi, attr=attr, origin=origin, s=s)
            if len(r["props"]) != 1:
                add_event(nf.sib_event([s], [], r["props"]), kind="name-props", si=si, mi=mi, s=s)

    # ---------------- injectivity on the pair universe (function level)
    idx = {json.dumps(s["name"], sort_keys=True): i for i, s in enumerate(names)}
    predicted = set()
    confirmed = Counter()
    for i, st in enumerate(names):
        if not st["paired"]:
            continue
        for c in st["coll"]:
            j = idx.get(json.dumps(c["m"], sort_keys=True))
            if j is None:
                if replay_file:
                    continue
                raise MachineryError("collider outside the exported names: " + flat_name(c["m"]))
            if j <= i:
                predicted.add((j, i))
                continue
            predicted.add((i, j))
            checked["pair"] += 1
            for mi in range(nf.NMAPS):
                a, b = name_obs[i][mi], name_obs[j][mi]
                if a["real"] is not None and a["real"] == b["real"] and a["s"] != b["s"]:
                    confirmed[(i, j)] += 1
                    for k in _sigkeys(c["sig"]):
                        rep.violation(("collision", k),
                                      f"sibling names {a['s']!r} and {b['s']!r} are both mapped to "
                                      f"{a['real']!r} (derivations {k})",
                                      dict(kind="collision", states=[_trim(st, c["m"]),
                                                                     _trim(names[j], st["name"])],
                                           map=mi, observed=a["real"]))
                else:
                    drift["collision-not-reproduced"] += 1
    nontrivial["pair"] = len(predicted)
    unpredicted = []
    for mi in range(nf.NMAPS):
        groups = defaultdict(list)
        for i, st in enumerate(names):
            if st["paired"] and name_obs[i][mi]["real"] is not None:
                groups[name_obs[i][mi]["real"]].append(i)
        for attr, members in groups.items():
            if len(members) < 2:
                continue
            for x in range(len(members)):
                for y in range(x + 1, len(members)):
                    i, j = members[x], members[y]
                    if (i, j) in predicted or name_obs[i][mi]["s"] == name_obs[j][mi]["s"]:
                        continue
                    unpredicted.append((i, j, mi))
    drift["collision-unpredicted"] = len(unpredicted)
    for i, j, mi in unpredicted[:MAX_UNPREDICTED]:
        a, b = name_obs[i][mi]["s"], name_obs[j][mi]["s"]
        ob = nf.observe_props([a, b], [])
        if ob["props"] is None:
            continue
        add_event(nf.sib_event([a, b], [], ob["props"]), kind="unpredicted", i=i, j=j, mi=mi,
                  names=[a, b], props=ob["props"])

    # ---------------- sibling sets through the parser and the generator
    for si, (st, obs) in enumerate(zip(sibs, sib_obs)):
        for mi, r in enumerate(obs):
            checked["sib"] += 1
            if r["props"] is None:
                rep.violation(("siblings", "parse-error", " | ".join(class_seq(n) for n in st["names"] + st["req"])),
                              f"object schema with properties {r['names']!r} required {r['req']!r} "
                              f"cannot be parsed: {r['err']}", dict(kind="sib", states=[st], map=mi))
                continue
            props = sorted((a, s, bool(q)) for a, s, q in r["props"])
            same = props == r["pred"]
            gen_same = r["gen"] is None or _norm_props(r["gen"]) == _norm_props(r["props"])
            if not st["ok"]:
                nontrivial["sib"] += 1
            if same and not st["ok"]:
                keys = _sigkeys(st["sig"]) or ["?"]
                for k in keys:
                    rep.violation(("collision", k),
                                  f"object with properties {r['names']!r} required {r['req']!r} gets "
                                  f"{r['props']!r}: a JSON name is lost (derivations {k})",
                                  dict(kind="sib", states=[st], map=mi, observed=r["props"]))
            if not same:
                drift["sib"] += 1
                add_event(nf.sib_event(r["names"], r["req"], r["props"]), kind="sib", si=si, mi=mi,
                          props=r["props"], names=r["names"], req=r["req"])
            if not gen_same:
                drift["sib-generated"] += 1
                add_event(nf.sib_event(r["names"], r["req"], r["gen"]), kind="sib-gen", si=si, mi=mi,
                          props=r["gen"], names=r["names"], req=r["req"])

    # ---------------- titles next to a library name in use
    for si, (st, obs) in enumerate(zip(titles, title_obs)):
        for mi, r in enumerate(obs):
            checked["title"] += 1
            if r["cname"] is None or r["facts"] is None:
                rep.violation(("class-name", "parse-error", r["err"].split(":")[1].strip() if ":" in r["err"] else "?"),
                              f"document with object title {r['title']!r} fails: {r['err']}",
                              dict(kind="title", states=[st], map=mi))
                continue
            f = r["facts"]
            obs_names = {n for n, _ in r["classes"]}
            obs_clash = sorted(obs_names & set(f["imported"]))
            pred_compiles = st["clause"] in ("ok", "shadows")
            same = (r["cname"] == st["cname"] and r["rname"] == st["rname"]
                    and obs_clash == sorted(st["clash"]) and f["compiles"] == pred_compiles)
            if st["clause"] != "ok":
                nontrivial["title"] += 1
            if same:
                if not st["ok"]:
                    rep.violation(("class-name", st["clause"], st["cname"]),
                                  f"object title {r['title']!r} becomes class {st['cname']!r}: {st['clause']}"
                                  + (f" (the module imports {obs_clash})" if obs_clash else "")
                                  + ("" if f["compiles"] else "; the generated module does not compile"),
                                  dict(kind="title", states=[st], map=mi, observed=r["cname"]))
                continue
            drift["title"] += 1
            classes = nf._canon_uids(r["classes"])
            add_event(nf.cls_event(table, classes, f["imported"]), kind="title", si=si, mi=mi,
                      classes=classes, title=r["title"])

    # ---------------- documents of titled objects
    for si, (st, r) in enumerate(zip(docs, doc_obs)):
        checked["doc"] += 1
        if r["slots"] is None or r["facts"] is None:
            rep.violation(("class-name", "parse-error", r["err"].split(":")[1].strip() if ":" in r["err"] else "?"),
                          f"document {json.dumps(r['doc'])[:200]} fails: {r['err']}",
                          dict(kind="doc", states=[st]))
            continue
        pred = nf.canon_listing(nf.predicted_listing(st))
        real = nf.canon_listing(r["slots"])
        f = r["facts"]
        names_real = sorted(n for n, _ in r["classes"])
        decl_ok = f["compiles"] and sorted(f["classdefs"] or []) == names_real and not f.get("exec")
        same = pred == real and names_real == sorted(st["names"])
        if len({u for _, _, u in pred}) < len(pred) or len(set(st["names"])) > 1 and any(
                "_" in n for n in st["names"]):
            nontrivial["doc"] += 1
        if same and decl_ok:
            if not st["ok"]:
                rep.violation(("class-name", "model", "/".join(st["names"])),
                              f"document {json.dumps(r['doc'])[:200]}: class names {st['names']}",
                              dict(kind="doc", states=[st]))
            continue
        drift["doc" if not same else "doc-module"] += 1
        classes = nf._canon_uids(r["classes"])
        add_event(nf.cls_event(table, classes, f["imported"]), kind="doc", si=si, classes=classes)
        if f["classdefs"] is not None and sorted(f["classdefs"]) != names_real:
            decl = [(n, k + 1) for k, n in enumerate(f["classdefs"])]
            add_event(nf.cls_event(table, decl, f["imported"]), kind="doc-module", si=si, classes=decl,
                      expected=names_real)
        if f["compiles"] and f.get("exec"):
            drift["doc-exec-error"] += 1

    # ---------------- code -> spec: names recorded from the code side (beyond the BFS bound)
    if replay_file:
        rnd = list(extra_names)
    else:
        rnd = nf.random_names(table, T["trace_names"], T["trace_len"], common.SEED + 12)
    chunks = [rnd[k:k + 500] for k in range(0, len(rnd), 500)]
    outs = [a for part in drive.pmap(nf.observe_names, chunks, chunksize=1, nproc=min(len(chunks), common.NPROC) or 1)
            for a in part] if chunks else []
    trace_ids = {}
    seen_sig = {}
    for s, attr in zip(rnd, outs):
        checked["trace"] += 1
        if attr is None:
            rep.violation(("attr", "exception", "?"), f"_parse_attribute_name({s!r}) raised",
                          dict(kind="trace", names=[s]))
            continue
        text, cs, txt = nf.attr_event(table, attr)
        sig = (tuple(cs), txt if txt in table.reserved else "")
        if sig in seen_sig:
            ev_info[seen_sig[sig]]["more"].append((s, attr))
            continue
        eid = add_event(text, kind="trace", s=s, attr=attr, more=[])
        seen_sig[sig] = eid
        trace_ids[eid] = attr

    # ---------------- thorough: every code point alone and in four contexts
    sweep = None
    if tier == "thorough" and not replay_file:
        sweep = _sweep(table, names, rep, add_event, ev_info)

    # ------------------------------------------------------------ stage 3: trace validation
    adj = dict(events=0, tlc_states=0)
    if events:
        rejected, adj = nf.adjudicate(events)
        for eid, _ in events:
            info = ev_info[eid]
            rej = rejected.get(eid)
            clause = rej["clause"] if rej else None
            if info["kind"] in ("trace", "sweep") and "attr" in info:
                # machinery self-check: TLC on the abstraction == the interpreter on the text
                if (clause is None) != nf.gt_attr_ok(info["attr"]):
                    raise MachineryError(
                        f"class table inconsistent with the interpreter on {info['attr']!r}: "
                        f"TLC says {clause or 'ok'}")
            if clause is None:
                continue
            _report_rejected(rep, table, names, sibs, titles, docs, info, clause, rej.get("who", ""))
    if not replay_file and len(events) and adj.get("tlc_states", 0) < len(events):
        raise MachineryError("trace validation did not consume every event")

    # ------------------------------------------------------------ vacuity and evidence
    if not replay_file:
        need_kinds = {"in", "ws", "lab", "pad", "pre", "suf", "blank"}
        if not need_kinds <= kinds_seen:
            raise MachineryError(f"vacuity: derivations never exercised: {sorted(need_kinds - kinds_seen)}")
        witnesses = dict(
            AppendChar=any(len(s["name"]) == T["MaxLen"] for s in names),
            MakeSibs=len(sibs) > 0,
            AppendTok=any(len(s["title"]) == T["MaxTitle"] for s in titles),
            SetUse=any(s["use"] != "none" for s in titles),
            AddSlot=any(len(s["slots"]) == T["MaxSlots"] for s in docs))
        if not all(witnesses.values()):
            raise MachineryError(f"vacuity: a builder action was never taken: {witnesses}")
        if nontrivial["pair"] < 10 or nontrivial["name"] < 10 or nontrivial["title"] < 5 \
                or nontrivial["doc"] < 5:
            raise MachineryError(f"vacuity: antecedent of the property never true: {dict(nontrivial)}")
        if not any(st["paired"] for st in names):
            raise MachineryError("vacuity: pair universe empty")
    else:
        witnesses = {}
    samples = []
    for lst, ob in ((names, name_obs), (sibs, sib_obs), (titles, title_obs)):
        for k in (1, len(lst) // 2, len(lst) - 1):
            if 0 <= k < len(lst):
                st = lst[k]
                if st["t"] == "name":
                    samples.append(dict(kind="name", classes=class_seq(st["name"]), input=ob[k][0]["s"],
                                        predicted=ob[k][0]["exp"], real=ob[k][0]["real"], ok=st["ok"]))
                elif st["t"] == "sib":
                    samples.append(dict(kind="sib", names=ob[k][0]["names"], required=ob[k][0]["req"],
                                        real=ob[k][0]["props"], ok=st["ok"]))
                else:
                    samples.append(dict(kind="title", title=ob[k][0]["title"], use=st["use"],
                                        predicted=st["cname"], real=ob[k][0]["cname"], ok=st["ok"]))
    if docs:
        k = len(docs) // 2
        samples.append(dict(kind="doc", document=doc_obs[k]["doc"],
                            predicted=[n for _, n, _ in nf.predicted_listing(docs[k])],
                            real=[n for _, n, _ in (doc_obs[k]["slots"] or [])]))
    replayed = (len(names) + len(sibs)) * nf.NMAPS + sum(len(o) for o in title_obs) + len(docs)
    coverage = dict(
        states=int(meta.get("distinct", 0)) + adj.get("tlc_states", 0),
        transitions=int(meta.get("states", 0)) + adj.get("events", 0),
        traces_validated_against_impl=replayed + len(rnd) + (sweep["calls"] if sweep else 0),
        evaluations=sum(checked.values()) + (sweep["calls"] if sweep else 0),
        distinct_nontrivial=sum(nontrivial.values()),
        rule="one case = an exported state under one concretisation map (3 maps), or one name "
             "recorded from the code side; non-trivial = names whose mapping changes something or "
             "violates R_C12, colliding pairs of the pair universe, sibling sets the model loses a "
             "name of, titles whose class name is not plainly acceptable, documents in which two "
             "objects share a title",
        samples=samples,
        exhaustive=False,
        bounds=dict(tlc=meta.get("consts"), concretisation_maps=nf.NMAPS,
                    exported=dict(names=len(names), sibling_sets=len(sibs), titles=len(titles),
                                  documents=len(docs)),
                    pair_universe=sum(1 for s in names if s["paired"]),
                    colliding_pairs_model=len(predicted), colliding_pairs_confirmed=len(confirmed),
                    random_names=len(rnd), random_name_maxlen=T["trace_len"]),
        bfs_exhaustive_within_bound=True,
        tlc=dict(bfs=meta, trace_validation=adj),
        action_witnesses=witnesses,
        derivations_seen=sorted(kinds_seen),
        checked=dict(checked), nontrivial=dict(nontrivial),
        drift=dict(drift),
        drift_events_adjudicated=len(events), drift_events_skipped=skipped_events,
        class_table=dict(classes=len(table.attr), code_points_classified=len(table._cache)),
        sweep=sweep,
    )
    return rep.finish(coverage, time.time() - t0,
                      assumptions=["A1 bounded exhaustiveness (names <= MaxLen atoms, pairs within the "
                                   "pair universe, titles <= MaxTitle tokens, <= MaxSlots objects)",
                                   "A6 class table validated against the running interpreter's "
                                   "Unicode database (unicodedata %s)" % __import__("unicodedata").unidata_version,
                                   "reserved attribute = dir(object) + keyword.kwlist + _dict "
                                   "(ground truth from the interpreter, not from the code under test)"])


def _trim(st, other):
    """a name state keeping only the collider `other` (for replay files)"""
    key = json.dumps(other, sort_keys=True)
    t = dict(st)
    t["coll"] = [c for c in st["coll"] if json.dumps(c["m"], sort_keys=True) == key]
    return t


def _report_rejected(rep, table, names, sibs, titles, docs, info, clause, who):
    kind = info["kind"]
    if kind in ("name", "trace", "sweep"):
        attr = info["attr"]
        if clause == "not-identifier":
            cs = table.classes(attr)
            bad = sorted({c for c in cs if not table.attr[c]["xc"]})
            if not bad and cs and not table.attr[cs[0]]["xs"]:
                bad = ["start:" + cs[0]]
            key = ("attr", clause, "+".join(bad) if attr else "empty")
        elif clause in ("keyword", "reserved"):
            key = ("attr", clause, attr)
        else:
            key = ("attr", clause, "")
        n = 1 + len(info.get("more", [])) + info.get("count", 1) - 1
        src = info.get("s")
        rep.violation(key, f"property name {src!r} is mapped to {attr!r}: {clause}"
                      + (f" (as seen by the {info['origin']})" if info.get("origin") else "")
                      + " [observation differs from the model; rejected by R_C12 in trace validation]"
                      * (kind != "trace"),
                      dict(kind="trace", names=[src] + [m[0] for m in info.get("more", [])][:20],
                           observed=attr,
                           states=[names[info["si"]]] if "si" in info and kind == "name" else []))
        if n > 1:
            rep.groups[key]["count"] += n - 1
    elif kind == "name-props":
        rep.violation(("siblings", "single", class_seq(names[info["si"]]["name"])),
                      f"object with the single property {info['s']!r} does not keep exactly that property",
                      dict(kind="name", states=[names[info["si"]]]))
    elif kind == "unpredicted":
        i, j = info["i"], info["j"]
        rep.violation(("collision", "unpredicted",
                       " | ".join(sorted([class_seq(names[i]["name"]), class_seq(names[j]["name"])]))),
                      f"sibling names {info['names'][0]!r} and {info['names'][1]!r} collapse: the class "
                      f"gets {info['props']!r} (the model predicts distinct attributes)",
                      dict(kind="collision", states=[names[i], names[j]], map=info["mi"]))
    elif kind in ("sib", "sib-gen"):
        st = sibs[info["si"]]
        what = "siblings" if kind == "sib" else "generated"
        sub = "drift" if kind == "sib" else "siblings"
        rep.violation((what, sub, " | ".join(class_seq(n) for n in st["names"] + st["req"])),
                      f"object with properties {info['names']!r} required {info['req']!r}: "
                      + ("the parsed class" if kind == "sib" else "the class rebuilt from the generated module")
                      + f" has {info['props']!r}: a JSON name is lost",
                      dict(kind="sib", states=[st], map=info["mi"], observed=info["props"]))
    elif kind in ("title", "doc", "doc-module"):
        st = (titles if kind == "title" else docs)[info["si"]]
        rep.violation(("class-name", clause, who),
                      ("object title %r: " % info.get("title") if kind == "title" else "document: ")
                      + f"classes {[n for n, _ in info['classes']]}"
                      + (" declared by the generated module" if kind == "doc-module" else "")
                      + f": {clause} {who!r} [rejected by R_C12 in trace validation]",
                      dict(kind=kind.split("-")[0], states=[st], observed=info["classes"]))


def _sweep(table, names, rep, add_event, ev_info):
    """every code point alone and in the contexts x?, ?x, x?x, _?_ (class-level predictions)"""
    t0 = time.time()
    tpl = nf.sweep_templates(table, names)
    step = 0x1000
    jobs = [(lo, min(lo + step, 0x110000), table.rec, tpl) for lo in range(0, 0x110000, step)]
    parts = drive.pmap(nf.sweep_range, jobs, chunksize=4)
    tot = dict(calls=0, same=0, by_class=Counter(), model_violations={}, drift_signatures=0,
               drift_calls=0)
    drift = {}
    for a in parts:
        tot["calls"] += a["calls"]
        tot["same"] += a["same"]
        tot["by_class"].update(a["by_class"])
        if a["gt_mismatch"]:
            raise MachineryError(f"model verdict differs from the interpreter's: {a['gt_mismatch'][:3]}")
        for key, g in a["model_viol"].items():
            k = ("attr", key[0], key[1])
            if k not in rep.groups:
                rep.violation(k, f"property name {g['sample'][0]!r} is mapped to {g['sample'][1]!r}: "
                              f"{key[0]} (class {g['cls']} in context {g['ctx']})",
                              dict(kind="trace", names=[g["sample"][0]], observed=g["sample"][1]))
                rep.groups[k]["count"] += g["count"] - 1
            else:
                rep.groups[k]["count"] += g["count"]
            tot["model_violations"]["|".join(k)] = tot["model_violations"].get("|".join(k), 0) + g["count"]
        for key, g in a["drift"].items():
            d = drift.setdefault(key, dict(count=0, sample=g["sample"]))
            d["count"] += g["count"]
    for key, d in drift.items():
        s, real, exp = d["sample"]
        text, _, _ = nf.attr_event(table, real)
        add_event(text, kind="sweep", s=s, attr=real, count=d["count"], exp=exp)
        tot["drift_calls"] += d["count"]
    tot["drift_signatures"] = len(drift)
    tot["by_class"] = dict(tot["by_class"])
    tot["wall"] = round(time.time() - t0, 1)
    return tot
