"""Check of the name family: C12 (see namesfamily.py for the pipeline).

Violation keys (one per root cause; the witness is normalised to character classes / derivations):
  ("attr", "not-identifier", <classes of the characters that break the identifier>)
  ("attr", "keyword"|"reserved", <the attribute name>)
  ("attr", "source-lost", "empty-name"|"non-empty-name")     the JSON name is not recorded
  ("attr", "exception"|"parse-error", <exception type>)
  ("collision", "<derivation>~<derivation>")   two different sibling names, one attribute: the two
                                               derivations of the output character they share
  ("collision", "unpredicted", "<class seq> | <class seq>")  a real collision the model lacks
  ("siblings", <what>, "<class seq> | ...")    properties / required entries lost in another way
  ("generated", <clause>, <reason>)            name usable in the parsed class, lost in the module
                                               rebuilt from the generated code
  ("class-name", "empty"|"not-identifier"|"keyword"|"shadows"|"duplicate", <class name>)
"""
import json
import time
import unicodedata
from collections import Counter, defaultdict

import common
from common import MachineryError
import drive
import namesfamily as nf
from namesfamily import flat_name, class_seq, nfkc
from report import Reporter

MAX_EVENTS = {"quick": 6000, "thorough": 40000}
MAX_UNPREDICTED = 300


def _sigkeys(sig):
    return sorted({"~".join(sorted(pr)) if len(pr) == 2 else pr[0] + "~" + pr[0] for pr in sig})


def _norm_attr(a):
    """attribute names as the compiler sees them in the body of a class called T: NFKC-normalised,
    and `__x` (not ending in `__`) mangled to `_T__x`; attribute names are compared modulo both"""
    a = nfkc(a)
    if a.startswith("_T__") and not a.endswith("__"):
        a = a[2:]
    return a


def _norm_props(props):
    return sorted((_norm_attr(a), s, bool(r)) for a, s, r in props)


def _gen_reason(parsed_attrs, gen_attr):
    if len({nfkc(p) for p in parsed_attrs}) < len(set(parsed_attrs)):
        return "nfkc-normalisation"
    if gen_attr in parsed_attrs:
        return "same-name"
    if any(gen_attr == "_T" + p for p in parsed_attrs):
        return "private-name-mangling"
    if any(gen_attr == nfkc(p) for p in parsed_attrs):
        return "nfkc-normalisation"
    return "other"


def _sib_model_keys(st):
    """root-cause keys of a sibling set on which the MODEL loses a JSON name"""
    keys = [("collision", k) for k in _sigkeys(st["sig"])]
    if not keys and any(len(n) == 0 for n in st["names"] + st["req"]):
        keys = [("attr", "source-lost", "empty-name")]
    return keys


def _exc_type(err):
    parts = [p.strip() for p in err.split(":")]
    return parts[1] if len(parts) > 1 else (parts[0] or "?")


def run(pid, tier, replay_file=None):
    t0 = time.time()
    rep = Reporter(pid, tier)

    def viol(key, msg, payload, n=1):
        """count n occurrences; message and payload are built for the first one only"""
        g = rep.groups.get(key)
        if g is None:
            rep.violation(key, msg(), payload())
            g = rep.groups[key]
            n -= 1
        g["count"] += n

    by, meta = nf.stage1(tier)
    table = nf.set_table(by["table"][0])
    extra_names = None
    if replay_file:
        payload = json.load(open(replay_file))
        by = {"name": [], "sib": [], "title": [], "doc": [], "table": by["table"]}
        for st in payload.get("states", []):
            by[st["t"]].append(st)
        extra_names = payload.get("names", [])
    common.use_repo()
    table.validate()
    T = nf.TIERS[tier]
    timing = {"stage1": round(time.time() - t0, 1)}

    names, sibs, titles, docs = by["name"], by["sib"], by["title"], by["doc"]
    names.sort(key=lambda st: (len(st["name"]), flat_name(st["name"])))     # small witnesses first
    sibs.sort(key=lambda st: (sum(len(n) for n in st["names"] + st["req"]), json.dumps(st["names"])))
    titles.sort(key=lambda st: (len(st["title"]), st["flat"], st["use"]))
    docs.sort(key=lambda st: (len(st["slots"]), json.dumps(st["slots"], sort_keys=True), json.dumps(st["root"])))
    if any(not s["xcheck"] for s in names):
        bad = next(s for s in names if not s["xcheck"])
        raise MachineryError("NameClasses.AttrNameC and Names.AttrName disagree on "
                             + flat_name(bad["name"]))

    # ------------------------------------------------------------ stage 2: replay
    t1 = time.time()
    name_obs = drive.pmap(nf.replay_name, names, chunksize=64)
    sib_obs = drive.pmap(nf.replay_sib, sibs, chunksize=64)
    title_obs = drive.pmap(nf.replay_title, titles, chunksize=64)
    doc_obs = drive.pmap(nf.replay_doc, docs, chunksize=64)
    timing["replay"] = round(time.time() - t1, 1)
    t1 = time.time()

    events = []          # (id, text)
    ev_info = {}         # id -> dict(kind, ...)
    ev_sig = {}          # signature of an attribute event -> id (equivalent for R_C12_attr)
    drift = Counter()
    checked = Counter()
    nontrivial = Counter()
    kinds_seen = set()
    skipped = Counter()

    def add_event(text, **info):
        eid = len(ev_info) + 1
        ev_info[eid] = info
        if len(events) < MAX_EVENTS[tier]:
            events.append((eid, text))
        else:
            skipped["events"] += 1
        return eid

    def add_attr_event(attr, srcok, **info):
        text, cs, txt = nf.attr_event(table, attr, srcok)
        sig = (tuple(cs), txt if txt in table.reserved else "", srcok,
               info.get("kind"), info.get("origin"), info.get("reason"))
        eid = ev_sig.get(sig)
        if eid is not None:
            ev_info[eid]["count"] += info.pop("count", 1)
            return eid
        eid = add_event(text, attr=attr, **{"count": 1, **info})
        ev_sig[sig] = eid
        return eid

    def bad_classes(attr):
        cs = table.classes(attr)
        bad = sorted({c for c in cs if not table.attr[c]["xc"]})
        if not bad and cs and not table.attr[cs[0]]["xs"]:
            bad = ["start:" + cs[0]]
        return "+".join(bad) if attr else "empty"

    def attr_key(clause, attr, name_seq=None):
        if clause == "not-identifier":
            return ("attr", clause, bad_classes(attr))
        if clause in ("keyword", "reserved"):
            return ("attr", clause, attr)
        if clause == "source-lost":
            return ("attr", clause, "empty-name" if name_seq is not None and not name_seq
                    else "non-empty-name")
        return ("attr", clause, "")

    # ---------------- names: function level, parser level, generated code
    for si, (st, obs) in enumerate(zip(names, name_obs)):
        for it in st["out"]:
            kinds_seen.add(it["k"])
        for mi, r in enumerate(obs):
            checked["name"] += 1
            s = r["s"]
            if r["real"] is None:
                viol(("attr", "exception", _exc_type("x:" + r["err"])),
                     lambda: f"_parse_attribute_name({s!r}) raised {r['err']}",
                     lambda: dict(kind="name", states=[st], map=mi))
                continue
            if r["props"] is None:
                viol(("attr", "parse-error", _exc_type(r["err"])),
                     lambda: f"object schema with property {s!r} cannot be parsed: {r['err']}",
                     lambda: dict(kind="name", states=[st], map=mi))
                continue
            want = [(r["exp"], s if st["srcok"] else r["exp"], False)]
            fn_same = r["real"] == r["exp"]
            props_same = r["props"] == want
            if st["clause"] != "ok" or any(it["k"] != "in" or it["c"] != it["f"] for it in st["out"]):
                nontrivial["name"] += 1
            if fn_same and props_same:
                if not st["ok"]:
                    viol(attr_key(st["clause"], r["real"], st["name"]),
                         lambda: f"property name {s!r} is mapped to {r['real']!r}"
                                 + (f", recorded source {r['props'][0][1]!r}"
                                    if st["clause"] == "source-lost" else "")
                                 + f": {st['clause']} (classes: {class_seq(st['name']) or 'empty name'})",
                         lambda: dict(kind="name", states=[st], map=mi, observed=r["real"]))
            else:
                drift["name"] += 1
                if not fn_same:
                    add_attr_event(r["real"], True, kind="name", origin="function", s=s, si=si)
                if not props_same:
                    for a, src, _ in r["props"]:
                        add_attr_event(a, src == s, kind="name", origin="parser", s=s, si=si)
                    if len(r["props"]) != 1:
                        add_event(nf.sib_event([s], [], r["props"]), kind="name-props", si=si, s=s)
            if r["gen"] is not None and _norm_props(r["gen"]) != _norm_props(r["props"]):
                drift["name-generated"] += 1
                pattrs = [a for a, _, _ in r["props"]]
                for a, src, _ in r["gen"]:
                    add_attr_event(a, src == s, kind="name", origin="generated", s=s, si=si,
                                   reason=_gen_reason(pattrs, a))
            elif r["gen"] is None and r["err"]:
                drift["name-generated-module-fails"] += 1

    # ---------------- injectivity on the pair universe (function level)
    idx = {json.dumps(s["name"], sort_keys=True): i for i, s in enumerate(names)}
    pairs = []
    for i, st in enumerate(names):
        if not st["paired"]:
            continue
        for c in st["coll"]:
            j = idx.get(json.dumps(c["m"], sort_keys=True))
            if j is None:
                if replay_file:
                    continue
                raise MachineryError("collider outside the exported names: " + flat_name(c["m"]))
            if i < j:
                pairs.append((len(st["name"]) + len(c["m"]), i, j, c))
    pairs.sort(key=lambda p: p[:3])
    predicted = {(i, j) for _, i, j, _ in pairs}
    confirmed = set()
    for _, i, j, c in pairs:
        checked["pair"] += 1
        keys = _sigkeys(c["sig"])
        for mi in range(nf.NMAPS):
            a, b = name_obs[i][mi], name_obs[j][mi]
            if a["real"] is not None and a["real"] == b["real"] and a["s"] != b["s"]:
                confirmed.add((i, j))
                for k in keys:
                    viol(("collision", k),
                         lambda: f"sibling names {a['s']!r} and {b['s']!r} are both mapped to "
                                 f"{a['real']!r} (derivations that meet: {k})",
                         lambda: dict(kind="collision", map=mi, observed=a["real"],
                                      states=[_trim(names[i], names[j]["name"]),
                                              _trim(names[j], names[i]["name"])]))
            else:
                drift["collision-not-reproduced"] += 1
    nontrivial["pair"] = len(predicted)
    unpredicted = []
    for mi in range(nf.NMAPS):
        groups = defaultdict(list)
        for i, st in enumerate(names):
            if st["paired"] and name_obs[i][mi]["real"] is not None:
                groups[name_obs[i][mi]["real"]].append(i)
        for attr, members in groups.items():
            for x in range(len(members)):
                for y in range(x + 1, len(members)):
                    i, j = members[x], members[y]
                    if (i, j) in predicted or name_obs[i][mi]["s"] == name_obs[j][mi]["s"]:
                        continue
                    unpredicted.append((i, j, mi))
    drift["collision-unpredicted"] = len(unpredicted)
    for i, j, mi in unpredicted[:MAX_UNPREDICTED]:
        a, b = name_obs[i][mi]["s"], name_obs[j][mi]["s"]
        ob = nf.observe_props([a, b], [])
        if ob["props"] is None:
            continue
        add_event(nf.sib_event([a, b], [], ob["props"]), kind="unpredicted", i=i, j=j, mi=mi,
                  names=[a, b], props=ob["props"])

    # ---------------- sibling sets through the parser and the generator
    for si, (st, obs) in enumerate(zip(sibs, sib_obs)):
        for mi, r in enumerate(obs):
            checked["sib"] += 1
            if r["props"] is None:
                viol(("siblings", "parse-error", _exc_type(r["err"])),
                     lambda: f"object schema with properties {r['names']!r} required {r['req']!r} "
                             f"cannot be parsed: {r['err']}",
                     lambda: dict(kind="sib", states=[st], map=mi))
                continue
            props = sorted((a, s, bool(q)) for a, s, q in r["props"])
            same = props == r["pred"]
            if not st["ok"]:
                nontrivial["sib"] += 1
            if same and not st["ok"]:
                keys = _sib_model_keys(st) or \
                    [("siblings", "model", " | ".join(class_seq(n) for n in st["names"] + st["req"]))]
                for key in keys:
                    viol(key,
                         lambda: f"object with properties {r['names']!r} required {r['req']!r} gets "
                                 f"{r['props']!r}: a JSON name is lost ({key[1]})",
                         lambda: dict(kind="sib", states=[st], map=mi, observed=r["props"]))
            if not same:
                drift["sib"] += 1
                add_event(nf.sib_event(r["names"], r["req"], r["props"]), kind="sib", si=si, mi=mi,
                          props=r["props"], names=r["names"], req=r["req"])
            if r["gen"] is not None and _norm_props(r["gen"]) != _norm_props(r["props"]):
                drift["sib-generated"] += 1
                add_event(nf.sib_event(r["names"], r["req"], r["gen"]), kind="sib-gen", si=si, mi=mi,
                          props=r["gen"], names=r["names"], req=r["req"],
                          reason=",".join(sorted({_gen_reason([a for a, _, _ in r["props"]], g)
                                                  for g, _, _ in r["gen"]})))

    # ---------------- titles next to a library name in use
    for si, (st, obs) in enumerate(zip(titles, title_obs)):
        for mi, r in enumerate(obs):
            checked["title"] += 1
            if r["classes"] is None:
                viol(("class-name", "parse-error", _exc_type(r["err"])),
                     lambda: f"document with object title {r['title']!r} fails: {r['err']}",
                     lambda: dict(kind="title", states=[st], map=mi))
                continue
            f = r["facts"] or dict(compiles=False, classdefs=None, imported=[])
            if r["facts"] is None:
                drift["title-module-not-generated"] += 1
            obs_names = {n for n, _ in r["classes"]}
            obs_clash = sorted(obs_names & set(f["imported"]))
            pred_compiles = st["clause"] in ("ok", "shadows")
            same = (r["cname"] == st["cname"] and r["rname"] == st["rname"]
                    and obs_clash == sorted(st["clash"]) and f["compiles"] == pred_compiles)
            if st["clause"] != "ok":
                nontrivial["title"] += 1
            if same:
                if not st["ok"]:
                    viol(("class-name", st["clause"], st["cname"]),
                         lambda: f"object title {r['title']!r} becomes class {st['cname']!r}: {st['clause']}"
                                 + (f" (the generated module imports {obs_clash} and declares a class "
                                    "of that name)" if obs_clash else "")
                                 + ("" if f["compiles"] else "; the generated module does not compile"),
                         lambda: dict(kind="title", states=[st], map=mi, observed=r["cname"]))
                continue
            drift["title"] += 1
            classes = nf._canon_uids(r["classes"])
            add_event(nf.cls_event(table, classes, f["imported"]), kind="title", si=si, mi=mi,
                      classes=classes, title=r["title"])

    # ---------------- documents of titled objects
    for si, (st, r) in enumerate(zip(docs, doc_obs)):
        checked["doc"] += 1
        if r["classes"] is None:
            viol(("class-name", "parse-error", _exc_type(r["err"])),
                 lambda: f"document {json.dumps(r['doc'])[:200]} fails: {r['err']}",
                 lambda: dict(kind="doc", states=[st]))
            continue
        pred = nf.canon_listing(nf.predicted_listing(st))
        real = nf.canon_listing(r["slots"]) if r["slots"] is not None else None   # None: not located
        f = r["facts"] or dict(compiles=False, classdefs=None, imported=[])
        if r["facts"] is None:
            drift["doc-module-not-generated"] += 1
        names_real = sorted(n for n, _ in r["classes"])
        decl_ok = f["compiles"] and sorted(f["classdefs"] or []) == names_real and not f.get("exec")
        same = pred == real and names_real == sorted(st["names"])
        if len({n.split("_")[0] for n in st["names"]}) < len(st["names"]) \
                or len({u for _, _, u in pred}) < len(pred):
            nontrivial["doc"] += 1
        if same and decl_ok:
            if not st["ok"]:
                viol(("class-name", "model", "/".join(st["names"])),
                     lambda: f"document {json.dumps(r['doc'])[:200]}: class names {st['names']}",
                     lambda: dict(kind="doc", states=[st]))
            continue
        drift["doc" if not same else "doc-module"] += 1
        classes = nf._canon_uids(r["classes"])
        add_event(nf.cls_event(table, classes, f["imported"]), kind="doc", si=si, classes=classes)
        if f["classdefs"] is not None and sorted(f["classdefs"]) != names_real:
            decl = [(n, k + 1) for k, n in enumerate(f["classdefs"])]
            add_event(nf.cls_event(table, decl, f["imported"]), kind="doc-module", si=si, classes=decl,
                      expected=names_real)
        if f["compiles"] and f.get("exec"):
            drift["doc-exec-error"] += 1

    # ---------------- code -> spec: names recorded from the code side (beyond the BFS bound)
    if replay_file:
        rnd = list(extra_names)
    else:
        rnd = nf.random_names(table, T["trace_names"], T["trace_len"], common.SEED + 12)
    chunks = [rnd[k:k + 500] for k in range(0, len(rnd), 500)]
    outs = [a for part in drive.pmap(nf.observe_names, chunks, chunksize=1) for a in part] if chunks else []
    for s, attr in zip(rnd, outs):
        checked["trace"] += 1
        if attr is None:
            viol(("attr", "exception", "?"), lambda: f"_parse_attribute_name({s!r}) raised",
                 lambda: dict(kind="trace", names=[s]))
            continue
        add_attr_event(attr, True, kind="trace", s=s)

    # ---------------- thorough: every code point alone and in four contexts
    sweep = None
    if tier == "thorough" and not replay_file:
        sweep = _sweep(table, names, viol, add_attr_event)
    timing["judge"] = round(time.time() - t1, 1)
    t1 = time.time()

    # ------------------------------------------------------------ stage 3: trace validation
    adj = dict(events=0, tlc_states=0)
    if events:
        rejected, adj = nf.adjudicate(events)
        for eid, _ in events:
            info = ev_info[eid]
            rej = rejected.get(eid)
            clause = rej["clause"] if rej else None
            if "attr" in info and info.get("origin") in (None, "function"):
                # machinery self-check: TLC on the abstraction == the interpreter on the text
                if (clause is None) != nf.gt_attr_ok(info["attr"]):
                    raise MachineryError(
                        f"class table inconsistent with the interpreter on {info['attr']!r}: "
                        f"TLC says {clause or 'ok'}")
            if clause is None:
                continue
            _report_rejected(viol, attr_key, names, sibs, titles, docs, info, clause, rej.get("who", ""))
        if adj.get("tlc_states", 0) < len(events):
            raise MachineryError("trace validation did not consume every event")
    timing["trace_validation"] = round(time.time() - t1, 1)

    # ------------------------------------------------------------ vacuity and evidence
    witnesses = {}
    if not replay_file:
        need_kinds = {"in", "ws", "lab", "pad", "pre", "suf", "blank"}
        if not need_kinds <= kinds_seen:
            raise MachineryError(f"vacuity: derivations never exercised: {sorted(need_kinds - kinds_seen)}")
        witnesses = dict(
            AppendChar=any(len(s["name"]) == T["MaxLen"] for s in names),
            MakeSibs=len(sibs) > 0,
            AppendTok=any(len(s["title"]) == T["MaxTitle"] for s in titles),
            SetUse=any(s["use"] != "none" for s in titles),
            AddSlot=any(len(s["slots"]) == T["MaxSlots"] for s in docs))
        if not all(witnesses.values()):
            raise MachineryError(f"vacuity: a builder action was never taken: {witnesses}")
        if nontrivial["pair"] < 10 or nontrivial["name"] < 10 or nontrivial["title"] < 5 \
                or nontrivial["doc"] < 5:
            raise MachineryError(f"vacuity: antecedent of the property never true: {dict(nontrivial)}")
        if not adj.get("events"):
            raise MachineryError("vacuity: no observation went through trace validation")
    samples = []
    for lst, ob in ((names, name_obs), (sibs, sib_obs), (titles, title_obs)):
        for k in (1, len(lst) // 2, len(lst) - 1):
            if 0 <= k < len(lst):
                st = lst[k]
                if st["t"] == "name":
                    samples.append(dict(kind="name", classes=class_seq(st["name"]), input=ob[k][0]["s"],
                                        predicted=ob[k][0]["exp"], real=ob[k][0]["real"], ok=st["ok"]))
                elif st["t"] == "sib":
                    samples.append(dict(kind="sib", names=ob[k][0]["names"], required=ob[k][0]["req"],
                                        real=ob[k][0]["props"], ok=st["ok"]))
                else:
                    samples.append(dict(kind="title", title=ob[k][0]["title"], use=st["use"],
                                        predicted=st["cname"], real=ob[k][0]["cname"], ok=st["ok"]))
    if docs:
        k = len(docs) // 2
        samples.append(dict(kind="doc", document=doc_obs[k]["doc"],
                            predicted=[n for _, n, _ in nf.predicted_listing(docs[k])],
                            real=[n for _, n, _ in (doc_obs[k]["slots"] or [])]))
    replayed = (len(names) + len(sibs)) * nf.NMAPS + sum(len(o) for o in title_obs) + len(docs)
    coverage = dict(
        states=int(meta.get("distinct", 0)) + adj.get("tlc_states", 0),
        transitions=int(meta.get("states", 0)) + adj.get("events", 0),
        traces_validated_against_impl=replayed + len(rnd) + (sweep["calls"] if sweep else 0),
        evaluations=sum(checked.values()) + (sweep["calls"] if sweep else 0),
        distinct_nontrivial=sum(nontrivial.values()),
        rule="one case = an exported state under one concretisation map (3 maps), or one name "
             "recorded from the code side; non-trivial = names whose mapping changes something or "
             "violates R_C12, colliding pairs of the pair universe, sibling sets the model loses a "
             "name of, titles whose class name is not plainly acceptable, documents in which two "
             "objects share a title",
        samples=samples,
        exhaustive=False,
        bounds=dict(tlc=meta.get("consts"), concretisation_maps=nf.NMAPS,
                    exported=dict(names=len(names), sibling_sets=len(sibs), titles=len(titles),
                                  documents=len(docs)),
                    pair_universe=sum(1 for s in names if s["paired"]),
                    colliding_pairs_model=len(predicted), colliding_pairs_confirmed=len(confirmed),
                    random_names=len(rnd), random_name_maxlen=T["trace_len"]),
        bfs_exhaustive_within_bound=True,
        tlc=dict(bfs=meta, trace_validation=adj),
        action_witnesses=witnesses,
        derivations_seen=sorted(kinds_seen),
        checked=dict(checked), nontrivial=dict(nontrivial),
        drift=dict(drift),
        drift_events_adjudicated=len(events), drift_events_skipped=dict(skipped),
        observations_represented_by_events=sum(i.get("count", 1) for i in ev_info.values()),
        class_table=dict(classes=len(table.attr), code_points_classified=len(table._cache)),
        library_names_not_in_GenNames=table.library_names_missing(),
        mapping_observed_through=(nf._fn(), nf.MAPPER)[1],
        sweep=sweep, timing=timing,
        violation_keys={"|".join(str(x) for x in k): g["count"] for k, g in rep.groups.items()},
    )
    return rep.finish(coverage, time.time() - t0,
                      assumptions=["A1 bounded exhaustiveness (names <= MaxLen atoms, pairs within the "
                                   "pair universe, titles <= MaxTitle tokens, <= MaxSlots objects)",
                                   "A6 class table validated against the running interpreter's "
                                   "Unicode database (unicodedata %s)" % unicodedata.unidata_version,
                                   "reserved attribute = dir(object) + keyword.kwlist + _dict "
                                   "(ground truth from the interpreter, not from the code under test)"])


def _trim(st, other):
    """a name state keeping only the collider `other` (for replay files)"""
    key = json.dumps(other, sort_keys=True)
    t = dict(st)
    t["coll"] = [c for c in st["coll"] if json.dumps(c["m"], sort_keys=True) == key]
    return t


def _report_rejected(viol, attr_key, names, sibs, titles, docs, info, clause, who):
    kind = info["kind"]
    note = " [observation differs from the model; rejected by R_C12 in trace validation]"
    if kind in ("name", "trace", "sweep"):
        attr, src, origin = info["attr"], info.get("s"), info.get("origin")
        st = names[info["si"]] if "si" in info else None
        if origin == "generated":
            key = ("generated", clause, info.get("reason") or "?")
            msg = (f"property name {src!r}: the class rebuilt from the generated module has attribute "
                   f"{attr!r} instead: {clause} ({info.get('reason')})")
        else:
            key = attr_key(clause, attr, st["name"] if st else None)
            msg = (f"property name {src!r} is mapped to {attr!r}: {clause}"
                   + (f" (as seen by the {origin})" if origin else "") + (note if kind != "trace" else ""))
        viol(key, lambda: msg,
             lambda: dict(kind="trace", names=[src], observed=attr, states=[st] if st else []),
             n=info.get("count", 1))
    elif kind == "name-props":
        viol(("siblings", "single", class_seq(names[info["si"]]["name"])),
             lambda: f"object with the single property {info['s']!r} does not keep exactly that property",
             lambda: dict(kind="name", states=[names[info["si"]]]))
    elif kind == "unpredicted":
        i, j = info["i"], info["j"]
        viol(("collision", "unpredicted",
              " | ".join(sorted([class_seq(names[i]["name"]), class_seq(names[j]["name"])]))),
             lambda: f"sibling names {info['names'][0]!r} and {info['names'][1]!r} collapse: the class "
                     f"gets {info['props']!r} (the model predicts distinct attributes)",
             lambda: dict(kind="collision", states=[names[i], names[j]], map=info["mi"]))
    elif kind in ("sib", "sib-gen"):
        st = sibs[info["si"]]
        seqs = " | ".join(class_seq(n) or "empty" for n in st["names"] + st["req"])
        if kind == "sib-gen":
            keys = [("generated", "siblings", info.get("reason") or "?")]
        elif not st["ok"] and _sib_model_keys(st):
            # the model loses a name here too (same root cause); only the spelling differs
            keys = _sib_model_keys(st)
        else:
            keys = [("siblings", "drift", seqs)]
        for key in keys:
            viol(key,
                 lambda: f"object with properties {info['names']!r} required {info['req']!r}: "
                         + ("the parsed class" if kind == "sib" else "the class rebuilt from the generated module")
                         + f" has {info['props']!r}: a JSON name is lost" + note,
                 lambda: dict(kind="sib", states=[st], map=info["mi"], observed=info["props"]))
    elif kind in ("title", "doc", "doc-module"):
        st = (titles if kind == "title" else docs)[info["si"]]
        viol(("class-name", clause, who),
             lambda: ("object title %r: " % info.get("title") if kind == "title" else "document: ")
                     + f"classes {[n for n, _ in info['classes']]}"
                     + (" declared by the generated module" if kind == "doc-module" else "")
                     + f": {clause} {who!r}" + note,
             lambda: dict(kind=kind.split("-")[0], states=[st], observed=info["classes"]))


def _sweep(table, names, viol, add_attr_event):
    """every code point alone and in the contexts x?, ?x, x?x, _?_ (class-level predictions)"""
    t0 = time.time()
    tpl = nf.sweep_templates(table, names)
    step = 0x800
    jobs = [(lo, min(lo + step, 0x110000), table.rec, tpl) for lo in range(0, 0x110000, step)]
    parts = drive.pmap(nf.sweep_range, jobs, chunksize=4)
    tot = dict(calls=0, same=0, by_class=Counter(), model_violations={}, drift_signatures=0,
               drift_calls=0)
    drift = {}
    for a in parts:
        tot["calls"] += a["calls"]
        tot["same"] += a["same"]
        tot["by_class"].update(a["by_class"])
        if a["gt_mismatch"]:
            raise MachineryError(f"model verdict differs from the interpreter's: {a['gt_mismatch'][:3]}")
        for key, g in a["model_viol"].items():
            k = ("attr", key[0], key[1])
            viol(k, lambda: f"property name {g['sample'][0]!r} is mapped to {g['sample'][1]!r}: "
                            f"{key[0]} (class {g['cls']} in context {g['ctx']})",
                 lambda: dict(kind="trace", names=[g["sample"][0]], observed=g["sample"][1]),
                 n=g["count"])
            tot["model_violations"]["|".join(k)] = tot["model_violations"].get("|".join(k), 0) + g["count"]
        for key, g in a["drift"].items():
            d = drift.setdefault(key, dict(count=0, sample=g["sample"]))
            d["count"] += g["count"]
    for key, d in drift.items():
        s, real, exp = d["sample"]
        add_attr_event(real, True, kind="sweep", s=s, exp=exp, count=d["count"])
        tot["drift_calls"] += d["count"]
    tot["drift_signatures"] = len(drift)
    tot["by_class"] = dict(tot["by_class"])
    tot["wall"] = round(time.time() - t0, 1)
    return tot
