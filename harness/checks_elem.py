"""Element-level properties on the document family: C17 (equality), C18 (repr), C19 (annotations).

Every exported document state of MC_Doc is parsed by the real parser; observations about the
resulting element trees (and about DSL rebuilds of them, with and without shared instances)
are adjudicated by TLC against PropsElem.tla through Trace_Doc.
"""
import ast
import copy
import json
import time
from collections import Counter

import common
from common import MachineryError
import codec
import drive
import docfamily as df
from docfamily import tlajson_to_tla
from report import Reporter
from checks_doc import _kwsig

MAX_EVENTS = 40000


# ------------------------------------------------------------------ C17 helpers
def _removals(doc, limit=6):
    """documents obtained by removing one keyword at the root or one level down"""
    out = []
    if not isinstance(doc, dict):
        return out
    for k in list(doc):
        d = {x: y for x, y in doc.items() if x != k}
        out.append(("remove:" + k, d))
    for k, v in doc.items():
        if isinstance(v, dict) and k in ("items", "additionalItems", "contains", "additionalProperties",
                                         "propertyNames", "not"):
            for k2 in list(v):
                d = copy.deepcopy(doc)
                del d[k][k2]
                out.append((f"remove:{k}.{k2}", d))
        if isinstance(v, dict) and k in ("properties", "patternProperties"):
            for name, sub in v.items():
                if isinstance(sub, dict):
                    for k2 in list(sub):
                        d = copy.deepcopy(doc)
                        del d[k][name][k2]
                        out.append((f"remove:{k}.{name}.{k2}", d))
    return out[:limit]


def _lookalike(v):
    """JSON literals that Python's == cannot tell from v (True/1/1.0) or that extend it"""
    res = []
    if v is True:
        res += [("bool-number", 1)]
    elif v is False:
        res += [("bool-number", 0)]
    elif isinstance(v, int):
        res += [("int-float", float(v))]
        if v in (0, 1):
            res += [("bool-number", bool(v))]
    elif isinstance(v, float) and v == int(v):
        res += [("int-float", int(v))]
    elif isinstance(v, list):
        res += [("list-longer", v + ["zz"])]
        if v:
            res += [("list-shorter", v[:-1])]
        for i, x in enumerate(v):
            for tag, y in _lookalike(x)[:1]:
                res.append((tag, v[:i] + [y] + v[i + 1:]))
    elif isinstance(v, dict):
        for k, x in v.items():
            for tag, y in _lookalike(x)[:1]:
                res.append((tag, {**v, k: y}))
    return res


LITERAL_KWS = ("const", "enum", "default", "required", "minimum", "maximum", "multipleOf",
               "exclusiveMinimum", "exclusiveMaximum")


def _literal_variants(doc, limit=5):
    out = []
    if not isinstance(doc, dict):
        return out

    def at(d, path):
        for p in path:
            d = d[p]
        return d

    places = [()]
    for k, v in doc.items():
        if isinstance(v, dict) and k in ("items", "contains", "additionalProperties", "not"):
            places.append((k,))
        if isinstance(v, dict) and k == "properties":
            places += [(k, n) for n, s in v.items() if isinstance(s, dict)]
        if isinstance(v, list) and k in ("anyOf", "oneOf", "allOf"):
            places += [(k, i) for i, s in enumerate(v) if isinstance(s, dict)]
    for path in places:
        sub = at(doc, path)
        for k in LITERAL_KWS:
            if k in sub:
                for tag, nv in _lookalike(sub[k]):
                    if k == "required" and not all(isinstance(x, str) for x in nv):
                        continue
                    if k == "multipleOf" and (isinstance(nv, bool) or not nv):
                        continue
                    if k == "enum" and not nv:
                        continue
                    d = copy.deepcopy(doc)
                    at(d, path)[k] = nv
                    out.append((f"{tag}:{'.'.join(map(str, path + (k,)))}", d))
    return out[:limit]


def _list_pairs(doc, limit=6):
    """pairs of documents that differ only in the ORDER or the MULTIPLICITY of the members of one
    list-valued keyword (composition members, tuple items, type lists): (tag, doc_a, doc_b)"""
    out = []
    if not isinstance(doc, dict):
        return out
    places = [((), doc)]
    for k, v in doc.items():
        if isinstance(v, dict) and k in ("items", "contains", "additionalProperties", "not"):
            places.append(((k,), v))
        if isinstance(v, dict) and k == "properties":
            places += [((k, n), s2) for n, s2 in v.items() if isinstance(s2, dict)]

    def put(path, k, nv):
        d = copy.deepcopy(doc)
        t = d
        for p_ in path:
            t = t[p_]
        t[k] = nv
        return d

    for path, sub in places:
        for k in ("anyOf", "oneOf", "allOf", "items", "type"):
            v = sub.get(k)
            if not isinstance(v, list) or len(v) < 2 or v[0] == v[-1]:
                continue
            where = ".".join(map(str, path + (k,)))
            out.append((f"permuted:{where}", doc, put(path, k, v[::-1])))
            if k != "type":     # the metaschema wants type lists unique
                out.append((f"multiplicity:{where}", put(path, k, [v[0]] + v), put(path, k, v + [v[-1]])))
    return out[:limit]


def _substituted(ela, elb):
    """does serialize_json replace `ela` (as the items of an array) by a reference to the
    caller-supplied definition `elb`?  None when not applicable (object classes are references anyway)"""
    from statham.serializers import serialize_json
    from statham.schema.elements import Array
    from statham.schema.elements.meta import ObjectMeta
    if isinstance(ela, ObjectMeta) or isinstance(elb, ObjectMeta):
        return None
    try:
        j = serialize_json(Array(ela), definitions={"d": elb})
        return j.get("items") == {"$ref": "#/definitions/d"}
    except Exception:  # noqa
        return None


def _json_or_none(el):
    from statham.serializers import serialize_json
    try:
        return codec.py_to_tagged(serialize_json(el))
    except Exception:  # noqa
        return None


def replay_c17(state):
    _, pyvals = df.values()
    sj = codec.schema_to_json(state["doc"])
    obs = {"parse": None, "pairs": []}
    kind, el = drive.parse_labelled(sj)
    obs["parse"] = kind
    if kind != "ok":
        return obs
    k2, el2 = drive.parse_labelled(sj)
    try:
        obs["copy"] = dict(self=bool(el == el), ab=bool(el == el2), ba=bool(el2 == el))
    except Exception as exc:  # noqa
        obs["copy"] = dict(self=False, ab=False, ba=False, err=repr(exc)[:100])
    # two independently built copies of a DSL-only shape (an explicit required list next to a
    # required-flagged property that is not in it); ONE of them is serialized (JSON and Python);
    # they must still be equal afterwards
    try:
        import copy as _copy
        from statham.serializers import serialize_json, serialize_python
        rec = drive.project_element(el)
        props = rec["kw"].get("properties") if isinstance(rec["kw"], dict) else None
        flagged = [p["source"] for p in (props or []) if p["required"]]
        if flagged:
            var = _copy.deepcopy(rec)
            var["kw"]["required"] = [n for n in var["kw"].get("required", []) if n != flagged[-1]] or ["zz"]
            x, y = drive.build_element(var), drive.build_element(var)
            before = bool(x == y) and bool(y == x)
            serialize_json(x)
            try:
                serialize_python(x)
            except Exception:  # noqa
                pass
            obs["copy_used"] = dict(self=bool(x == x), ab=before and bool(x == y), ba=before and bool(y == x))
    except ValueError:
        pass
    except Exception as exc:  # noqa
        obs["copy_used"] = dict(self=False, ab=False, ba=False, err=repr(exc)[:100])
    kinds_a = None
    ja = None
    for tag, d in _removals(sj) + _literal_variants(sj):
        kb, elb = drive.parse_labelled(d)
        if kb != "ok":
            continue
        try:
            eqab, eqba = bool(el == elb), bool(elb == el)
        except Exception as exc:  # noqa
            obs["pairs"].append(dict(tag=tag, doc_b=d, err=repr(exc)[:120]))
            continue
        pair = dict(tag=tag, doc_b=d, eqab=eqab, eqba=eqba, subst=_substituted(el, elb))
        if eqab or eqba:
            if kinds_a is None:
                kinds_a = [drive.call(el, v)[0] for v in pyvals]
                ja = _json_or_none(el)
            pair["ka"] = kinds_a
            pair["kb"] = [drive.call(elb, v)[0] for v in pyvals]
            pair["ja"], pair["jb"] = ja, _json_or_none(elb)
        obs["pairs"].append(pair)
    for tag, da, db in _list_pairs(sj):
        (ka_, ela), (kb, elb) = (drive.parse_labelled(da) if da is not sj else (kind, el)), drive.parse_labelled(db)
        if ka_ != "ok" or kb != "ok":
            continue
        try:
            eqab, eqba = bool(ela == elb), bool(elb == ela)
        except Exception as exc:  # noqa
            obs["pairs"].append(dict(tag=tag, doc_b=db, err=repr(exc)[:120]))
            continue
        pair = dict(tag=tag, doc_b=db, eqab=eqab, eqba=eqba, subst=_substituted(ela, elb))
        if da is not sj:
            pair["doc_a"] = da
        if eqab or eqba:
            pair["ka"] = [drive.call(ela, v)[0] for v in pyvals]
            pair["kb"] = [drive.call(elb, v)[0] for v in pyvals]
            pair["ja"], pair["jb"] = _json_or_none(ela), _json_or_none(elb)
        obs["pairs"].append(pair)
    return obs


# ------------------------------------------------------------------ C18 helpers
def _namespace(extra_classes=()):
    from statham.schema import elements as E
    from statham.schema.property import Property
    from statham.schema.constants import NotPassed
    ns = {n: getattr(E, n) for n in dir(E) if not n.startswith("_")}
    ns["Property"] = Property
    ns["NotPassed"] = NotPassed
    for c in extra_classes:
        ns[c.__name__] = c
    return ns


def _repr_obs(el, ns):
    r = repr(el)
    o = {"repr": r[:400], "evaluates": False, "eq": False, "kws": []}
    try:
        o["e"] = drive.project_element(el)
    except ValueError as exc:
        o["skip"] = str(exc)[:100]
        return o
    try:
        tree = ast.parse(r, mode="eval")
        if isinstance(tree.body, ast.Call):
            o["kws"] = [k.arg for k in tree.body.keywords if k.arg]
        rebuilt = eval(compile(tree, "<repr>", "eval"), dict(ns))  # noqa: S307
        o["evaluates"] = True
        o["eq"] = bool(rebuilt == el)
        o["r"] = drive.project_element(rebuilt)
    except Exception as exc:  # noqa
        o["err"] = type(exc).__name__ + ": " + str(exc)[:120]
    return o


def replay_c18(state):
    from statham.schema.elements.meta import ObjectMeta
    from statham.schema.property import Property, _Property
    sj = codec.schema_to_json(state["doc"])
    obs = {"parse": None, "reprs": [], "props": []}
    kind, el = drive.parse_labelled(sj)
    obs["parse"] = kind
    if kind != "ok":
        return obs
    elems = drive.walk_elements(el)
    classes = [c for c in elems if isinstance(c, ObjectMeta)]
    ns = _namespace(classes)
    targets = [x for x in elems if not isinstance(x, ObjectMeta)][:6]
    for t in targets:
        obs["reprs"].append(dict(how="parsed", **_repr_obs(t, ns)))
    # the same tree rebuilt through the DSL with maximal sharing of equal sub-elements
    if targets and not isinstance(el, ObjectMeta):
        try:
            shared = drive.build_element(drive.project_element(el), share={})
            obs["reprs"].append(dict(how="dsl-shared", **_repr_obs(shared, _namespace(
                [c for c in drive.walk_elements(shared) if isinstance(c, ObjectMeta)]))))
        except ValueError:
            pass
    # the representation taken, something BELOW the element changed, the representation taken again
    for t in targets[:2]:
        try:
            import inspect
            below = [x for x in drive.walk_elements(t) if x is not t and not isinstance(x, ObjectMeta)
                     and "description" in inspect.signature(type(x).__init__).parameters]
            if not below:
                continue
            repr(t)
            saved = below[-1].description
            below[-1].description = "changed below"
            try:
                obs["reprs"].append(dict(how="after-nested-change", **_repr_obs(t, ns)))
            finally:
                below[-1].description = saved
        except Exception:  # noqa
            pass
    # one property object declared twice under different names (its JSON name stays the first)
    props0 = getattr(el, "properties", None)
    if isinstance(props0, dict) and props0:
        from statham.schema.elements import Element as _E
        name0, p0 = next(iter(props0.items()))
        try:
            shared_p = Property(p0.element, required=p0.required)
            first = _E(properties={name0: shared_p})
            second = _E(properties={name0 + "_again": shared_p}, minProperties=1)
            for how, x in (("rebound-property-first-owner", first), ("rebound-property-second-owner", second)):
                obs["reprs"].append(dict(how=how, **_repr_obs(x, ns)))
        except Exception as exc:  # noqa: reserved names etc.
            pass
    # literals outside the comfortable range (every document contributes the same few elements:
    # cheap, and they are de-duplicated by their repr text)
    if state.get("size", 9) == 0 or state.get("src") == "seed" and not state.get("doc", {}).get("properties"):
        from statham.schema.elements import Element as _E2, Array as _A2, String as _S2
        big = 10 ** 400
        for mk in (lambda n: _E2(maximum=n), lambda n: _E2(enum=[n, [n]]), lambda n: _A2(_S2(), default=[{"a": n}]),
                   lambda n: _E2(const=-n, multipleOf=1.5), lambda n: _E2(properties={"a": Property(_E2(minimum=n))})):
            try:
                small, huge = mk(7), mk(big)
                o = {"how": "extreme-literal", "repr": "", "evaluates": False, "eq": False, "kws": [],
                     "e": drive.project_element(small)}
                o["r"] = o["e"]      # the structure is that of the small twin; the flags are the huge one's
                try:
                    text = repr(huge)
                    o["repr"] = text[:120]
                    tree = ast.parse(text, mode="eval")
                    if isinstance(tree.body, ast.Call):
                        o["kws"] = [k.arg for k in tree.body.keywords if k.arg]
                    back = eval(compile(tree, "<repr>", "eval"), dict(ns))  # noqa: S307
                    o["evaluates"] = True
                    o["eq"] = bool(back == huge)
                except Exception as exc:  # noqa
                    o["err"] = type(exc).__name__ + ": " + str(exc)[:100]
                    o["repr"] = o["repr"] or "<repr raised>"
                obs["reprs"].append(o)
            except Exception:  # noqa
                pass
    # unbound property wrappers
    props = getattr(el, "properties", None)
    if isinstance(props, dict):
        for name, p in list(props.items())[:3]:
            q = Property(p.element, required=p.required, source=p.source)
            r = repr(q)
            o = {"repr": r[:300], "ok": False}
            try:
                back = eval(r, dict(ns))  # noqa: S307
                o["ok"] = (isinstance(back, _Property) and back == q and back.required == q.required
                           and back.source == q.source and
                           drive.norm_elem(drive.project_element(back.element))
                           == drive.norm_elem(drive.project_element(q.element)))
            except Exception as exc:  # noqa
                o["err"] = type(exc).__name__ + ": " + str(exc)[:120]
            obs["props"].append(o)
    return obs


# ------------------------------------------------------------------ C19 helpers
def _collect_nested(result, top_cls, acc, depth=0):
    """every model instance inside a result: the values its declared properties hold, grouped
    by (class, attribute), with the annotation that class's generated source gives them"""
    from statham.schema.elements import Object
    from statham.schema.constants import NotPassed
    if depth > 8:
        return
    if isinstance(result, Object):
        c = type(result)
        if c is not top_cls:
            for attr, prop in c.properties.items():
                key = (c.__name__, attr)
                if key not in acc:
                    cause = "other"
                    try:
                        for sub in drive.walk_elements(prop.element):
                            cause = _allof_cause(sub, cause)
                        annot = prop.annotation
                    except Exception:  # noqa
                        continue
                    reqd = bool(prop.required) or not isinstance(getattr(prop.element, "default", NotPassed()), NotPassed)
                    acc[key] = dict(annot=annot, reqd=reqd, outs=[], cause=cause)
                try:
                    acc[key]["outs"].append(codec.py_to_tagged(drive.project(result._dict.get(attr, NotPassed()))))
                except Exception:  # noqa
                    pass
        for v in result._dict.values():
            _collect_nested(v, top_cls, acc, depth + 1)
    elif isinstance(result, dict):
        for v in result.values():
            _collect_nested(v, top_cls, acc, depth + 1)
    elif isinstance(result, (list, tuple)):
        for v in result:
            _collect_nested(v, top_cls, acc, depth + 1)


def _type_expr(node):
    """ast of an annotation -> type-expression record (PropsElem.tla)"""
    T = lambda t, a=(), n="": {"t": t, "a": list(a), "n": n}
    if isinstance(node, ast.Constant) and node.value is None:
        return T("None")
    if isinstance(node, ast.Name):
        if node.id in ("Any", "str", "int", "float", "bool"):
            return T(node.id)
        if node.id == "None":
            return T("None")
        if node.id == "List":
            return T("List")
        return T("Class", n=node.id)
    if isinstance(node, ast.Subscript) and isinstance(node.value, ast.Name):
        sl = node.slice
        args = list(sl.elts) if isinstance(sl, ast.Tuple) else [sl]
        if node.value.id in ("List", "Union", "Maybe"):
            return T(node.value.id, [_type_expr(a) for a in args])
    return T("?")


def _annotation_of(cls, attr):
    """annotation text of property `attr` as it appears in the generated source"""
    from statham.serializers import serialize_python
    text = serialize_python(cls)
    for line in text.splitlines():
        s = line.strip()
        if s.startswith(attr + ": ") and " = Property(" in s:
            return s[len(attr) + 2:s.index(" = Property(")], text
    return None, text


def replay_c19(state):
    from statham.schema.constants import NotPassed
    _, pyvals = df.values()
    sj = codec.schema_to_json(state["doc"])
    obs = {"parse": None, "wrappers": []}
    wrappers = [
        ("property", {"type": "object", "title": "W", "properties": {"p": sj}}, lambda v: {"p": v}),
        ("required-property", {"type": "object", "title": "W", "properties": {"p": sj}, "required": ["p"]},
         lambda v: {"p": v}),
        ("array-items", {"type": "object", "title": "W",
                         "properties": {"p": {"type": "array", "items": sj}}}, lambda v: {"p": [v]}),
    ]
    for how, wdoc, mk in wrappers:
        kind, cls = drive.parse_labelled(wdoc)
        obs["parse"] = kind
        if kind != "ok":
            return obs
        try:
            text_annot, text = _annotation_of(cls, "p")
        except Exception as exc:  # noqa
            obs["wrappers"].append(dict(how=how, gen_err=type(exc).__name__ + ": " + str(exc)[:100]))
            continue
        if text_annot is None:
            obs["wrappers"].append(dict(how=how, gen_err="no property line for p"))
            continue
        try:
            ty = _type_expr(ast.parse(text_annot, mode="eval").body)
        except SyntaxError:
            ty = {"t": "?", "a": [], "n": ""}
        prop = cls.properties["p"]
        reqd = bool(prop.required) or not isinstance(getattr(prop.element, "default", NotPassed()), NotPassed)
        outs = []
        skipped = 0
        nested = {}          # (class name, attr) -> dict(annot, reqd, outs): properties of nested classes
        for v in [None] + list(range(len(pyvals))):
            data = {} if v is None else mk(pyvals[v])
            k, r = drive.call(cls, data)
            if k != "ok":
                continue
            try:
                val = drive.project(r._dict.get("p", NotPassed()) if hasattr(r, "_dict") else NotPassed())
                outs.append(codec.py_to_tagged(val))
            except Exception:  # noqa
                skipped += 1
            if how == "property":
                _collect_nested(r, cls, nested)
        cause = "other"
        try:
            from statham.schema.elements import AllOf
            for sub in drive.walk_elements(prop.element):
                cause = _allof_cause(sub, cause)
        except Exception:  # noqa
            pass
        obs["wrappers"].append(dict(how=how, annot=text_annot, ty=ty, reqd=reqd, outs=outs, skipped=skipped,
                                    cause=cause))
        if how == "property":
            # a subclass that adds a required property, declared after its parent was used: the
            # attribute is annotated without Maybe, so no accepted value may leave it not passed
            try:
                from statham.schema.elements.meta import ObjectMeta
                from statham.schema.property import Property
                from statham.schema.elements import String
                parent = prop.element
                if isinstance(parent, ObjectMeta):
                    ns = {"Parent": parent, "Property": Property, "String": String}
                    exec("class Child(Parent):\n    zq = Property(String(), required=True)\n", ns)  # noqa: S102
                    child = ns["Child"]
                    c_annot = child.properties["zq"].annotation
                    c_outs = []
                    for v in pyvals:
                        for data in (v, dict(v, zq="s") if isinstance(v, dict) else None):
                            if data is None:
                                continue
                            k, r = drive.call(child, data)
                            if k == "ok" and hasattr(r, "_dict"):
                                c_outs.append(codec.py_to_tagged(drive.project(r._dict.get("zq", NotPassed()))))
                    obs["wrappers"].append(dict(how="subclass-required-property", annot=c_annot,
                                                ty=_type_expr(ast.parse(c_annot, mode="eval").body), reqd=True,
                                                outs=c_outs[:60], skipped=0, cause="other"))
            except Exception:  # noqa
                pass
        for (cname, attr), info in list(nested.items())[:8]:
            try:
                nty = _type_expr(ast.parse(info["annot"], mode="eval").body)
            except SyntaxError:
                nty = {"t": "?", "a": [], "n": ""}
            obs["wrappers"].append(dict(how=f"nested {cname}.{attr}", annot=info["annot"], ty=nty, reqd=info["reqd"],
                                        outs=info["outs"][:60], skipped=0, cause=info["cause"]))
    return obs


def _allof_cause(sub, cause):
    """Root cause of an unsound AllOf annotation.  The value of an AllOf is built by its FIRST
    member.  Known finding: the first member is untyped (Any) or a Union and the annotation
    names a later member's type.  Anything else (e.g. the annotation overriding an explicitly
    typed first member) is a different cause and is reported."""
    from statham.schema.elements import AllOf
    if not isinstance(sub, AllOf):
        return cause
    first = sub.elements[0].annotation
    if sub.annotation == first:
        return cause
    if first == "Any" or first.startswith("Union"):
        return cause if cause.startswith("allof-annotation-overrides") else \
            "allof-annotation-is-not-its-first-member's"
    return "allof-annotation-overrides-explicitly-typed-first-member"


def inheritance_pairs():
    """C17 on classes that got their keywords by INHERITANCE: a subclass, a flat class with the
    merged declaration (an independently built copy: must be equal) and flat classes with one
    inherited keyword or property dropped (whenever == says equal, verdicts and JSON must agree)."""
    import checks_heap
    from statham.serializers import serialize_json
    lines, _ = df._cached_tlc("heap-bfs", checks_heap._cfg(checks_heap.TIERS["quick"][0]), module="MC_Heap", workers=8)
    init = [s for s in lines if not s["hist"] and s["init"]["values"]][0]
    values = [codec.val_to_py(v) for v in init["init"]["values"]]
    objs = checks_heap._make_heap(init)
    out = []
    for x in ("C", "D", "F"):
        cls = objs[x]
        rec = drive.project_element(cls)
        variants = [("flat-copy", rec)]
        for k in list(rec["kw"]):
            if k == "properties":
                for i in range(len(rec["kw"]["properties"])):
                    v = copy.deepcopy(rec)
                    del v["kw"]["properties"][i]
                    variants.append((f"without-property-{rec['kw']['properties'][i]['attr']}", v))
            else:
                v = copy.deepcopy(rec)
                del v["kw"][k]
                variants.append((f"without-{k}", v))
        ka = [drive.call(cls, v)[0] for v in values]
        try:
            ja = codec.py_to_tagged(serialize_json(cls))
        except Exception:  # noqa
            ja = None
        for tag, vrec in variants:
            other = drive.build_element(vrec)
            try:
                eqab, eqba = bool(cls == other), bool(other == cls)
            except Exception as exc:  # noqa
                out.append(dict(x=x, tag=tag, err=repr(exc)[:100]))
                continue
            kb = [drive.call(other, v)[0] for v in values]
            try:
                jb = codec.py_to_tagged(serialize_json(other))
            except Exception:  # noqa
                jb = None
            out.append(dict(x=x, tag=tag, eqab=eqab, eqba=eqba, ka=ka, kb=kb, ja=ja, jb=jb,
                            must_equal=(tag == "flat-copy")))
    return out


def _annot_obs(st):
    """real annotation of the parsed element (as a required property) as a type expression"""
    from statham.schema.property import Property
    if not st["ok"]:
        return None
    sj = codec.schema_to_json(st["doc"])
    kind, el = drive.parse_labelled(sj)
    if kind != "ok":
        return None
    try:
        text = Property(el, required=True).annotation
        ty = _type_expr(ast.parse(text, mode="eval").body)
    except Exception as exc:  # noqa
        return {"err": type(exc).__name__}
    cause = "other"
    try:
        from statham.schema.elements import AllOf
        for sub in drive.walk_elements(el):
            cause = _allof_cause(sub, cause)
    except Exception:  # noqa
        pass
    return {"ty": ty, "text": text, "cause": cause}


def _anon(ty):
    """type expression with class names blanked (the model names classes before de-duplication)"""
    return {"t": ty["t"], "a": [_anon(a) for a in ty["a"]], "n": "*" if ty["t"] == "Class" else ""}


def annotation_model_part(rep, tier):
    """MC_Ser: TLC checks HasType(value, AnnotOf(element)) for every value the MODEL element
    builds; the real annotation is compared with the model's (equal => TLC's verdict stands)."""
    lines, meta = df._cached_tlc("ser-bfs", df._cfg(df.TIERS[tier]["bfs"], False), module="MC_Ser")
    seeds, smeta = df._cached_tlc("ser-seed", df._cfg(df.TIERS[tier]["seed"], False, "SeedSpec",
                                                       df.TIERS[tier]["seed_levels"]), module="MC_Ser")
    states = lines + seeds
    obs = drive.pmap(_annot_obs, states, chunksize=64)
    drift = flagged = 0
    for st, ob in zip(states, obs):
        if not ob or "err" in ob:
            continue
        if ob["ty"] != st["annot"]:
            drift += 1
            continue
        if st["m19"]:
            flagged += 1
            rep.violation(("C19", "value-not-of-annotated-type", ob["cause"]),
                          f"(design level, real annotation equals the model's) schema "
                          f"{json.dumps(codec.schema_to_json(st['doc']))[:200]} is annotated {ob['text']} "
                          f"but the element builds a value outside that type", dict(state=st))
    return dict(states=meta["distinct"] + smeta["distinct"], transitions=meta["states"] + smeta["states"],
                documents=len(states), drift=drift, model_flagged=flagged)


# ------------------------------------------------------------------ C18: the representation model
def _term(node, as_dict=False):
    """ast of a repr text -> term (Repr.tla): [hd, pos, kws, lit].  as_dict: the node is the
    value of a dict-valued keyword (properties, patternProperties, dependencies) and is read
    as a dict of terms even when all its members are literals."""
    T = lambda hd, pos=(), kws=(), lit=None: {"hd": hd, "pos": list(pos), "kws": [list(x) for x in kws],
                                              "lit": lit if lit is not None else {"k": "null"}}
    if as_dict == "list" and isinstance(node, ast.List):       # tuple items, possibly empty
        return T("list", [_term(x) for x in node.elts])
    if as_dict is True and isinstance(node, ast.Dict):
        return T("dict", kws=[(ast.literal_eval(k), _term(v)) for k, v in zip(node.keys, node.values)])
    if isinstance(node, ast.Call) and isinstance(node.func, ast.Name):
        return T(node.func.id,
                 [_term(a, "list" if node.func.id == "Array" else False) for a in node.args],
                 [(k.arg, _term(k.value, True if k.arg in ("properties", "patternProperties", "dependencies")
                                else "list" if k.arg == "items" else False))
                  for k in node.keywords])
    if isinstance(node, ast.Name) and node.id not in ("True", "False", "None"):
        return T("ref", lit={"k": "str", "v": node.id})
    try:
        return T("lit", lit=codec.py_to_tagged(ast.literal_eval(node)))
    except Exception:  # noqa: not a pure literal
        pass
    if isinstance(node, (ast.List, ast.Tuple)):
        return T("list", [_term(x) for x in node.elts])
    if isinstance(node, ast.Dict):         # a dict holding model instances / NotPassed
        return T("dict", kws=[(ast.literal_eval(k), _term(v)) for k, v in zip(node.keys, node.values)])
    raise ValueError("unreadable repr node " + ast.dump(node)[:80])


def _norm_term(t):
    """dependencies are one dict in the code and two keyword groups in the model (array forms
    first): compare that dict as a mapping; literals in normal form"""
    out = {"hd": t["hd"], "pos": [_norm_term(x) for x in t["pos"]], "kws": [], "lit": t["lit"]}
    if t["hd"] == "lit":
        out["lit"] = codec.norm_tagged(t["lit"])
    for k, v in t["kws"]:
        v = _norm_term(v)
        if k == "dependencies" and v["hd"] == "dict":
            v["kws"] = sorted(v["kws"], key=lambda kv: kv[0])
        out["kws"].append([k, v])
    return out


def _repr_model_obs(state):
    from statham.schema.elements.meta import ObjectMeta
    sj = codec.schema_to_json(state["doc"])
    kind, el = drive.parse_labelled(sj)
    if kind != "ok":
        return {"parse": kind}
    try:
        term = _norm_term(_term(ast.parse(repr(el), mode="eval").body))
        classes = {}
        for c in drive.walk_elements(el):
            if isinstance(c, ObjectMeta):
                classes[c.__name__] = _norm_term(_term(ast.parse(repr(dict(c.properties)), mode="eval").body, True))
    except Exception as exc:  # noqa
        return {"parse": "ok", "err": type(exc).__name__ + ": " + str(exc)[:120], "text": repr(el)[:300]}
    return {"parse": "ok", "term": term, "classes": classes, "text": repr(el)[:300]}


def repr_model_part(rep, tier):
    """MC_Repr: TLC checks, on the MODEL, that evaluating the representation of every element
    of every tree rebuilds that element (ReprRebuilds) and that no keyword is shown twice; the
    real repr() text, read back with ast, is compared with the model's term (equal => TLC's
    verdict stands for the real text)."""
    lines, meta = df._cached_tlc("repr-bfs", df._cfg(df.TIERS[tier]["bfs"], False), module="MC_Repr")
    seeds, smeta = df._cached_tlc("repr-seed", df._cfg(df.TIERS[tier]["seed"], False, "SeedSpec",
                                                        df.TIERS[tier]["seed_levels"]), module="MC_Repr")
    states = lines + seeds
    obs = drive.pmap(_repr_model_obs, states, chunksize=64)
    drift = flagged = compared = class_terms = 0
    first_drift = None
    for st, ob in zip(states, obs):
        if not ob or ob.get("parse") != "ok" or not st["ok"]:
            if ob and st["ok"] != (ob.get("parse") == "ok"):
                drift += 1
            continue
        if "err" in ob:
            rep.violation(("C18", "repr-not-readable"), f"repr text cannot be read back: {ob['text']}: {ob['err']}",
                          dict(state=st))
            continue
        compared += 1
        want = _norm_term(st["term"])
        want_classes = {name: _norm_term(t) for name, t in st["classes"]}
        class_terms += len(want_classes)
        if ob["term"] != want or ob["classes"] != want_classes:
            drift += 1
            if first_drift is None:
                first_drift = dict(schema=codec.schema_to_json(st["doc"]), real=ob["text"],
                                   model=json.dumps(want, default=str)[:400], real_term=json.dumps(ob["term"], default=str)[:400])
            continue
        if st["m18"]:
            flagged += 1
            rep.violation(("C18", "repr-does-not-rebuild", "design"),
                          f"(design level, real repr text equals the model's) evaluating {ob['text']} does not "
                          f"rebuild the element of {json.dumps(codec.schema_to_json(st['doc']))[:200]}", dict(state=st))
    out = dict(states=meta["distinct"] + smeta["distinct"], transitions=meta["states"] + smeta["states"],
               documents=len(states), compared=compared, class_property_dicts=class_terms, drift=drift,
               model_flagged=flagged)
    if first_drift:
        out["first_drift"] = first_drift
    return out



# ------------------------------------------------------------------ driver
def run(pid, tier, replay_file=None):
    t0 = time.time()
    rep = Reporter(pid, tier)
    tagged_values, pyvals = df.values()
    if replay_file:
        payload = json.load(open(replay_file))
        states, info = [payload["state"]], {"replay": replay_file}
    else:
        states, info = df.stage1(tier, pid="doc")
        if tier == "thorough" and len(states) > 40000:      # relational adjudication is the bottleneck
            stride = (len(states) + 39999) // 40000
            states = [x for x in states if x.get("size", 9) <= 2] + \
                     [x for x in states if x.get("size", 9) > 2][::stride]
            info["replayed_stride"] = stride
        if tier == "quick":
            cap = {"C17": 500, "C18": 3000, "C19": 500}[pid]
            step = {"C17": 2, "C18": 1, "C19": 2}[pid]
            states = [s for s in states if s.get("src") == "bfs"][::step] + \
                     [s for s in states if s.get("src") == "seed"] + \
                     [s for s in states if s.get("src") == "sim"][:cap]
    common.use_repo()
    fn = {"C17": replay_c17, "C18": replay_c18, "C19": replay_c19}[pid]
    observations = drive.pmap(fn, states, chunksize=16)

    events, ev_index = [], {}
    nontrivial = set()
    checked = 0
    stats = Counter()

    def add_event(si, tag, text):
        eid = len(ev_index) + 1
        ev_index[eid] = (si, tag)
        if len(events) < MAX_EVENTS:
            events.append((eid, text.replace("@ID@", str(eid))))

    B = lambda b: "TRUE" if b else "FALSE"
    strseq = lambda xs: "<<" + ", ".join(codec.tla_str(x) for x in xs) + ">>"
    NPJ = '[k |-> "np"]'

    def sjson(st):
        return json.dumps(codec.schema_to_json(st["doc"]))[:200]

    for si, (st, ob) in enumerate(zip(states, observations)):
        if ob["parse"] != "ok":
            continue
        if pid == "C17":
            c = ob["copy"]
            checked += 1
            add_event(si, ("copy", None), '[id |-> @ID@, p |-> "C17c", self |-> %s, copyab |-> %s, copyba |-> %s]'
                      % (B(c["self"]), B(c["ab"]), B(c["ba"])))
            if ob.get("copy_used"):
                cu = ob["copy_used"]
                add_event(si, ("copy-used", None), '[id |-> @ID@, p |-> "C17c", self |-> %s, copyab |-> %s, copyba |-> %s]'
                          % (B(cu["self"]), B(cu["ab"]), B(cu["ba"])))
            for pi, pr in enumerate(ob["pairs"]):
                if "err" in pr:
                    rep.violation(("C17", "eq-raises", pr["tag"].split(":")[0]),
                                  f"== raises for {sjson(st)} vs {json.dumps(pr['doc_b'])[:160]}: {pr['err']}",
                                  dict(state=st, pair=pr))
                    continue
                checked += 1
                stats["pairs"] += 1
                if pr.get("subst") is not None and pr["subst"] != pr["eqba"]:
                    add_event(si, ("pair", pi),
                              '[id |-> @ID@, p |-> "C17s", eqba |-> %s, subst |-> %s]' % (B(pr["eqba"]), B(pr["subst"])))
                if pr["eqab"] or pr["eqba"]:
                    stats["equal_pairs"] += 1
                    nontrivial.add((si, pi))
                    ja = tlajson_to_tla(pr["ja"]) if pr.get("ja") else NPJ
                    jb = tlajson_to_tla(pr["jb"]) if pr.get("jb") else NPJ
                    add_event(si, ("pair", pi),
                              '[id |-> @ID@, p |-> "C17", eqab |-> %s, eqba |-> %s, ka |-> %s, kb |-> %s, ja |-> %s, jb |-> %s]'
                              % (B(pr["eqab"]), B(pr["eqba"]), strseq(pr["ka"]), strseq(pr["kb"]), ja, jb))
        elif pid == "C18":
            for ri, o in enumerate(ob["reprs"]):
                if "skip" in o:
                    stats["unprojectable"] += 1
                    continue
                checked += 1
                nontrivial.add(o["repr"])
                r_t = tlajson_to_tla(o["r"]) if "r" in o else tlajson_to_tla(o["e"])
                add_event(si, ("repr", ri),
                          '[id |-> @ID@, p |-> "C18", evaluates |-> %s, eq |-> %s, e |-> %s, r |-> %s, kws |-> %s]'
                          % (B(o["evaluates"]), B(o["eq"]), tlajson_to_tla(o["e"]), r_t, strseq(o["kws"])))
            for o in ob["props"]:
                checked += 1
                if not o["ok"]:
                    rep.violation(("C18", "property-wrapper"),
                                  f"repr of an unbound property wrapper does not rebuild it: {o['repr']} {o.get('err', '')}",
                                  dict(state=st, observed=o))
        elif pid == "C19":
            for wi, w in enumerate(ob["wrappers"]):
                checked += 1
                if "gen_err" in w:
                    stats["generation_failed"] += 1
                    continue
                nontrivial.add((w["annot"], w["how"]))
                outs = "<<" + ", ".join(tlajson_to_tla(x) for x in w["outs"]) + ">>"
                add_event(si, ("wrap", wi), '[id |-> @ID@, p |-> "C19", doc |-> %s, ty |-> %s, reqd |-> %s, outs |-> %s]'
                          % (tlajson_to_tla(st["doc"]), tlajson_to_tla(w["ty"]), B(w["reqd"]), outs))

    inh = []
    if pid == "C17" and not replay_file:
        inh = inheritance_pairs()
        for ii, pr in enumerate(inh):
            if "err" in pr:
                rep.violation(("C17", "eq-raises", "inheritance"), f"== raises for class {pr['x']} vs {pr['tag']}: {pr['err']}", dict(pair=pr))
                continue
            checked += 1
            if pr["must_equal"] and not (pr["eqab"] and pr["eqba"]):
                rep.violation(("C17", "copy-not-equal", "inheritance"),
                              f"class {pr['x']} (keywords and properties obtained by inheritance) is not equal to an "
                              f"independently built flat class with the same declaration: a==b {pr['eqab']}, b==a {pr['eqba']}",
                              dict(pair={k: v for k, v in pr.items() if k not in ('ja', 'jb')}))
            if pr["eqab"] or pr["eqba"]:
                nontrivial.add(("inh", ii))
                ja = tlajson_to_tla(pr["ja"]) if pr.get("ja") else NPJ
                jb = tlajson_to_tla(pr["jb"]) if pr.get("jb") else NPJ
                add_event(-1 - ii, ("inh", ii),
                          '[id |-> @ID@, p |-> "C17", eqab |-> %s, eqba |-> %s, ka |-> %s, kb |-> %s, ja |-> %s, jb |-> %s]'
                          % (B(pr["eqab"]), B(pr["eqba"]), strseq(pr["ka"]), strseq(pr["kb"]), ja, jb))
    adj = dict(events=0, tlc_states=0)
    if events:
        try:
            rejected, adj = df.adjudicate(events, parallel=8)
        except ValueError as exc:
            raise MachineryError(f"cannot encode an observation for TLC: {exc}")
        for eid in sorted(rejected):
            si, (kind, idx) = ev_index[eid]
            clause = rejected[eid]
            if kind == "inh":
                pr = inh[idx]
                rep.violation(("C17", clause, "inheritance"),
                              f"{clause}: class {pr['x']} vs the flat class {pr['tag']}; a==b {pr['eqab']}, b==a {pr['eqba']}",
                              dict(pair={k: v for k, v in pr.items() if k not in ('ja', 'jb')}))
                continue
            st, ob = states[si], observations[si]
            if pid == "C17":
                if kind == "copy":
                    rep.violation(("C17", clause), f"independently parsed copies of {sjson(st)} are not equal: {ob['copy']}",
                                  dict(state=st, observed=ob["copy"]))
                elif kind == "copy-used":
                    rep.violation(("C17", clause, "after-serialization"),
                                  f"two independently built copies (explicit required list + required property) of the element of "
                                  f"{sjson(st)} are no longer equal after ONE of them was serialized: {ob['copy_used']}",
                                  dict(state=st, observed=ob["copy_used"]))
                else:
                    pr = ob["pairs"][idx]
                    cause = pr["tag"].split(":")[0]
                    rep.violation(("C17", clause, cause),
                                  f"{clause}: {json.dumps(pr['doc_a'])[:200] if 'doc_a' in pr else sjson(st)} vs {json.dumps(pr['doc_b'])[:200]} ({pr['tag']}); a==b {pr['eqab']}, b==a {pr['eqba']}",
                                  dict(state=st, pair={k: v for k, v in pr.items() if k not in ('ja', 'jb')}))
            elif pid == "C18":
                o = ob["reprs"][idx]
                rep.violation(("C18", clause, o["how"] if clause != "ok" else ""),
                              f"{clause}: repr {o['repr'][:220]} ({o['how']}; {o.get('err', '')})",
                              dict(state=st, observed={k: v for k, v in o.items() if k not in ('e', 'r')}))
            else:
                w = ob["wrappers"][idx]
                rep.violation(("C19", clause, w.get("cause", "other")),
                              f"{clause}: schema {sjson(st)} under {w['how']} is annotated {w['annot']} "
                              f"but holds {[_short(x) for x in w['outs'] if True][:6]}",
                              dict(state=st, observed=dict(how=w["how"], annot=w["annot"], reqd=w["reqd"])))

    annmodel = {}
    if pid == "C19" and not replay_file:
        annmodel = annotation_model_part(rep, tier)
    reprmodel = {}
    if pid == "C18" and not replay_file:
        reprmodel = repr_model_part(rep, tier)
    bfs, sim, seed = info.get("bfs", {}), info.get("sim", {}), info.get("seed", {})
    if not replay_file and len(nontrivial) < 2:
        raise MachineryError("vacuity: no non-trivial case")
    samples = []
    for si in (1, len(states) // 2, len(states) - 1):
        if 0 <= si < len(states):
            ob = observations[si]
            samples.append(dict(schema=codec.schema_to_json(states[si]["doc"]),
                                observed=json.loads(json.dumps(_sample(ob), default=str))))
    coverage = dict(
        states=int(bfs.get("distinct", 0)) + int(sim.get("distinct", 0)) + int(seed.get("distinct", 0)) + adj.get("tlc_states", 0),
        transitions=int(bfs.get("states", 0)) + int(sim.get("states", 0)) + int(seed.get("states", 0)) + adj.get("events", 0),
        traces_validated_against_impl=len(states) + adj.get("events", 0),
        evaluations=checked, distinct_nontrivial=len(nontrivial),
        rule={"C17": "one case = a pair (document, document with one keyword removed / one literal replaced by a look-alike) or a document parsed twice; non-trivial = pairs the real == calls equal",
              "C18": "one case = one element of a parsed tree (or its DSL rebuild with shared instances, or an unbound property wrapper); non-trivial = distinct repr texts",
              "C19": "one case = a document placed under a property / required property / array items of a model; non-trivial = distinct (annotation, placement) pairs"}[pid],
        samples=samples, exhaustive=False,
        bounds=dict(bfs=bfs.get("consts"), seeds=seed.get("consts"), simulate=sim.get("consts"), values=len(pyvals)),
        tlc=dict(bfs=bfs, seeds=seed, sim=sim, trace_validation=adj), stats=dict(stats),
        events_adjudicated=min(len(ev_index), MAX_EVENTS), events_total=len(ev_index))
    if annmodel:
        coverage["annotation_model"] = annmodel
        coverage["states"] += annmodel["states"]
        coverage["transitions"] += annmodel["transitions"]
        coverage["traces_validated_against_impl"] += annmodel["documents"]
    if reprmodel:
        coverage["repr_model"] = reprmodel
        coverage["states"] += reprmodel["states"]
        coverage["transitions"] += reprmodel["transitions"]
        coverage["traces_validated_against_impl"] += reprmodel["compared"]
    return rep.finish(coverage, time.time() - t0,
                      assumptions=["A1 bounded exhaustiveness", "A7 Draft6.tla is the reference"])


def _annot_shape(ty):
    if ty["t"] in ("List", "Union", "Maybe"):
        return ty["t"] + "[" + ",".join(_annot_shape(a) for a in ty["a"]) + "]"
    return ty["t"]


def _short(x):
    return x.get("k") if isinstance(x, dict) else str(x)


def _sample(ob):
    out = {}
    for k, v in ob.items():
        if k == "pairs":
            out[k] = [{kk: vv for kk, vv in p.items() if kk in ("tag", "eqab", "eqba")} for p in v[:4]]
        elif k == "reprs":
            out[k] = [{kk: vv for kk, vv in p.items() if kk in ("repr", "evaluates", "eq", "how")} for p in v[:3]]
        elif k == "wrappers":
            out[k] = [{kk: vv for kk, vv in p.items() if kk in ("how", "annot", "reqd")} for p in v]
        else:
            out[k] = v
    return out
