"""Regenerates /verif/MANIFEST.json from the table below (single source of truth)."""
import json
import os

VERIF = os.path.dirname(os.path.dirname(os.path.abspath(__file__)))

CHECKS = {
    "C01": dict(
        technique="TLA+ two-layer spec (Draft6 reference + parser/element model), TLC BFS+simulate over schema documents x value universe, every state replayed on the real parser/validator, drift adjudicated by TLC trace validation",
        text="TLC enumerates every schema document within the bound (all pairs of keyword atoms at every position, seeds with 3-4 interacting keywords, random deep documents by -simulate) and evaluates the Draft-6 reference verdict set for each of 51 boundary values; each state is replayed on the real code and the real verdict must lie in the reference set. Exhaustive within the stated bounds, sampled beyond.",
        note="Trusted: Draft6.tla as the meaning of Draft 6 with the three documented deviations (cross-checked against the independently written implementation model on every state); regex family A3; binary-exact numbers A4.",
        ref="5/C01"),
    "C04": dict(
        technique="TLC invariant R_C04 (completeness of the result w.r.t. the input, branch-agnostic) on the implementation model; real results compared with the model's prediction per state, drift adjudicated by TLC on the real result",
        text="For every exported (document, accepted value) the real result is projected and compared with the model's predicted result; TLC has checked R_C04 on that prediction; any differing real result is judged by TLC against R_C04 itself (Trace_Doc).",
        note="R_C04 accepts any composition branch as builder of the result, except that a document that is nothing but an anyOf / a type list must be built by its FIRST accepting member (FirstBranch); every class document is also called through a subclass that adds nothing; Instances.tla / MC_Inst predict instance == and repr (27k results compared); ints restricted to TLC range.",
        ref="5/C04"),
    "C05": dict(
        technique="TLC invariant R_C05 (relational: omitted property = conversion of its default when valid, raw default when not; element called with no value = its own default) on model and on replayed real observations",
        text="All object documents of the family with defaulted properties (plain and renamed, valid/invalid/falsy/nested defaults) x all objects of the universe (subsets of supplied properties); plus every element called with no value.",
        note="Validity of a default is decided by Draft6.tla; conversion is observed on the real code by calling the property's own schema on the default.",
        ref="5/C05"),
    "C10": dict(
        technique="TLC-enumerated documents x values replayed on the real code; outcome kinds outside {return, ValidationError, TypeError} / {element, SchemaParseError family} adjudicated by Trace_Doc (R_C10)",
        text="Every exported state: parse outcome kind and the outcome kind of every call (including the call with no value) must be in the allowed alphabet; plus extreme numbers, deep nesting and unusual strings generated from the spec's extreme classes.",
        note="Termination is observed under a CPU-time limit per state (20 s; independent of machine load). Extreme.tla adds numbers beyond the float range, integers beyond the str-digits limit, regex-dialect constructs, patterns that cannot be joined, schemas nested beyond the recursion budget, unusual names; random documents with extreme numbers are adjudicated too.",
        ref="5/C10"),
    "C20": dict(
        technique="TLC builder action AddUnsupported at every schema position; invariant R_C20 (refused iff an unsupported keyword sits at a schema position; stripped schema parses) on model and replayed on the real parser; $ref cycles through the real CLI path",
        text="6 unsupported keywords inserted at every one of the 13 schema positions of every document of the bound; parse outcome compared with the model and judged by R_C20.",
        note="Reference cycles are realised as files and parsed through json-ref-dict + statham.__main__.",
        ref="5/C20"),
    "C02": dict(
        technique="TLC-enumerated reference graphs (MC_Refs.tla: nodes, $ref edges at every schema position, two files, clashing titles) driven through the real statham.__main__.main; generated module executed and compared with the directly parsed models; facts adjudicated by Trace_Refs (R_C02) incl. Draft6.tla verdicts of the generated root; PyModule.tla / MC_Py predict the module structure (declaration order, class arguments, docstring, property lines) which is compared with the real text read back by ast",
        text="Every document set within the bound (<=3 schema nodes, <=2-3 $ref edges over 6-11 positions, local and cross-file references, diamonds, unreachable definitions, equal explicit titles) goes through the real command-line function; the module must execute with only its own imports, declare every class once and before use, exactly the classes of the direct parse, each equal to it, and the generated root must give the Draft-6 verdict on the value universe.",
        note="'one class per distinct object schema' is judged against the directly parsed tree (bijection by name + equality) AND against the number of object-shaped nodes of the specification's graph; every description of MC_Desc must give a module that executes; statements are analysed with Python's ast; Draft6.tla resolves $ref inside the document set.",
        ref="5/C02"),
    "C03": dict(
        technique="every exported document state parsed, serialized with the real serialize_json, and the document adjudicated by TLC (Meta.tla metaschema, reference resolution, Draft6.tla verdict sets against the element's observed verdicts on the value universe); Serializers.tla / MC_Ser: the same clause checked by TLC on the model's serialize_json, real output compared with the predicted document",
        text="serialize_json output of every element tree of the document family is checked by TLC to be a well-formed Draft-6 schema with resolvable acyclic references that gives, for each of 51 values, the verdict the element itself gave.",
        note="Element trees are the parser's image plus DSL rebuilds; DSL-only shapes (explicit required next to properties, renamed properties) are reached through parsed documents with the same shape; also serialized: with look-alike caller definitions (1 / True), several elements in one call (an inner class first), a subclass after its parent.",
        ref="5/C03"),
    "C06": dict(
        technique="round trips on every exported document state: serialize(parse(doc)) -> parse -> serialize through the real dereferencing path, and the same starting from the DSL rebuild of the MODEL's element (serializer image reached without the parser); exec of generated Python; equalities adjudicated by TLC (C06_Clause); MC_Ser checks the round trip on the model (ToJsonDoc . Parse . materialize) in every state",
        text="J0 = serialize(parse(doc)) and Jm = serialize(DSL(model element)) must both be fixpoints of serialize . parse; executing the generated module must yield classes equal to the parsed ones (real == and structural projection).",
        note="Jm uses the implementation model's Parse(doc) as the description of the normal form, so a parser change that alters the first read is visible.",
        ref="5/C06"),
    "C07": dict(
        technique="TLC reference predicate over skeleton positions (PropsSer.tla SameFacts: defaults and object descriptions of the document vs the parsed element, the serialized document, the executed generated classes) on every exported document state and every reference graph; Docstring.tla (emit/lex model of class docstrings) explored by MC_Desc and replayed",
        text="Defaults (13 literals incl. all falsy ones) at every schema position and on every shape; shared definitions re-parsed through $ref; descriptions over 12 character classes up to length 3 (quick) / 4 (thorough) emitted as docstrings, executed and read back.",
        note="Skeleton paths ignore composition/type-list restructuring; keywords inapplicable to the declared type are outside the normal form.",
        ref="5/C07"),
    "C08": dict(
        technique="Lifecycle.tla heap state machine; TLC checks PureValidate as an action property on the model; every history (BFS <=2-3 steps + simulate) replayed on fresh real objects with a before/after recorder; each recorded step validated against the specification by Trace_Heap",
        text="For every history ending in a validation call: projected heap, deep vars() snapshot (incl. property bindings and UNBOUND_PROPERTY), repr, JSON and Python serializations, equality with a fresh copy and the input value are compared before/after; the call is repeated.",
        note="Heap of three objects (untyped element, class, subclass) with fixed argument sets; results of the document family are additionally probed for aliasing by defacing returned results (C04/C05 runs).",
        ref="5/C08"),
    "C09": dict(
        technique="MC_Refs / MC_Doc documents generated in separate processes under several PYTHONHASHSEED values chosen to realise different set iteration orders; outputs (module text + JSON) adjudicated equal by Trace_Refs",
        text="16 interpreter processes are probed, one per realised iteration order of the composition keywords is kept (>= 6 seeds); every document set (reference graphs, seeds with equally titled objects under anyOf/oneOf/allOf/properties/patternProperties) must give byte-identical output in all of them.",
        note="Determinism is observed, not proved, for the sampled seeds; the model names every set iteration of the code as an explicit choice (DESIGN 5/C09).",
        ref="5/C09"),
    "C13": dict(
        technique="Lifecycle.tla reconfiguration actions; every history replayed on long-lived real objects; Trace_Heap requires each reconfiguration step to change the projected heap exactly as the spec action and each validation to agree with a freshly built object of the same configuration",
        text="All histories of SetKeyword/ClearKeyword/PutProperty/DelProperty/ToggleRequired/Validate up to length 2 (all) and 3 (validate;reconfigure;validate) plus simulated histories of length 7-10, on an element, a class and a subclass.",
        note="Fresh objects are rebuilt through the public DSL from the SPECIFICATION's state; operations: set / clear keyword, put / update / delete / move property, toggle required, replace the members of a composition, validate; targets: untyped element, class, two subclasses, element with tuple items, AnyOf.",
        ref="5/C13"),
    "C11": dict(
        technique="TLA+ state machine of orderer.py (get_children with identity-based seen, insertion-ordered dependency dict, CycleCheck/Pop/Finish) checked by TLC over all digraphs of object classes with every edge placed in rotating keyword positions / wrapper chains; safety invariants in every state and liveness under weak fairness; every terminal state replayed on real classes under a wall-clock timeout, drift adjudicated by TLC trace validation against R_C11",
        text="TLC enumerates every digraph (self-loops included) on <=3 classes (quick) / <=4 classes (thorough) x root sequences (1-3 roots, duplicates) x placement variants (12 keyword positions + allOf, direct class keywords and Array/AnyOf/OneOf/AllOf/Not/Element wrappers up to two deep, same-position variants giving classes of identical shape); invariants: sound prefix, clean refusal, unreachable assertion, shrinking worklist; Terminates under WF without state constraint. Each exported heap is realised as real classes (assigned after creation; acyclic ones also declared with Object.inline) and list(orderer(*roots)) must equal the prediction or be accepted by R_C11 (any valid topological order; SchemaParseError iff the reachable class graph is cyclic; no hang/other exception). Seeded random heaps with 4-8 classes, shared wrappers, non-object roots and wrapper cycles are observed and all adjudicated by Trace_Orderer. Exhaustive over graph shapes within the bound; positions by rotation (every edge meets every position in thorough, n<=3), not every combination.",
        note="Class names unique (orderer's stated assumption). A hang is observed as a 10 s + 20 s wall-clock timeout per call (normal call 3-10 ms). For 4 classes one graph-dependent rotation per labelled graph. Subclass/base-class ordering is outside C11.",
        ref="5/C11"),
    "C12": dict(
        technique="TLA+ two-layer spec (NameClasses implementation model over 15 interpreter-validated character classes + PropsNames reference), TLC BFS over property names, all pairs of a pair universe, titles x library names in use, documents of titled objects; every state replayed on _parse_attribute_name, parse_element/parse and serialize_python+exec under 3 concretisation maps; drift and code-side names (random long names; thorough: every code point in 5 contexts) adjudicated by TLC trace validation",
        text="TLC decides R_C12 for every class sequence up to length 3 (thorough 4), for all pairs of names up to 3 atoms over 18-21 atoms (injectivity, with root-cause derivations), for titles up to 2-3 tokens next to each of 12 library element kinds, and for documents with up to 2-3 titled objects at 11 positions; exhaustive within these bounds, sampled beyond.",
        note="Trusted: the class table (validated per code point against str.isalnum, string.whitespace, unicodedata.name, str.isidentifier of the running interpreter, Unicode 15.0); reserved = dir(object) + keyword.kwlist + _dict; class-name clash judged against the names the generated module actually imports.",
        ref="5/C12"),
    "C14": dict(
        technique="TLA+ interleaving semantics of access programs (Threads.tla): programs generated from the bind protocol (BindProtocol.tla) and programs recorded from the real code by an access monitor; TLC exhaustive over all interleavings of 2-3 calls, candidates exported with their path (TLCExt!Trace) and replayed on real threads through a gate; sampled TLC schedules, pre-emption sweeps at every monitored access / library function entry, free-running threads; every differing observation adjudicated by TLC trace validation against R_C14",
        text="12 element trees (shared sub-elements and properties, model classes with renamed/required/pattern properties, arrays of objects, compositions over classes, container defaults, undeclared keys, formats) x 2-3 threads x accepted/rejected payloads incl. payloads sharing sub-objects, cold and warm trees: TLC explores every interleaving of the recorded access programs (projected on written locations) and of the abstract bind protocol; exhaustive within these bounds, real-thread replays sampled beyond (quick ~6 000, thorough ~90 000 runs). Each run includes a positive control that must be rejected.",
        note="A5: interleavings at the granularity of monitored accesses to pre-existing objects under the GIL; C-level caches and reads of class attributes through model instances are not monitored. The tree clause tolerates states a sequential run of the same calls also leaves (C08's matter).",
        ref="5/C14"),
    "C15": dict(
        technique="Lifecycle.tla Merge (ObjectMeta.__new__) and ParentIsolated action property checked by TLC; real subclass D(C) compared with the spec's merge, with a flat class, and parent observables compared around every child operation by Trace_Heap",
        text="Subclass with overridden keyword, overridden and added properties; every child operation (define, validate, keyword reassignment, property add/replace/remove, in-place mutation of an inherited property) must leave the parent's projection, verdicts and JSON unchanged; child == flat merged class in verdicts and JSON; instances are instances of the parent.",
        note="One parent/child declaration per run (keywords inherited and overridden); in-place mutation of inherited dict-valued keywords is not generated.",
        ref="5/C15"),
    "C16": dict(
        technique="TLA+ registry state machine (Formats.tla: Register/Check over registry, history variable) checked by TLC; every complete history replayed on the real format_checker through String/Element(format=) with outcome and warnings compared after every step; RFC 3339 / canonical-UUID strings generated by a TLA+ field-choice builder and validated; drift adjudicated by Trace_Formats (registry inferred from recorded Register events) against R_C16",
        text="All histories of Register/Check up to length 4 (quick) / 5-6 on reduced alphabets + simulated length 10 (thorough) over 3 names x 4 checkers x 6-11 values incl. the pre-registered built-in; every generated date-time/uuid string within 2 (quick) / 9 and 4 (thorough) field substitutions of the base strings. Exhaustive within the stated bounds, sampled beyond.",
        note="Format names other than uuid are introduced in canonical order (fresh concrete names per behaviour); abstract checkers are pure; date-time/uuid acceptance claimed for the generated grammars only (second 60 only at real leap seconds, UTC-representable instants); R_C16 is in Formats.tla.",
        ref="5/C16"),
    "C17": dict(
        technique="pairs of documents one insertion / one literal apart (builder edges of MC_Doc and look-alike literals True/1/1.0, longer/shorter lists) parsed on the real code; ==, verdict vectors and JSON adjudicated by TLC (PropsElem.tla C17_Clause: symmetry, congruence with validation and serialization), independent copies equal",
        text="For every exported document: the element vs itself, vs an independently parsed copy, vs every document with one keyword removed (root and one level down) and vs look-alike literal variants; whenever == says equal, the 48 verdicts and the inlined, title-free JSON documents must coincide.",
        note="Pairs are neighbours in the builder graph (one keyword removed, one literal replaced by a Python look-alike, members permuted or repeated, inheritance pairs), not all pairs; the serializer's use of == (caller definitions) is checked on the same pairs.",
        ref="5/C17"),
    "C18": dict(
        technique="repr of every element of every parsed tree (and of its DSL rebuild with shared instances, and of unbound property wrappers) evaluated in a namespace of the public classes; rebuilt tree adjudicated by TLC (ElemSame, keyword presence) ",
        text="eval(repr(e)) must be == e and structurally identical (type-exact literals); keyword arguments shown = keywords differing from the constructor default.",
        note="Bound properties are covered through their enclosing element (their repr omits source by design when it equals the name); Repr.tla / MC_Repr: TLC checks EvalTerm(ReprOf(x)) = x for every element of every tree and the real repr text (read back with ast) equals the model's term; repr is also taken again after a change below the element and for one property object declared under two names.",
        ref="5/C18"),
    "C19": dict(
        technique="every exported document placed under a property, a required property and array items of a model through the real parser; annotation text taken from the generated source, parsed to a type expression and adjudicated by TLC (HasType) against the runtime values of all accepted inputs; Annot.tla / MC_Ser: HasType(model value, model annotation) checked in every state, real annotation compared with the predicted one",
        text="HasType reads the annotation as a type checker (List element types, Union members, NotPassed only under Maybe, int under float); non-Maybe annotations require required-or-defaulted and presence.",
        note="Documents with a default invalid for its schema are outside the property's quantifier (AllDefaultsValid).",
        ref="5/C19"),
}


def main():
    path = os.path.join(VERIF, "MANIFEST.json")
    props = [json.loads(l)["id"] for l in open(os.path.join(VERIF, "properties.jsonl"))]
    checks = []
    for pid in props:
        if pid not in CHECKS:
            continue
        c = CHECKS[pid]
        checks.append({
            "property_id": pid,
            "quick_cmd": f"./check {pid} --tier quick",
            "thorough_cmd": f"./check {pid} --tier thorough",
            "evidence_file": f"/verif/evidence/{pid}.json",
            "replay_cmd_template": f"./check {pid} --replay {{path}}",
            "engine": "tlc",
            "level_claimed": {"category": "model_checking", "text": c["text"],
                              "design_ref": "DESIGN.md section " + c["ref"]},
            "level_note": c["note"],
            "technique": c["technique"],
        })
    na = [{"property_id": p, "reason": "check still under construction in this round; not yet claimed"}
          for p in props if p not in CHECKS]
    m = {
        "version": 1,
        "setup_cmd": "./setup.sh",
        "hooks": {
            "guard": "STATHAM_SCHEMA_VERIF",
            "enable": "no source hooks: recorders and monitors are installed from the harness process by wrapping public functions; the guard name is reserved",
            "baseline_off_cmd": "cd /repo && /venv/bin/python -m pytest -ra -q -p no:cacheprovider --timeout=900 --continue-on-collection-errors",
            "source_commits": [],
            "add_only": True,
        },
        "engines": [{"name": "tlc", "path": "/usr/local/bin/tlc",
                     "serves_properties": sorted(CHECKS),
                     "kind_free_text": "TLC 1.8 explicit-state model checker on /verif/spec/*.tla; replay and trace-validation harness in /verif/harness"}],
        "checks": checks,
        "not_applicable": na,
        "notes": "exit 2 = machinery failure (never a verdict). TLC exports are cached under .cache/ keyed by spec+cfg hash (they do not depend on the repository); replay always runs against $VERIF_REPO (default /repo) working tree.",
    }
    with open(path, "w") as fh:
        json.dump(m, fh, indent=1)
    print("wrote", path, len(checks), "checks")


if __name__ == "__main__":
    main()
