"""Regenerates /verif/MANIFEST.json from the table below (single source of truth)."""
import json
import os

VERIF = os.path.dirname(os.path.dirname(os.path.abspath(__file__)))

CHECKS = {
    "C01": dict(
        technique="TLA+ two-layer spec (Draft6 reference + parser/element model), TLC BFS+simulate over schema documents x value universe, every state replayed on the real parser/validator, drift adjudicated by TLC trace validation",
        text="TLC enumerates every schema document within the bound (all pairs of keyword atoms at every position, seeds with 3-4 interacting keywords, random deep documents by -simulate) and evaluates the Draft-6 reference verdict set for each of 48 boundary values; each state is replayed on the real code and the real verdict must lie in the reference set. Exhaustive within the stated bounds, sampled beyond.",
        note="Trusted: Draft6.tla as the meaning of Draft 6 with the three documented deviations (cross-checked against the independently written implementation model on every state); regex family A3; binary-exact numbers A4.",
        ref="5/C01"),
    "C04": dict(
        technique="TLC invariant R_C04 (completeness of the result w.r.t. the input, branch-agnostic) on the implementation model; real results compared with the model's prediction per state, drift adjudicated by TLC on the real result",
        text="For every exported (document, accepted value) the real result is projected and compared with the model's predicted result; TLC has checked R_C04 on that prediction; any differing real result is judged by TLC against R_C04 itself (Trace_Doc).",
        note="R_C04 accepts any composition branch as builder of the result; ints restricted to TLC range.",
        ref="5/C04"),
    "C05": dict(
        technique="TLC invariant R_C05 (relational: omitted property = conversion of its default when valid, raw default when not; element called with no value = its own default) on model and on replayed real observations",
        text="All object documents of the family with defaulted properties (plain and renamed, valid/invalid/falsy/nested defaults) x all objects of the universe (subsets of supplied properties); plus every element called with no value.",
        note="Validity of a default is decided by Draft6.tla; conversion is observed on the real code by calling the property's own schema on the default.",
        ref="5/C05"),
    "C10": dict(
        technique="TLC-enumerated documents x values replayed on the real code; outcome kinds outside {return, ValidationError, TypeError} / {element, SchemaParseError family} adjudicated by Trace_Doc (R_C10)",
        text="Every exported state: parse outcome kind and the outcome kind of every call (including the call with no value) must be in the allowed alphabet; plus extreme numbers, deep nesting and unusual strings generated from the spec's extreme classes.",
        note="Termination is observed under a wall-clock limit per state.",
        ref="5/C10"),
    "C20": dict(
        technique="TLC builder action AddUnsupported at every schema position; invariant R_C20 (refused iff an unsupported keyword sits at a schema position; stripped schema parses) on model and replayed on the real parser; $ref cycles through the real CLI path",
        text="6 unsupported keywords inserted at every one of the 13 schema positions of every document of the bound; parse outcome compared with the model and judged by R_C20.",
        note="Reference cycles are realised as files and parsed through json-ref-dict + statham.__main__.",
        ref="5/C20"),
}


def main():
    path = os.path.join(VERIF, "MANIFEST.json")
    props = [json.loads(l)["id"] for l in open(os.path.join(VERIF, "properties.jsonl"))]
    checks = []
    for pid in props:
        if pid not in CHECKS:
            continue
        c = CHECKS[pid]
        checks.append({
            "property_id": pid,
            "quick_cmd": f"./check {pid} --tier quick",
            "thorough_cmd": f"./check {pid} --tier thorough",
            "evidence_file": f"/verif/evidence/{pid}.json",
            "replay_cmd_template": f"./check {pid} --replay {{path}}",
            "engine": "tlc",
            "level_claimed": {"category": "model_checking", "text": c["text"],
                              "design_ref": "DESIGN.md section " + c["ref"]},
            "level_note": c["note"],
            "technique": c["technique"],
        })
    na = [{"property_id": p, "reason": "check still under construction in this round; not yet claimed"}
          for p in props if p not in CHECKS]
    m = {
        "version": 1,
        "setup_cmd": "./setup.sh",
        "hooks": {
            "guard": "STATHAM_SCHEMA_VERIF",
            "enable": "no source hooks: recorders and monitors are installed from the harness process by wrapping public functions; the guard name is reserved",
            "baseline_off_cmd": "cd /repo && /venv/bin/python -m pytest -ra -q -p no:cacheprovider --timeout=900 --continue-on-collection-errors",
            "source_commits": [],
            "add_only": True,
        },
        "engines": [{"name": "tlc", "path": "/usr/local/bin/tlc",
                     "serves_properties": sorted(CHECKS),
                     "kind_free_text": "TLC 1.8 explicit-state model checker on /verif/spec/*.tla; replay and trace-validation harness in /verif/harness"}],
        "checks": checks,
        "not_applicable": na,
        "notes": "exit 2 = machinery failure (never a verdict). TLC exports are cached under .cache/ keyed by spec+cfg hash (they do not depend on the repository); replay always runs against $VERIF_REPO (default /repo) working tree.",
    }
    with open(path, "w") as fh:
        json.dump(m, fh, indent=1)
    print("wrote", path, len(checks), "checks")


if __name__ == "__main__":
    main()
