"""Name family (MC_Names): C12 -- every JSON name maps to a usable, unambiguous Python name.

Stage 1  TLC enumerates (MC_Names.tla) property names as sequences of character-class atoms,
         sibling sets, object titles next to a library name in use, and documents of titled
         objects; for each state it exports the implementation model's prediction
         (NameClasses.tla) and the verdict of the reference predicate (PropsNames.tla); for every
         name of the pair universe it lists all other names mapped to the same attribute together
         with the derivations that meet (root-cause signature).
Stage 2  every state is concretised (each symbolic member by several code points) and replayed on
         the real functions AND through the real parser and code generator.
Stage 3  observations that differ from the prediction (drift), plus names recorded from the code
         side (random long names, the code-point sweep), are abstracted with the class table and
         adjudicated by TLC against the reference predicate (Trace_Names.tla).

The class table is the single source of truth for what the model knows about a character; it is
validated against the running interpreter (str.isalnum, string.whitespace, unicodedata.name,
str.isidentifier) for every code point that is used.
"""
import ast
import copy
import gzip
import hashlib
import json
import keyword
import os
import random
import re
import string
import time
import unicodedata

import common
from common import run_tlc, MachineryError, VERIF, SPEC, SEED
from codec import tla_str

CACHE = os.path.join(VERIF, ".cache")
MODULES = ("Names.tla", "NameClasses.tla", "PropsNames.tla", "MC_Names.tla")

CONSTS = ("MaxLen", "WideLen", "PairLen", "Rich", "MaxTitle", "UseLen", "MaxSlots")
TIERS = {
    "quick": dict(MaxLen=3, WideLen=3, PairLen=3, Rich="FALSE", MaxTitle=2, UseLen=2, MaxSlots=2,
                  trace_names=600, trace_len=8),
    "thorough": dict(MaxLen=4, WideLen=3, PairLen=3, Rich="TRUE", MaxTitle=3, UseLen=2, MaxSlots=3,
                     trace_names=20000, trace_len=10),
}

# ------------------------------------------------------------------ concretisation
NMAPS = 3
MEMBERS = {          # symbolic member -> one code point per concretisation map
    "tab": ["\t", "\r", "\x0c"], "nl": ["\n", "\x0b", "\t"],
    "u1": ["\x00", "\x7f", "\ud800"], "u2": ["\x01", "\ue000", "\U0010ffff"],
    "l1": ["\u00e9", "\u65e5", "\u00b5"],          # e-acute, CJK, micro sign
    "n1": ["\u00b2", "\u2460", "\u00bd"],          # superscript two, circled one, one half
    "d1": ["\u0663", "\uff10", "\u0966"],          # arabic-indic 3, fullwidth 0, devanagari 0
    # named members: the model knows their Unicode name, so they are fixed
    "acute": ["\u0301"] * 3, "middot": ["\u00b7"] * 3, "hbasa": ["\u073c"] * 3,
    "scriptp": ["\u2118"] * 3, "plusminus": ["\u00b1"] * 3, "nbsp": ["\u00a0"] * 3,
    "laquo": ["\u00ab"] * 3, "euro": ["\u20ac"] * 3, "vs17": ["\U000e0100"] * 3,
    # letters that NFKC maps onto each other (the compiler normalises identifiers)
    "micro": ["\u00b5"] * 3, "mu": ["\u03bc"] * 3,
}
ASCII_VARIANTS = [{}, {"x": "Q", "1": "7"}, {"x": "k", "1": "0"}]
ASCII_CLASSES = ("al", "dg", "us", "hy", "sp")


def is_ascii_atom(a):
    return a["c"] in ASCII_CLASSES or (a["c"] in ("sym", "hsym") and len(a["s"]) == 1)


def atom_text(a, mi, vary=True):
    if is_ascii_atom(a):
        return ASCII_VARIANTS[mi].get(a["s"], a["s"]) if vary else a["s"]
    try:
        return MEMBERS[a["s"]][mi]
    except KeyError:
        raise MachineryError(f"no concretisation for member {a}")


def conc(seq, mi, vary=True):
    return "".join(atom_text(a, mi, vary) for a in seq)


def conc_items(items, name, mi):
    """the model's predicted output text under concretisation map mi"""
    out = []
    for it in items:
        if it["k"] == "in" and it["c"] == it["f"]:
            out.append(atom_text(name[it["o"] - 1], mi))
        else:
            out.append(it["s"])
    return "".join(out)


_BRACE = re.compile(r"\{(\w+)\}")


def conc_flat(flat, mi):
    """a flattened model string ("a_{l1}") under map mi (ASCII text is not varied)"""
    return _BRACE.sub(lambda m: MEMBERS[m.group(1)][mi], flat)


def flat_name(seq):
    return "".join(a["s"] if is_ascii_atom(a) else "{" + a["s"] + "}" for a in seq)


def class_seq(seq):
    return " ".join(a["c"] if not (a["c"] == "al" and len(a["s"]) > 1) else "w:" + a["s"]
                    for a in seq)


def esc(s):
    """injective pure-ASCII rendering of any str (for TLA+ string literals)"""
    return s.encode("unicode_escape").decode("ascii")


# ------------------------------------------------------------------ class table
class Table:
    """The model's tables as exported by TLC, bound to the running interpreter."""

    def __init__(self, rec):
        self.rec = rec
        self.attr = rec["classattr"]
        self.by_tuple = {}
        for cid, a in self.attr.items():
            key = self._key(a["alnum"], a["sep"], a["ws"], a["named"], a["ascl"], a["ascd"], a["xs"], a["xc"])
            if key in self.by_tuple:
                raise MachineryError(f"classes {cid} and {self.by_tuple[key]} are indistinguishable")
            self.by_tuple[key] = cid
        self.reserved = set(rec["reserved"])
        self.keywords = set(rec["keywords"])
        self.gen = set(rec["gen"])
        self.uses = {k: set(v) for k, v in rec["uses"].items()}
        self.reps = rec["reps"]
        self._cache = {}

    @staticmethod
    def _key(alnum, sep, ws, named, ascl, ascd, xs, xc):
        # the code consults the predicates in this order; later ones are not looked at
        if alnum:
            return ("alnum", ascl, ascd, xs, xc)
        if sep:
            return ("sep", ws, xs, xc)
        if ws:
            return ("ws", xs, xc)
        return ("named", named, xs, xc)

    def attrs_of(self, ch):
        """attributes of a character, from the interpreter (ground truth)"""
        alnum = ch.isalnum()
        sep = ch in ("_", "-", " ")
        ws = ch in string.whitespace
        nm = unicodedata.name(ch, None)
        named = "none" if nm is None else ("hyph" if "-" in nm else "words")
        ascl = ch in string.ascii_letters
        ascd = ch in string.digits
        xs = ch.isidentifier()
        xc = ("a" + ch).isidentifier()
        return self._key(alnum, sep, ws, named, ascl, ascd, xs, xc)

    def classify(self, ch):
        c = self._cache.get(ch)
        if c is None:
            key = self.attrs_of(ch)
            c = self.by_tuple.get(key)
            if c is None:
                raise MachineryError(
                    f"class table incomplete: U+{ord(ch):04X} has attributes {key} that fit no class")
            self._cache[ch] = c
        return c

    def classes(self, s):
        return [self.classify(ch) for ch in s]

    def is_ident_classes(self, cs):
        return bool(cs) and self.attr[cs[0]]["xs"] and all(self.attr[c]["xc"] for c in cs)

    def validate(self):
        """the tables the model relies on vs the running interpreter"""
        import builtins  # noqa
        gt_reserved = set(dir(object)) | set(keyword.kwlist) | {"_dict"}
        if self.reserved != gt_reserved:
            raise MachineryError("Names.tla Reserved differs from dir(object)+keyword.kwlist+_dict: "
                                 f"{sorted(self.reserved ^ gt_reserved)}")
        if self.keywords != set(keyword.kwlist):
            raise MachineryError("Names.tla PyKeywords differs from keyword.kwlist")
        for a in self.rec["atoms"]:
            for mi in range(NMAPS):
                txt = atom_text(a, mi)
                for ch in txt:
                    got = self.classify(ch)
                    want = a["c"]
                    if got != want and not (want in ("al", "dg") and len(a["s"]) > 1 and got in ("al", "dg")):
                        raise MachineryError(f"atom {a} concretised as {txt!r} is of class {got}")
                if a["c"] in ("al",) and not (txt.isalnum() and txt[0] in string.ascii_letters
                                              and txt[-1] in string.ascii_letters + string.digits):
                    raise MachineryError(f"word atom {a} is not an ASCII alphanumeric block")
        for u in self.rec["unames"]:
            a = u["a"]
            for mi in range(NMAPS):
                ch = atom_text(a, mi)
                real = unicodedata.name(ch, "unknown").lower()
                if real != u["uname"]:
                    raise MachineryError(f"UniName({a}) = {u['uname']!r} but unicodedata says {real!r}")
        for c, rep in self.reps.items():
            if rep["c"] != c:
                raise MachineryError(f"Rep({c}) is of class {rep['c']}")
        return True

    def library_names_missing(self):
        """names a generated module can import that GenNames does not list (reported in the
        evidence: the model would not flag a title formatting to one of them)"""
        import inspect
        import statham.schema.elements as els
        from statham.schema.elements import Element
        from statham.schema.elements.meta import ObjectMeta
        real = {"Any", "List", "Union", "Maybe", "Property"}
        for n, v in vars(els).items():
            if inspect.isclass(v) and (issubclass(v, Element) or isinstance(v, ObjectMeta)) \
                    and n != "CompositionElement":
                real.add(n)
        return sorted(real - self.gen)


def label_of(ch):
    """what the model's "lab" group of a character concretises to"""
    return re.sub("[ -]", "_", unicodedata.name(ch, "unknown").lower())


# ------------------------------------------------------------------ stage 1
def _cfg(t):
    lines = ["CONSTANTS"]
    for k in CONSTS:
        lines.append(f" {k} = {t[k]}")
    lines += ["SPECIFICATION Spec", "INVARIANT Inv", "CHECK_DEADLOCK FALSE"]
    return "\n".join(lines) + "\n"


def _spec_hash():
    h = hashlib.sha1()
    for fn in MODULES:
        h.update(fn.encode())
        h.update(open(os.path.join(SPEC, fn), "rb").read())
    return h


def stage1(tier):
    """TLC's enumeration does not depend on the repository: cached by spec+cfg hash."""
    t = TIERS[tier]
    cfg = _cfg(t)
    h = _spec_hash()
    h.update(cfg.encode())
    path = os.path.join(CACHE, f"names-{h.hexdigest()[:20]}.jsonl.gz")
    if os.path.exists(path) and not os.environ.get("VERIF_NOCACHE"):
        with gzip.open(path, "rt") as fh:
            meta = json.loads(fh.readline())
            lines = [json.loads(l) for l in fh]
        meta["cached"] = True
    else:
        res = run_tlc("MC_Names", cfg, coverage=False, timeout=3000)
        if not res.ok:
            raise MachineryError("TLC failed on MC_Names:\n" + res.raw_tail[-3000:])
        lines = res.lines
        meta = dict(states=res.states, distinct=res.distinct, depth=res.depth,
                    wall=round(res.wall, 1), cached=False)
        os.makedirs(CACHE, exist_ok=True)
        tmp = path + ".tmp%d" % os.getpid()
        with gzip.open(tmp, "wt") as fh:
            fh.write(json.dumps(meta) + "\n")
            for l in lines:
                fh.write(json.dumps(l) + "\n")
        os.replace(tmp, path)
    by = {"name": [], "sib": [], "title": [], "doc": [], "table": []}
    for l in lines:
        by[l["t"]].append(l)
    if len(by["table"]) != 1:
        raise MachineryError("MC_Names did not export its tables exactly once")
    if meta["distinct"] != len(lines) - 1:
        raise MachineryError(f"exported {len(lines) - 1} states, TLC reports {meta['distinct']}")
    meta["consts"] = {k: t[k] for k in CONSTS}
    return by, meta


# ------------------------------------------------------------------ stage 2 (worker side)
_TABLE = None


def set_table(rec):
    global _TABLE
    _TABLE = Table(rec)
    return _TABLE


MAPPER = "statham.schema.parser._parse_attribute_name"


def _fn():
    """the name mapping under test: the private function when it exists, else what the public
    parser does to a single property name (a refactor that moves the function is not a failure)"""
    global MAPPER
    try:
        from statham.schema.parser import _parse_attribute_name
        return _parse_attribute_name
    except ImportError:
        from statham.schema.parser import parse_element
        MAPPER = "parse_element (single property)"

        def via_parser(s):
            cls = parse_element({"type": "object", "title": "T", "properties": {s: {}}})
            return next(iter(cls.properties))
        return via_parser


def nfkc(s):
    return unicodedata.normalize("NFKC", s)


def _class_props(cls):
    return [(k, p.source, bool(p.required)) for k, p in cls.properties.items()]


def _exec_module(code):
    """compile and execute a generated module; returns (namespace|None, error text)"""
    try:
        ns = {}
        exec(compile(code, "<generated>", "exec"), ns)  # noqa: S102 - generated by the code under test
        return ns, ""
    except BaseException as exc:  # noqa
        return None, f"{type(exc).__name__}: {exc}"[:160]


def _usable(attr):
    return attr.isidentifier() and not keyword.iskeyword(attr)


def observe_props(names, req, generate=True):
    """parse an object schema with these property names; read the class back, generate code,
    execute it, read the generated class back"""
    from statham.schema.parser import parse_element
    from statham.serializers.python import serialize_python
    schema = {"type": "object", "title": "T",
              "properties": {n: {"type": "string"} for n in names}}
    if req:
        schema["required"] = list(req)
    ob = {"props": None, "gen": None, "err": ""}
    try:
        cls = parse_element(schema)
        ob["props"] = _class_props(cls)
        # the same object reached through a type list: the parser walks the schema once per
        # type, so the property table is parsed and then met again in its parsed form.  The
        # claim holds for this form of the document too: when it deviates, it is the one observed.
        try:
            alt = parse_element(dict(copy.deepcopy(schema), type=["object", "null"]))
            props2 = _class_props(alt.elements[0])
            if props2 != ob["props"]:
                ob["props"], ob["form"] = props2, "type-list"
        except Exception as exc:  # noqa
            ob["err"] = f"parse (type list): {type(exc).__name__}: {exc}"[:160]
            ob["props"] = None
            return ob
    except Exception as exc:  # noqa
        ob["err"] = f"parse: {type(exc).__name__}: {exc}"[:160]
        return ob
    if generate and all(_usable(a) for a, _, _ in ob["props"]):
        try:
            code = serialize_python(cls)
        except Exception as exc:  # noqa
            ob["err"] = f"serialize: {type(exc).__name__}: {exc}"[:160]
            return ob
        ns, err = _exec_module(code)
        if ns is None or "T" not in ns:
            ob["err"] = "generated: " + err
        else:
            ob["gen"] = _class_props(ns["T"])
    return ob


def replay_name(st):
    fn = _fn()
    name = st["name"]
    res = []
    for mi in range(NMAPS):
        s = conc(name, mi)
        exp = conc_items(st["out"], name, mi)
        try:
            real = fn(s)
        except Exception as exc:  # noqa
            res.append(dict(s=s, exp=exp, real=None, err=f"{type(exc).__name__}: {exc}"[:160]))
            continue
        # the generated module is rebuilt under map 0, and under every map for short names
        ob = observe_props([s], [], generate=(mi == 0 or len(name) <= 2))
        res.append(dict(s=s, exp=exp, real=real, props=ob["props"], gen=ob["gen"], err=ob["err"]))
    return res


def replay_sib(st):
    res = []
    for mi in range(NMAPS):
        names = [conc(n, mi, vary=False) for n in st["names"]]
        req = [conc(n, mi, vary=False) for n in st["req"]]
        ob = observe_props(names, req)
        pred = sorted((conc_flat(p["attr"], mi), conc(p["source"], mi, vary=False), bool(p["required"]))
                      for p in st["props"])
        res.append(dict(names=names, req=req, pred=pred, props=ob["props"], gen=ob["gen"],
                        err=ob["err"]))
    return res


USE_SCHEMAS = {
    "none": None,
    "String": {"type": "string"}, "Integer": {"type": "integer"}, "Number": {"type": "number"},
    "Boolean": {"type": "boolean"}, "Null": {"type": "null"}, "Array": {"type": "array"},
    "Element": {"minLength": 1}, "Nothing": False,
    "AnyOf": {"anyOf": [{"type": "string"}, {"type": "integer"}]},
    "OneOf": {"oneOf": [{"type": "string"}, {"type": "integer"}]},
    "AllOf": {"allOf": [{"minLength": 1}, {"maxLength": 3}]},
    "Not": {"not": {"type": "string"}},
}
SHAPES = {1: {"p": {"type": "string"}}, 2: {"q": {"type": "integer"}}}


def _obj(title, shape):
    import copy
    return {"type": "object", "title": title, "properties": copy.deepcopy(SHAPES[shape])}


def module_facts(code):
    """class names declared, names imported (ast when the text parses, else the import lines)"""
    facts = {"compiles": True, "classdefs": None, "imported": set()}
    try:
        tree = ast.parse(code)
        facts["classdefs"] = [n.name for n in tree.body if isinstance(n, ast.ClassDef)]
        for n in tree.body:
            if isinstance(n, ast.ImportFrom):
                facts["imported"] |= {a.asname or a.name for a in n.names}
    except SyntaxError:
        facts["compiles"] = False
        head = code.split("\nclass ", 1)[0]
        for m in re.finditer(r"import\s+\(?([^)]*?)\)?\s*(?:\n\n|\nfrom|\Z)", head, re.S):
            facts["imported"] |= {x.strip() for x in re.split(r"[,\s]+", m.group(1)) if x.strip()}
    return facts


def walk_classes(roots):
    """every object class reachable from the parsed roots (own attribute walk)"""
    import drive
    from statham.schema.elements.meta import ObjectMeta
    seen, out = set(), []
    for r in roots:
        for e in drive.walk_elements(r):
            if isinstance(e, ObjectMeta) and id(e) not in seen:
                seen.add(id(e))
                out.append(e)
    return out


def _parse_doc(doc):
    from statham.schema.parser import parse
    from statham.serializers.python import serialize_python
    import copy
    ob = {"err": "", "roots": None, "code": None}
    try:
        ob["roots"] = parse(copy.deepcopy(doc))      # the parser rewrites the dict in place
    except Exception as exc:  # noqa
        ob["err"] = f"parse: {type(exc).__name__}: {exc}"[:200]
        return ob
    try:
        ob["code"] = serialize_python(*ob["roots"])
    except Exception as exc:  # noqa
        ob["err"] = f"serialize: {type(exc).__name__}: {exc}"[:200]
    return ob


def _canon_uids(pairs):
    """[(name, uid)] -> uid renumbered by first occurrence"""
    m = {}
    return [(n, m.setdefault(u, len(m) + 1)) for n, u in pairs]


def replay_title(st):
    res = []
    use = USE_SCHEMAS[st["use"]]
    for mi in range(NMAPS):
        title = conc(st["title"], mi, vary=False)
        doc = {"type": "object", "title": "Outer", "properties": {"o": _obj(title, 1)}}
        if use is not None:
            import copy
            doc["properties"]["u"] = copy.deepcopy(use)
        ob = _parse_doc(doc)
        r = dict(title=title, err=ob["err"], cname=None, rname=None, classes=None, facts=None)
        if ob["roots"] is not None:
            root = ob["roots"][0]
            try:
                inner = prop_by_source(root, "o")
                r["cname"], r["rname"] = inner.__name__, root.__name__
            except Exception as exc:  # noqa
                r["err"] = f"shape: {type(exc).__name__}: {exc}"[:200]
            r["classes"] = [(c.__name__, id(c)) for c in walk_classes(ob["roots"])]
            if ob["code"] is not None:
                f = module_facts(ob["code"])
                r["facts"] = dict(compiles=f["compiles"], classdefs=f["classdefs"],
                                  imported=sorted(f["imported"]))
        res.append(r)
        if all(is_ascii_atom(a) for a in st["title"]):
            break          # nothing to vary
    return res


def build_doc(st, mi=0):
    """JSON document of a doc state: slots placed at their positions of the root"""
    root = {"type": "object", "title": conc(st["root"], mi, vary=False), "properties": {}}
    where = {}
    for j, sl in enumerate(st["slots"], 1):
        o = _obj(conc(sl["title"], mi, vary=False), sl["shape"])
        pos = sl["pos"]
        k = f"k{j}"
        if pos == "prop":
            root["properties"][k] = o
        elif pos == "arr":
            root["properties"][k] = {"type": "array", "items": o}
        elif pos == "tuple":
            root["properties"][k] = {"type": "array", "items": [o]}
        elif pos == "addit":
            root["properties"][k] = {"type": "array", "items": [{"type": "string"}],
                                     "additionalItems": o}
        elif pos == "contains":
            root["properties"][k] = {"type": "array", "contains": o}
        elif pos == "anyof":
            root["properties"][k] = {"anyOf": [o, {"type": "string"}]}
        elif pos == "nest":
            root["properties"][k] = {"type": "object", "title": "Mid", "properties": {"n": o}}
        elif pos == "pattern":
            root.setdefault("patternProperties", {})[f"^p{j}"] = o
        elif pos == "deps":
            root.setdefault("dependencies", {})[f"d{j}"] = o
        elif pos == "addl":
            root["additionalProperties"] = o
        elif pos == "defs":
            root.setdefault("definitions", {})[k] = o
        else:
            raise MachineryError(f"unknown slot position {pos}")
        where[j] = (pos, k)
    return root, where


def prop_by_source(cls, src):
    """the element of the property whose JSON name is src (attribute names are what is under test)"""
    for p in cls.properties.values():
        if p.source == src:
            return p.element
    raise KeyError(src)


def _slot_class(roots, doc, j, pos, k):
    root = roots[0]
    if pos == "prop":
        return prop_by_source(root, k), None
    if pos == "arr":
        return prop_by_source(root, k).items, None
    if pos == "tuple":
        return prop_by_source(root, k).items[0], None
    if pos == "addit":
        return prop_by_source(root, k).additionalItems, None
    if pos == "contains":
        return prop_by_source(root, k).contains, None
    if pos == "anyof":
        return prop_by_source(root, k).elements[0], None
    if pos == "nest":
        mid = prop_by_source(root, k)
        return prop_by_source(mid, "n"), mid
    if pos == "pattern":
        return root.patternProperties[f"^p{j}"], None
    if pos == "deps":
        return root.dependencies[f"d{j}"], None
    if pos == "addl":
        return root.additionalProperties, None
    if pos == "defs":
        idx = 1 + list(doc["definitions"]).index(k)
        return roots[idx], None
    raise MachineryError(pos)


def replay_doc(st):
    doc, where = build_doc(st)
    ob = _parse_doc(doc)
    r = dict(err=ob["err"], slots=None, classes=None, facts=None, doc=doc)
    if ob["roots"] is None:
        return r
    try:
        listing = []
        mids = []
        for j in sorted(where):
            pos, k = where[j]
            c, mid = _slot_class(ob["roots"], doc, j, pos, k)
            listing.append((("slot", j), c.__name__, id(c)))
            if mid is not None:
                mids.append((("mid", j), mid.__name__, id(mid)))
        listing += mids
        listing.append((("root", 0), ob["roots"][0].__name__, id(ob["roots"][0])))
        r["slots"] = listing
    except Exception as exc:  # noqa
        r["err"] = f"shape: {type(exc).__name__}: {exc}"[:200]
    r["classes"] = [(c.__name__, id(c)) for c in walk_classes(ob["roots"])]
    if ob["code"] is not None:
        f = module_facts(ob["code"])
        r["facts"] = dict(compiles=f["compiles"], classdefs=f["classdefs"],
                          imported=sorted(f["imported"]))
        if f["compiles"]:
            ns, err = _exec_module(ob["code"])
            r["facts"]["exec"] = err if ns is None else ""
    return r


def predicted_listing(st):
    listing = [(("slot", c["slot"]), c["name"], c["uid"]) for c in sorted(st["cls"], key=lambda c: c["slot"])]
    listing += [(("mid", c["slot"]), c["name"], c["uid"]) for c in sorted(st["mid"], key=lambda c: c["slot"])]
    listing.append((("root", 0), st["rootcls"]["name"], st["rootcls"]["uid"]))
    return listing


def canon_listing(listing):
    m = {}
    return [(tag, n, m.setdefault(u, len(m) + 1)) for tag, n, u in listing]


# ------------------------------------------------------------------ code -> spec: names from the code side
RARE = {"us": "_", "hy": "-", "sp": " ", "ows": "\t\n\r\x0b\x0c", "xsym": "\u1885\u1886\u2118\u212e",
        "al": string.ascii_letters, "dg": string.digits}


def class_pools(table, rng, per_class=60):
    pools = {c: [] for c in table.attr}
    for c, chars in RARE.items():
        pools[c] = list(chars)
    tries = 0
    need = [c for c in pools if c not in RARE]
    while tries < 400000 and any(len(pools[c]) < per_class for c in need):
        tries += 1
        r = rng.random()
        cp = rng.randrange(0x80, 0x3000) if r < 0.6 else (
            rng.randrange(0x3000, 0x30000) if r < 0.9 else rng.randrange(0x30000, 0x110000))
        ch = chr(cp)
        c = table.classify(ch)
        if c in RARE:
            continue
        if len(pools[c]) < per_class:
            pools[c].append(ch)
    for c in need:
        if not pools[c]:
            raise MachineryError(f"no code point of class {c} found by sampling")
    return pools


def random_names(table, n, maxlen, seed):
    rng = random.Random(seed)
    pools = class_pools(table, rng)
    classes = sorted(pools)
    out = []
    for _ in range(n):
        k = rng.randint(1, maxlen)
        out.append("".join(rng.choice(pools[rng.choice(classes)]) for _ in range(k)))
    return out


def observe_names(names):
    """worker: real mapping of concrete names (function level)"""
    fn = _fn()
    out = []
    for s in names:
        try:
            out.append(fn(s))
        except Exception as exc:  # noqa
            out.append(None)
    return out


def attr_event(table, attr, srcok=True):
    """TLA+ record text (without id) of an observed attribute name"""
    cs = table.classes(attr)
    text = attr if attr.isascii() and all(32 <= ord(ch) < 127 for ch in attr) else ""
    return ('p |-> "attr", cs |-> <<%s>>, text |-> %s, srcok |-> %s'
            % (", ".join(tla_str(c) for c in cs), tla_str(text), "TRUE" if srcok else "FALSE")), cs, text


def gt_attr_ok(attr):
    """ground truth of R_C12_attr minus the source clause, from the interpreter"""
    return (attr.isidentifier() and not keyword.iskeyword(attr)
            and attr not in dir(object) and attr != "_dict")


def sib_event(names, req, props):
    return ('p |-> "sib", names |-> <<%s>>, req |-> <<%s>>, props |-> <<%s>>'
            % (", ".join(tla_str(esc(n)) for n in names), ", ".join(tla_str(esc(n)) for n in req),
               ", ".join('[attr |-> %s, source |-> %s, required |-> %s]'
                         % (tla_str(esc(a)), tla_str(esc(s if s is not None else "\\None")),
                            "TRUE" if r else "FALSE") for a, s, r in props)))


def cls_event(table, classes, used):
    recs = []
    for n, uid in classes:
        cs = table.classes(n)
        recs.append('[name |-> %s, cs |-> <<%s>>, uid |-> %d]'
                    % (tla_str(esc(n)), ", ".join(tla_str(c) for c in cs), uid))
    return ('p |-> "cls", classes |-> <<%s>>, used |-> {%s}'
            % (", ".join(recs), ", ".join(tla_str(u) for u in sorted(used))))


def adjudicate(events, chunk=2000):
    """events: list of (id, record-text-without-id).
    Returns {id: reject line (clause, who)} of rejected events."""
    rejected = {}
    total_states = 0
    t0 = time.time()
    for c in range(0, len(events), chunk):
        part = events[c:c + chunk]
        data = ("---- MODULE TraceData ----\nEXTENDS Integers, Sequences, TLC\nEvents == <<\n"
                + ",\n".join("[id |-> %d, %s]" % (i, t) for i, t in part) + "\n>>\n====\n")
        cfg = "SPECIFICATION Spec\nINVARIANT Inv\nPOSTCONDITION Consumed\nCHECK_DEADLOCK FALSE\n"
        res = run_tlc("Trace_Names", cfg, extra_modules={"TraceData": data}, workers=1,
                      coverage=False, timeout=1200)
        if not res.ok:
            raise MachineryError("trace validation run failed (trace not consumed or TLC error):\n"
                                 + res.raw_tail[-2500:])
        for l in res.lines:
            rejected[l["reject"]] = l
        total_states += res.distinct
    return rejected, dict(events=len(events), tlc_states=total_states,
                          wall=round(time.time() - t0, 2))


# ------------------------------------------------------------------ thorough: every code point
CONTEXTS = (("?", 0), ("x?", 1), ("?x", 0), ("x?x", 1), ("_?_", 1))


def sweep_templates(table, name_states):
    """for each (class, context) the exported state of the representative name"""
    idx = {json.dumps(s["name"], sort_keys=True): s for s in name_states}
    x, us = table.reps["al"], table.reps["us"]
    tpl = {}
    for c, rep in table.reps.items():
        for ctx, pos in CONTEXTS:
            seq = [x if ch == "x" else us if ch == "_" else rep for ch in ctx]
            st = idx.get(json.dumps(seq, sort_keys=True))
            if st is None:
                raise MachineryError(f"no exported state for class {c} in context {ctx}")
            tpl[c + "|" + ctx] = dict(items=st["out"], ok=st["ok"], clause=st["clause"],
                                 bad=sorted(st["bad"]), pos=pos + 1, name=st["name"])
    return tpl


def expected_for(tpl, ch, ctx):
    out, lab_done = [], False
    p = tpl["pos"]
    for it in tpl["items"]:
        if it["o"] == p:
            if it["k"] == "in" and it["c"] == it["f"]:
                out.append(ch)
            elif it["k"] == "lab":
                if not lab_done:
                    out.append(label_of(ch))
                    lab_done = True
            else:
                out.append(it["s"])
        elif it["k"] == "in" and it["c"] == it["f"]:
            out.append(tpl["name"][it["o"] - 1]["s"])
        else:
            out.append(it["s"])
    return "".join(out)


def sweep_range(args):
    """worker: code points [lo, hi) in every context; returns aggregated findings"""
    lo, hi, table_rec, tpl = args
    table = Table(table_rec)
    fn = _fn()
    agg = dict(calls=0, same=0, by_class={}, model_viol={}, drift={}, gt_mismatch=[])
    for cp in range(lo, hi):
        ch = chr(cp)
        c = table.classify(ch)
        agg["by_class"][c] = agg["by_class"].get(c, 0) + 1
        for ctx, _ in CONTEXTS:
            t = tpl[c + "|" + ctx]
            s = ctx.replace("?", ch)
            exp = expected_for(t, ch, ctx)
            real = fn(s)
            agg["calls"] += 1
            if real == exp:
                agg["same"] += 1
                gt = gt_attr_ok(real)
                if gt != t["ok"]:
                    if len(agg["gt_mismatch"]) < 5:
                        agg["gt_mismatch"].append((s, real, gt, t["ok"]))
                if not t["ok"]:
                    key = (t["clause"], "+".join(t["bad"]))
                    g = agg["model_viol"].setdefault(key, dict(count=0, sample=(s, real), ctx=ctx, cls=c))
                    g["count"] += 1
            else:
                cs = tuple(table.classes(real))
                text = real if all(32 <= ord(x) < 127 for x in real) else ""
                key = (cs, text if (text in table.reserved) else "")
                g = agg["drift"].setdefault(key, dict(count=0, sample=(s, real, exp), ctx=ctx, cls=c))
                g["count"] += 1
    return agg
