"""Descriptions as docstrings (second half of C07; shared with C02).

MC_Desc enumerates descriptions as sequences of character classes; Docstring.tla predicts
what Python reads back from the class source ObjectMeta.python() emits.  Every string is
driven through the real parser, serialize_json, serialize_python + exec; drifted observations
are adjudicated by Trace_Desc (the docstring / description must equal the source description
character for character).
"""
import json
import time
import warnings

import common
from common import run_tlc, MachineryError
import codec
import drive

CHARS = {"q": ["q", "Z"], "sp": [" "], "dq": ['"'], "sq": ["'"], "bs": ["\\"], "n": ["n"], "r": ["r"],
         "nl": ["\n"], "cr": ["\r"], "nul": ["\0"], "e": ["é", "ß"], "em": ["\U0001F600"]}
BACK = {c: t for t, cs in CHARS.items() for c in cs}
TIERS = {"quick": dict(MaxLen=3, variants=1), "thorough": dict(MaxLen=4, variants=2)}


def tokens_of(text):
    return [BACK.get(c, "?") for c in text]


def observe(state_and_variant):
    st, variant = state_and_variant
    from statham.schema.parser import parse_element
    from statham.serializers import serialize_json, serialize_python
    from statham.schema.constants import NotPassed
    s = "".join(CHARS[t][variant % len(CHARS[t])] for t in st["s"])
    ob = {"text": s, "parsed": None, "json": None, "ok": False, "doc": [], "desc": []}
    doc = {"type": "object", "title": "T", "description": s}
    try:
        cls = parse_element(drive.label(doc))
        d = getattr(cls, "description", None)
        ob["parsed"] = tokens_of(d) if isinstance(d, str) else ["NotPassed"]
        j = serialize_json(cls)
        ob["json"] = tokens_of(j["description"]) if isinstance(j, dict) and isinstance(j.get("description"), str) else ["absent"]
        text = serialize_python(cls)
    except Exception as exc:  # noqa
        ob["err"] = type(exc).__name__ + ": " + str(exc)[:120]
        return ob
    try:
        with warnings.catch_warnings():
            warnings.simplefilter("ignore")
            ns = {}
            exec(compile(text, "<generated>", "exec"), ns)  # noqa: S102
        g = ns["T"]
        ob["ok"] = True
        ob["doc"] = tokens_of(g.__doc__) if isinstance(g.__doc__, str) else ["None"]
        gd = getattr(g, "description", None)
        ob["desc"] = tokens_of(gd) if isinstance(gd, str) else ["NotPassed"]
        ob["class_equal"] = bool(g == cls)
    except Exception as exc:  # noqa
        ob["ok"] = False
        ob["py_err"] = type(exc).__name__ + ": " + str(exc)[:100]
    return ob


def features(s):
    f = set()
    if not s:
        f.add("empty")
    if "bs" in s:
        f.add("backslash")
    if "dq" in s:
        f.add("quote")
    if "cr" in s:
        f.add("cr")
    if "nul" in s:
        f.add("nul")
    return ",".join(sorted(f)) or "plain"


def collect(rep, tier):
    """Runs the description exploration, reports violations into rep, returns coverage dict."""
    t = TIERS[tier]
    cfg = f"CONSTANTS MaxLen = {t['MaxLen']}\nSPECIFICATION Spec\nINVARIANT Inv\nCHECK_DEADLOCK FALSE\n"
    res = run_tlc("MC_Desc", cfg, coverage=False)
    if not res.ok or not res.lines:
        raise MachineryError("TLC failed on MC_Desc:\n" + res.raw_tail[-2000:])
    states = res.lines
    work = [(st, v) for st in states for v in range(t["variants"])]
    common.use_repo()
    obs = drive.pmap(observe, work, chunksize=64)
    events, index = [], {}
    drift = 0
    seq = lambda xs: "<<" + ", ".join(codec.tla_str(x) for x in xs) + ">>"
    for wi, ((st, v), ob) in enumerate(zip(work, obs)):
        if "err" in ob:
            rep.violation(("C07", "description-pipeline-raises", features(st["s"])),
                          f"description {ob['text']!r}: {ob['err']}", dict(state=st, observed=ob))
            continue
        same = (ob["ok"] == st["ok"] and (not ob["ok"] or (ob["doc"] == st["doc"] and ob["desc"] == st["desc"]))
                and ob["parsed"] == st["s"] and ob["json"] == st["s"])
        if same:
            if st["m07"]:
                rep.violation(("C07", "docstring", features(st["s"])),
                              f"description {ob['text']!r} does not survive as the generated class docstring: "
                              + (f"read back {ob['doc']} / description {ob['desc']}" if ob["ok"] else f"generated module does not execute ({ob.get('py_err')})"),
                              dict(state=st, observed=ob))
        else:
            drift += 1
            eid = len(index) + 1
            index[eid] = wi
            events.append((eid, '[id |-> %d, s |-> %s, ok |-> %s, doc |-> %s, desc |-> %s, parsed |-> %s, json |-> %s]'
                           % (eid, seq(st["s"]), "TRUE" if ob["ok"] else "FALSE", seq(ob["doc"]), seq(ob["desc"]),
                              seq(ob["parsed"] or ["?"]), seq(ob["json"] or ["?"]))))
    adj_states = 0
    if events:
        data = ("---- MODULE TraceData ----\nEXTENDS Integers, Sequences, TLC\nEvents == <<\n"
                + ",\n".join(t for _, t in events[:5000]) + "\n>>\n====\n")
        r2 = run_tlc("Trace_Desc", "SPECIFICATION Spec\nINVARIANT Inv\nPOSTCONDITION Consumed\nCHECK_DEADLOCK FALSE\n",
                     extra_modules={"TraceData": data}, workers=1, coverage=False)
        if not r2.ok:
            raise MachineryError("Trace_Desc failed:\n" + r2.raw_tail[-2000:])
        adj_states = r2.distinct
        for l in r2.lines:
            (st, v), ob = work[index[l["reject"]]], obs[index[l["reject"]]]
            rep.violation(("C07", "docstring-drift", features(st["s"])),
                          f"description {ob['text']!r}: observed parsed={ob['parsed']} json={ob['json']} "
                          f"docstring={ob['doc'] if ob['ok'] else ob.get('py_err')} description={ob['desc']}",
                          dict(state=st, observed=ob))
    return dict(desc_states=res.distinct, desc_transitions=res.states, desc_replayed=len(work),
                desc_drift=drift, desc_adjudicated=len(events), desc_tlc_states=adj_states,
                desc_bounds=dict(MaxLen=t["MaxLen"], tokens=sorted(CHARS), variants=t["variants"]),
                desc_sample=[dict(description=obs[i]["text"], docstring_tokens=obs[i]["doc"]) for i in (5, len(obs) // 2)])
