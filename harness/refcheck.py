"""Who checks the reference?  Cross-check of Draft6.tla (the verdict sets TLC exported) against
jsonschema's Draft6Validator, outside the documented deviations.  Runs under python3-vt (the
tooling venv; jsonschema is not installed in the repository's venv).  A disagreement is a
MACHINERY failure (the reference layer is wrong), never a property verdict.

usage: python3-vt refcheck.py <cases.json>    cases = {"values": [...], "docs": [[schema, allowed], ...]}
prints one JSON line: {"checked": n, "skipped": m, "disagreements": [[schema, value, allowed, jsonschema_verdict], ...]}
"""
import json
import sys
from concurrent.futures import ProcessPoolExecutor

import jsonschema

INTEGRAL_FLOAT = lambda v: isinstance(v, float) and v == int(v)


def has_kw(s, kw):
    if isinstance(s, dict):
        return kw in s or any(has_kw(v, kw) for v in s.values())
    if isinstance(s, list):
        return any(has_kw(v, kw) for v in s)
    return False


def mentions_integer(s):
    if isinstance(s, dict):
        t = s.get("type")
        if t == "integer" or (isinstance(t, list) and "integer" in t):
            return True
        return any(mentions_integer(v) for v in s.values())
    if isinstance(s, list):
        return any(mentions_integer(v) for v in s)
    return False


def contains_integral_float(v):
    if INTEGRAL_FLOAT(v):
        return True
    if isinstance(v, list):
        return any(contains_integral_float(x) for x in v)
    if isinstance(v, dict):
        return any(contains_integral_float(x) for x in v.values())
    return False


def work(args):
    docs, values = args
    checked = skipped = 0
    bad = []
    for schema, allowed in docs:
        if has_kw(schema, "format") or has_kw(schema, "$ref"):
            skipped += len(values)
            continue
        try:
            validator = jsonschema.Draft6Validator(schema)
        except Exception:
            skipped += len(values)
            continue
        integer = mentions_integer(schema)
        for v, al in zip(values, allowed):
            if len(al) != 1 or (integer and contains_integral_float(v)):
                skipped += 1          # D3 leaves the choice open / D1: 1.0 is an integer for Draft 6
                continue
            try:
                got = validator.is_valid(v)
            except Exception:      # jsonschema itself fails on {"items": <bool>, "additionalItems": ...}
                skipped += 1
                continue
            checked += 1
            if got != al[0]:
                bad.append([schema, v, al, got])
    return checked, skipped, bad[:20]


def main():
    cases = json.load(open(sys.argv[1]))
    docs, values = cases["docs"], cases["values"]
    n = 12
    chunks = [docs[i::n] for i in range(n)]
    checked = skipped = 0
    bad = []
    with ProcessPoolExecutor(n) as ex:
        for c, s, b in ex.map(work, [(ch, values) for ch in chunks]):
            checked += c
            skipped += s
            bad += b
    print(json.dumps({"checked": checked, "skipped": skipped, "disagreements": bad[:40]}))


if __name__ == "__main__":
    main()
