"""Reference-graph family (MC_Refs.tla / Trace_Refs.tla): C02, C09, and the cyclic-reference
half of C20; also feeds C07 (defaults of shared, re-parsed sub-documents).

Every exported graph is turned into one or two JSON documents (doc.json, other.json) served
from memory to the REAL command-line path: statham.__main__.main(uri) =
json_ref_dict.materialize(RefDict.from_uri(uri), title_labeller()) -> parser.parse ->
serialize_python.  The generated module is executed in an empty namespace and compared with
the directly parsed models.  Observations are adjudicated by TLC (Trace_Refs).
"""
import ast
import copy
import hashlib
import json
import os
import subprocess
import sys
import tempfile
import time
from collections import Counter

import common
from common import run_tlc, MachineryError
import codec
import drive
import docfamily as df
from docfamily import tlajson_to_tla
from report import Reporter

TIERS = {"quick": dict(MaxEdges=2, MaxNodes=2, Wide="FALSE", SeedExtra=0),
         "thorough": dict(MaxEdges=2, MaxNodes=2, Wide="TRUE", SeedExtra=1)}   # 280k document sets; 3 edges is millions
SEEDS_WANTED = 6


def _cfg(c, spec="Spec"):
    return (f"CONSTANTS MaxEdges = {c['MaxEdges']}\n MaxNodes = {c['MaxNodes']}\n Wide = {c['Wide']}\n"
            f" SeedExtra = {c.get('SeedExtra', 0)}\n"
            f"SPECIFICATION {spec}\nINVARIANT Inv\nCHECK_DEADLOCK FALSE\n")


def stage1(tier):
    c = TIERS[tier]
    cfg = _cfg(c)
    import gzip
    h = df._spec_hash("MC_Refs")
    h.update(cfg.encode())
    path = os.path.join(df.CACHE, "refs-%s.jsonl.gz" % h.hexdigest()[:20])
    if os.path.exists(path) and not os.environ.get("VERIF_NOCACHE"):
        with gzip.open(path, "rt") as fh:
            meta = json.loads(fh.readline())
            return [json.loads(l) for l in fh], dict(meta, cached=True)
    res = run_tlc("MC_Refs", cfg, coverage=False, workers=8)
    if not res.ok:
        raise MachineryError("TLC failed on MC_Refs:\n" + res.raw_tail[-2500:])
    res2 = run_tlc("MC_Refs", _cfg(c, "SeedSpec"), coverage=False, workers=8)     # the seed graphs
    if not res2.ok or not res2.lines:
        raise MachineryError("TLC failed on MC_Refs seeds:\n" + res2.raw_tail[-2500:])
    res.lines.extend(res2.lines)
    meta = dict(consts=c, states=res.states + res2.states, distinct=res.distinct + res2.distinct,
                seed_graphs=len(res2.lines), wall=round(res.wall + res2.wall, 1))
    os.makedirs(df.CACHE, exist_ok=True)
    with gzip.open(path + ".tmp", "wt") as fh:
        fh.write(json.dumps(meta) + "\n")
        for l in res.lines:
            fh.write(json.dumps(l) + "\n")
    os.replace(path + ".tmp", path)
    return res.lines, meta


# ------------------------------------------------------------------ documents
def files_of(state):
    """TLA document -> {"doc.json": ..., "other.json": ...} with $ref spelled for files."""
    root = codec.schema_to_json(state["doc"])
    defs = root.get("definitions", {}) if isinstance(root, dict) else {}
    other_defs = {k: v for k, v in defs.items() if k.startswith("o")}
    for k in other_defs:
        del defs[k]
    if isinstance(root, dict) and "definitions" in root and not defs:
        del root["definitions"]

    def rewrite(node, in_other):
        if isinstance(node, dict):
            if "$ref" in node and isinstance(node["$ref"], str):
                name = node["$ref"].split("/")[-1]
                if name == "R":
                    node["$ref"] = "doc.json#" if in_other else "#"
                elif name.startswith("o"):
                    node["$ref"] = ("#/definitions/" if in_other else "other.json#/definitions/") + name
                else:
                    node["$ref"] = ("doc.json#/definitions/" if in_other else "#/definitions/") + name
            for v in node.values():
                rewrite(v, in_other)
        elif isinstance(node, list):
            for v in node:
                rewrite(v, in_other)
    rewrite(root, False)
    files = {"doc.json": root}
    if other_defs:
        other = {"definitions": other_defs}
        rewrite(other, True)
        files["other.json"] = other
    return files


def _module_facts(text):
    tree = ast.parse(text)
    imports, classes = [], []
    for node in tree.body:
        if isinstance(node, ast.ImportFrom):
            imports += [a.asname or a.name for a in node.names]
        elif isinstance(node, ast.Import):
            imports += [(a.asname or a.name).split(".")[0] for a in node.names]
        elif isinstance(node, ast.ClassDef):
            uses = sorted({n.id for n in ast.walk(node) if isinstance(n, ast.Name) and isinstance(n.ctx, ast.Load)})
            classes.append({"name": node.name, "uses": uses})
    return imports, classes


def replay_refs(state):
    from statham.__main__ import main
    from statham.schema.parser import parse
    from statham.schema.exceptions import FeatureNotImplementedError, SchemaParseError
    from statham.schema.elements.meta import ObjectMeta
    from json_ref_dict import materialize, RefDict
    from statham.titles import title_labeller
    _, pyvals = df.values()
    files = files_of(state)
    ob = {"files": files}
    uri, cleanup = drive.materialized(files)
    try:
        try:
            text = main(uri)
            ob["kind"] = "ok"
            ob["text_sha"] = hashlib.sha1(text.encode()).hexdigest()[:12]
        except FeatureNotImplementedError as exc:
            ob["kind"] = "notimpl"
        except SchemaParseError as exc:
            ob["kind"] = "parseerr"
            ob["msg"] = str(exc)[:120]
        except Exception as exc:  # noqa
            ob["kind"] = "other:" + type(exc).__name__
            ob["msg"] = str(exc)[:160]
        if ob["kind"] != "ok":
            return ob
        # direct parse of the same materialized document
        schema = materialize(RefDict.from_uri(uri), context_labeller=title_labeller())
        elements = parse(schema)
        root = elements[0]
        classes = []
        for e in elements:
            for c in drive.walk_elements(e):
                if isinstance(c, ObjectMeta) and all(c is not d for d in classes):
                    classes.append(c)
        ob["parsed"] = [c.__name__ for c in classes]
        ob["dkinds"] = [drive.call(root, v)[0] for v in pyvals]
        try:
            ob["root_elem"] = drive.project_element(root)
        except ValueError as exc:
            ob["root_elem_err"] = str(exc)[:100]
        # the generated module
        try:
            ob["imports"], ob["classes"] = _module_facts(text)
            ns = {}
            exec(compile(text, "<generated>", "exec"), ns)  # noqa: S102
            ob["executes"] = True
        except Exception as exc:  # noqa
            ob["executes"] = False
            ob["exec_err"] = type(exc).__name__ + ": " + str(exc)[:160]
            ob.setdefault("imports", [])
            ob.setdefault("classes", [])
            ob["eqs"], ob["kinds"] = [], ob["dkinds"]
            return ob
        eqs = []
        for c in classes:
            g = ns.get(c.__name__)
            try:
                eqs.append(isinstance(g, ObjectMeta) and bool(g == c) and
                           drive.norm_elem(drive.project_element(g)) == drive.norm_elem(drive.project_element(c)))
            except Exception:  # noqa
                eqs.append(False)
        ob["eqs"] = eqs
        if isinstance(root, ObjectMeta) and isinstance(ns.get(root.__name__), ObjectMeta):
            groot = ns[root.__name__]
            ob["kinds"] = [drive.call(groot, v)[0] for v in pyvals]
        else:
            ob["kinds"] = ob["dkinds"]      # the root is not a class: nothing generated for it
        return ob
    finally:
        cleanup()


def replay_refs_kind(state):
    """outcome kind of statham.__main__.main on the document set (all C20 needs)"""
    from statham.__main__ import main
    from statham.schema.exceptions import FeatureNotImplementedError, SchemaParseError
    uri, cleanup = drive.materialized(files_of(state))
    try:
        try:
            main(uri)
            return {"kind": "ok"}
        except FeatureNotImplementedError:
            return {"kind": "notimpl"}
        except SchemaParseError as exc:
            return {"kind": "parseerr", "msg": str(exc)[:100]}
        except Exception as exc:  # noqa
            return {"kind": "other:" + type(exc).__name__, "msg": str(exc)[:120]}
    finally:
        cleanup()


# ------------------------------------------------------------------ C02: the module the MODEL predicts
def module_struct(text):
    """generated module text -> the structure PyModule.tla predicts (read back with ast)"""
    from checks_elem import _type_expr
    out = []
    for node in ast.parse(text).body:
        if not isinstance(node, ast.ClassDef):
            continue
        c = {"name": node.name, "base": node.bases[0].id if node.bases and isinstance(node.bases[0], ast.Name) else "",
             "args": sorted(k.arg for k in node.keywords if k.arg), "doc": [], "props": []}
        body = node.body
        if body and isinstance(body[0], ast.Expr) and isinstance(body[0].value, ast.Constant) \
                and isinstance(body[0].value.value, str):
            c["doc"] = [body[0].value.value]
        for stmt in body:
            if isinstance(stmt, ast.AnnAssign) and isinstance(stmt.value, ast.Call) and isinstance(stmt.target, ast.Name):
                kws = {k.arg: k.value for k in stmt.value.keywords}
                req = bool(getattr(kws.get("required"), "value", False))
                src = [kws["source"].value] if "source" in kws and isinstance(kws["source"], ast.Constant) else []
                c["props"].append({"attr": stmt.target.id, "ann": _type_expr(stmt.annotation),
                                   "required": req, "source": src})
        out.append(c)
    return out


def _pym_obs(st):
    from statham.serializers import serialize_python
    sj = codec.schema_to_json(st["doc"])
    kind, el = drive.parse_labelled(sj)
    if kind != "ok":
        return None
    try:
        real = module_struct(serialize_python(el))
    except Exception as exc:  # noqa
        return {"err": type(exc).__name__ + ": " + str(exc)[:100]}
    model = [dict(m, args=sorted(m["args"])) for m in st["pym"]]
    return {"same": json.dumps(real, sort_keys=True) == json.dumps(model, sort_keys=True)}


def pymodule_model_part(rep, tier):
    """MC_Py: PyModule.tla predicts the generated module (declaration order, class arguments,
    docstring, property lines with annotation / required / source); TLC checks on the model that
    every class is declared once and after everything it uses; the real module is read back
    with ast and compared (equal => TLC's verdict stands)."""
    lines, meta = df._cached_tlc("py-bfs", df._cfg(df.TIERS[tier]["bfs"], False), module="MC_Py")
    seeds, smeta = df._cached_tlc("py-seed", df._cfg(df.TIERS[tier]["seed"], False, "SeedSpec",
                                                      df.TIERS[tier]["seed_levels"]), module="MC_Py")
    states = lines + seeds
    obs = drive.pmap(_pym_obs, states, chunksize=64)
    drift = flagged = errs = 0
    for st, ob in zip(states, obs):
        if ob is None:
            continue
        if "err" in ob:
            errs += 1
            continue
        if not ob["same"]:
            drift += 1
        elif st["mdecl"]:
            flagged += 1
            rep.violation(("C02", "declared-after-use-or-twice", "design"),
                          f"(design level, real module equals the model's) {json.dumps(codec.schema_to_json(st['doc']))[:240]}",
                          dict(state=st))
    return dict(states=meta["distinct"] + smeta["distinct"], transitions=meta["states"] + smeta["states"],
                modules_compared=len(states), drift=drift, generation_errors=errs, model_flagged=flagged)


# ------------------------------------------------------------------ C02: the command-line front end
def _cli_obs(st):
    import shutil
    import tempfile as _tf
    from statham.__main__ import parse_input_arg, parse_args
    inp = "".join(st["input"])
    ob = {"uri": None, "name": None}
    try:
        ob["uri"] = parse_input_arg(inp)
        d = _tf.mkdtemp(prefix="verif-cli-")
        try:
            with parse_args(["--input", inp, "--output", d]) as (uri, fh):
                ob["name"] = os.path.basename(fh.name)
                ob["uri2"] = uri
        finally:
            shutil.rmtree(d, ignore_errors=True)
    except BaseException as exc:  # argparse may exit
        ob["err"] = type(exc).__name__ + ": " + str(exc)[:80]
    return ob


def docstring_exec_part(rep, tier, pid="C02"):
    """C02 on descriptions: every description MC_Desc enumerates (character classes: quotes,
    backslashes, CR, NUL, non-ASCII; at every position up to the bound) is parsed, the module
    generated and executed.  Docstring.tla predicts whether the emitted class source reads back;
    a module that does not execute is a C02 violation whether or not the model predicted it
    (design level if it did, drift adjudicated by the unconditional requirement otherwise)."""
    import checks_desc
    t = checks_desc.TIERS[tier]
    cfg = f"CONSTANTS MaxLen = {t['MaxLen']}\nSPECIFICATION Spec\nINVARIANT Inv\nCHECK_DEADLOCK FALSE\n"
    lines, meta = df._cached_tlc("desc", cfg, module="MC_Desc", workers=8)
    work = [(st, v) for st in lines for v in range(t["variants"])]
    obs = drive.pmap(checks_desc.observe, work, chunksize=64)
    bad = 0
    for (st, v), ob in zip(work, obs):
        if "err" in ob or not ob["ok"]:
            bad += 1
            how = "design level: the specification's emitter predicts it" if not st["ok"] else "the specification's emitter predicts a module that executes"
            rep.violation((pid, "generated-module-does-not-execute", "description", checks_desc.features(st["s"])),
                          f"generated-module-does-not-execute: object schema with description {ob['text']!r}: "
                          f"{ob.get('py_err') or ob.get('err')} ({how})", dict(state=st, observed=ob))
    return dict(descriptions=len(work), states=meta["distinct"], not_executing=bad)


def cli_model_part(rep, tier):
    """MC_Cli: how the input argument becomes the URI given to main() and the output file name;
    every argument of <= 5 (6) tokens is replayed on parse_input_arg / parse_args."""
    n = 5 if tier == "quick" else 6
    lines, meta = df._cached_tlc("cli", f"CONSTANT MaxLen = {n}\nSPECIFICATION Spec\nINVARIANT Inv\nCHECK_DEADLOCK FALSE\n",
                                 module="MC_Cli", workers=4)
    obs = drive.pmap(_cli_obs, lines, chunksize=128)
    drift = 0
    for st, ob in zip(lines, obs):
        if "err" in ob or ob["uri"] != "".join(st["uri"]) or ob.get("uri2") != ob["uri"] \
                or ob["name"] != "".join(st["dirname"]):
            drift += 1
    return dict(arguments=len(lines), states=meta["distinct"], drift=drift)


# ------------------------------------------------------------------ C09: other processes
DRIVER = r'''
import sys, json, hashlib
sys.path.insert(0, sys.argv[1])
sys.path.insert(0, sys.argv[2])
import warnings; warnings.simplefilter("ignore")
import drive
from statham.__main__ import main
from statham.schema.parser import parse
from statham.serializers import serialize_json
from json_ref_dict import materialize, RefDict
from statham.titles import title_labeller
docs = json.load(open(sys.argv[3]))
out = []
probe = list(set(("anyOf", "oneOf", "allOf", "not")) - {"not"})
for files in docs:
    uri, cleanup = drive.materialized(files)
    try:
        try:
            text = main(uri)
            schema = materialize(RefDict.from_uri(uri), context_labeller=title_labeller())
            j = json.dumps(serialize_json(*parse(schema)), sort_keys=False, default=repr)
            out.append(hashlib.sha1((text + "\0" + j).encode()).hexdigest()[:16])
        except Exception as exc:
            out.append("ERR:" + type(exc).__name__)
    finally:
        cleanup()
print(json.dumps({"order": probe, "out": out}))
'''


def run_seed(seed, docs_path):
    env = dict(os.environ, PYTHONHASHSEED=str(seed))
    r = subprocess.run([sys.executable, "-c", DRIVER, common.REPO, os.path.dirname(os.path.abspath(__file__)), docs_path],
                       capture_output=True, text=True, env=env, timeout=1200)
    if r.returncode != 0:
        raise MachineryError(f"seed driver failed (seed {seed}): {r.stderr[-400:]}")
    return json.loads(r.stdout.strip().splitlines()[-1])


# ------------------------------------------------------------------ driver
def run(pid, tier, replay_file=None):
    t0 = time.time()
    rep = Reporter(pid, tier)
    coverage = collect(rep, pid, tier, replay_file)
    return rep.finish(coverage, time.time() - t0,
                      assumptions=["A1 bounded exhaustiveness (graphs of <= 3 schema nodes)",
                                   "A7 Draft6.tla is the reference"])


def collect(rep, pid, tier, replay_file=None):
    tagged_values, pyvals = df.values()
    if replay_file:
        payload = json.load(open(replay_file))
        states, meta = [payload["state"]], {}
    else:
        states, meta = stage1(tier)
    common.use_repo()
    events, index = [], {}
    strseq = lambda xs: "<<" + ", ".join(codec.tla_str(x) for x in xs) + ">>"
    B = lambda b: "TRUE" if b else "FALSE"
    stats = Counter()
    nontrivial = set()
    extra = {}

    def add(si, text):
        eid = len(index) + 1
        index[eid] = si
        events.append((eid, text.replace("@ID@", str(eid))))

    if pid == "C02" and not replay_file:
        # plus every document of the document family that declares an object class
        doc_states, dmeta = df.stage1(tier, pid="ser")
        more = [s for s in doc_states if '"object"' in json.dumps(s["doc"]) and s["parse"] == "ok"]
        if tier == "quick":
            more = [s for s in more if s.get("src") != "sim"] + [s for s in more if s.get("src") == "sim"][:1500]
        for s in more:
            states.append(dict(doc=s["doc"], cyclic=False, uns=False, edges=[], nodes=[], allowed=s["allowed"]))
        extra["document_family_states"] = len(more)
    if pid in ("C02", "C20", "C07"):
        if pid == "C20":
            states = [dict(nodes=s["nodes"], edges=s["edges"], doc=s["doc"], cyclic=s["cyclic"], uns=s["uns"])
                      for s in states]
        obs = drive.pmap(replay_refs_kind if pid == "C20" else replay_refs, states, chunksize=32)
        for si, (st, ob) in enumerate(zip(states, obs)):
            stats[ob["kind"]] += 1
            if pid == "C20":
                if st["cyclic"] or st["uns"]:
                    nontrivial.add(json.dumps(st["edges"]) + str(st["uns"]))
                add(si, '[id |-> @ID@, p |-> "C20r", cyclic |-> %s, uns |-> %s, kind |-> %s]'
                    % (B(st["cyclic"]), B(st["uns"]), codec.tla_str(ob["kind"])))
            elif pid == "C02" and ob["kind"] == "ok" and not st["cyclic"] and not st["uns"]:
                nontrivial.add(ob.get("text_sha"))
                cls = "<<" + ", ".join('[name |-> %s, uses |-> %s]' % (codec.tla_str(c["name"]), strseq(c["uses"]))
                                       for c in ob["classes"]) + ">>"
                # the number of distinct object schemas of the DOCUMENT (the specification's graph:
                # every object-shaped node, reachable or only listed under definitions); -1 = not known
                nobj = sum(1 for n in st["nodes"] if n["shape"] in ("obj", "objT")) if st.get("nodes") else -1
                add(si, '[id |-> @ID@, p |-> "C02", doc |-> %s, executes |-> %s, imports |-> %s, classes |-> %s, '
                        'parsed |-> %s, eqs |-> %s, kinds |-> %s, dkinds |-> %s, nobj |-> %d]'
                    % (tlajson_to_tla(st["doc"]), B(ob["executes"]), strseq(ob["imports"]), cls,
                       strseq(ob["parsed"]), "<<" + ", ".join(B(x) for x in ob["eqs"]) + ">>",
                       strseq(ob["kinds"]), strseq(ob["dkinds"]), nobj))
            elif pid == "C07" and ob["kind"] == "ok" and "root_elem" in ob:
                nontrivial.add(si)
                add(si, '[id |-> @ID@, p |-> "C07r", doc |-> %s, elem |-> %s]'
                    % (tlajson_to_tla(st["doc"]), tlajson_to_tla(ob["root_elem"])))
    else:   # C09
        docs = [files_of(s) for s in states if not s["cyclic"] and not s["uns"]]
        # plus documents of the document family (composition keywords with equally titled objects)
        doc_states, _ = df.stage1(tier, pid="doc")
        picked = [s for s in doc_states if s.get("src") == "seed"][:1500] + \
                 [s for s in doc_states if any(k in json.dumps(s["doc"]) for k in ('"anyOf"', '"oneOf"', '"allOf"'))
                  and '"object"' in json.dumps(s["doc"])][:(1500 if tier == "quick" else 20000)]
        docs += [{"doc.json": codec.schema_to_json(s["doc"])} for s in picked
                 if isinstance(codec.schema_to_json(s["doc"]), dict)]
        tmp = tempfile.NamedTemporaryFile("w", suffix=".json", delete=False)
        json.dump(docs, tmp)
        tmp.close()
        try:
            from concurrent.futures import ThreadPoolExecutor
            with ThreadPoolExecutor(max_workers=8) as ex:
                probes = list(ex.map(lambda s: (s, run_seed(s, tmp.name)), range(common.SEED, common.SEED + 16)))
        finally:
            os.unlink(tmp.name)
        # keep one seed per realised iteration order of the composition keywords, at least 6 seeds
        by_order = {}
        for s, r in probes:
            by_order.setdefault(tuple(r["order"]), (s, r))
        chosen = list(by_order.values())
        for s, r in probes:
            if len(chosen) >= SEEDS_WANTED:
                break
            if all(s != c[0] for c in chosen):
                chosen.append((s, r))
        extra = dict(hash_seeds=[c[0] for c in chosen], keyword_orders_realised=len(by_order),
                     processes=len(probes), documents=len(docs))
        if len(by_order) < 2:
            raise MachineryError("vacuity: all probed hash seeds give the same set iteration order")
        for di in range(len(docs)):
            outs = [c[1]["out"][di] for c in chosen]
            nontrivial.add(outs[0])
            add(di, '[id |-> @ID@, p |-> "C09", outs |-> %s]' % strseq(outs))
        states = [{"files": d} for d in docs]
        obs = [{} for _ in docs]

    # ---- adjudication
    from concurrent.futures import ThreadPoolExecutor
    rejected, adj_states = {}, 0

    def chunk_run(part):
        data = ("---- MODULE TraceData ----\nEXTENDS Integers, Sequences, TLC\nEvents == <<\n"
                + ",\n".join(t for _, t in part) + "\n>>\n====\n")
        r = run_tlc("Trace_Refs", "SPECIFICATION Spec\nINVARIANT Inv\nPOSTCONDITION Consumed\nCHECK_DEADLOCK FALSE\n",
                    extra_modules={"TraceData": data}, workers=1, coverage=False)
        if not r.ok:
            raise MachineryError("Trace_Refs failed:\n" + r.raw_tail[-2500:])
        return {l["reject"]: l["clause"] for l in r.lines}, r.distinct
    if events:
        size = max(100, min(800, (len(events) + 7) // 8))
        with ThreadPoolExecutor(max_workers=8) as ex:
            for rej, n in ex.map(chunk_run, [events[i:i + size] for i in range(0, len(events), size)]):
                rejected.update(rej)
                adj_states += n
    for eid, clause in sorted(rejected.items()):
        si = index[eid]
        st, ob = states[si], obs[si]
        if pid == "C09":
            rep.violation(("C09", clause), f"{clause}: {json.dumps(st['files'])[:300]}", dict(state=st))
        else:
            shape = ",".join(sorted({e[1] for e in st["edges"]})) + "|" + ",".join(n["shape"] for n in st["nodes"])
            rep.violation((pid, clause, shape),
                          f"{clause}: documents {json.dumps(ob.get('files') or files_of(st))[:400]} -> {ob.get('kind')} "
                          f"{ob.get('msg', '')} {ob.get('exec_err', '')} classes={[c['name'] for c in ob.get('classes', [])]} parsed={ob.get('parsed')}",
                          dict(state=st, observed={k: v for k, v in ob.items() if k not in ('root_elem',)}))

    pym = {}
    if pid == "C02" and not replay_file:
        pym = pymodule_model_part(rep, tier)
        extra["pymodule_model"] = pym
        extra["cli_model"] = cli_model_part(rep, tier)
        extra["docstring_exec"] = docstring_exec_part(rep, tier)
    if not replay_file and len(nontrivial) < 2:
        raise MachineryError("vacuity: no non-trivial case")
    coverage = dict(
        states=int(meta.get("distinct", 0)) + adj_states + pym.get("states", 0),
        transitions=int(meta.get("states", 0)) + len(events) + pym.get("transitions", 0),
        traces_validated_against_impl=len(events) + pym.get("modules_compared", 0), evaluations=len(events), distinct_nontrivial=len(nontrivial),
        rule={"C02": "one case = one document set driven through statham.__main__.main and exec; non-trivial = distinct generated module texts",
              "C09": "one case = one document set generated under several PYTHONHASHSEED values in separate processes; non-trivial = distinct outputs",
              "C20": "one case = one document set; non-trivial = distinct cyclic / unsupported reference graphs",
              "C07": "one case = one document set whose definitions are shared and re-parsed"}[pid],
        samples=[dict(files=(obs[i].get("files") if obs[i] and obs[i].get("files") else
                             (states[i].get("files") or (files_of(states[i]) if "doc" in states[i] else None))),
                      outcome=obs[i].get("kind"), classes=[c["name"] for c in obs[i].get("classes", [])])
                 for i in (1, len(states) // 2, len(states) - 1) if i < len(states)],
        exhaustive=False, bounds=TIERS[tier], bfs_exhaustive_within_bound=True, tlc=meta,
        outcomes=dict(stats), trace_validation=dict(events=len(events), tlc_states=adj_states), **extra)
    return coverage
