"""Checks of the document family: C01 C04 C05 C10 C20 (see docfamily.py for the pipeline)."""
import json
import os
import time
from collections import Counter, OrderedDict

import common
from common import MachineryError
import codec
import drive
import docfamily as df
from docfamily import same_call, obs_to_tla, tlajson_to_tla
from report import Reporter

MAX_EVENTS = 4000      # drifted observations adjudicated per run (the rest is counted)


def _kwsig(doc):
    """root-cause signature of a document: the set of keywords it uses (any depth)."""
    kws = set()

    def rec(s):
        if not isinstance(s, dict) or "bs" in s:
            return
        for k, a in s.items():
            if k == "sch":
                continue
            kws.add(k)
            if k in ("items", "additionalItems", "contains", "additionalProperties",
                     "propertyNames", "not", "if", "then", "else", "unevaluatedItems",
                     "unevaluatedProperties"):
                rec(a)
            elif k in ("itemsT", "anyOf", "oneOf", "allOf"):
                for x in a:
                    rec(x)
            elif k in ("properties", "patternProperties", "depsS", "definitions", "$defs"):
                for p in a:
                    rec(p[1])
    rec(doc)
    return ",".join(sorted(kws))


def run(pid, tier, replay_file=None):
    t0 = time.time()
    rep = Reporter(pid, tier)
    tagged_values, pyvals = df.values()
    if replay_file:
        payload = json.load(open(replay_file))
        states, info = [payload["state"]], {"replay": replay_file}
    else:
        states, info = df.stage1(tier, uns=(pid == "C20"), pid=pid)
    common.use_repo()
    observations = drive.pmap(df.replay_state, states, chunksize=32)

    events = []        # (event id, tla text)
    ev_index = {}      # event id -> (state idx, value idx or tag)
    drift = Counter()
    checked = 0
    nontrivial = set()

    stats_sub = [0, 0]     # subclass results: differing from the parent's (adjudicated), same

    def add_event(si, tag, text):
        eid = len(ev_index) + 1
        ev_index[eid] = (si, tag)
        if len(events) < MAX_EVENTS:
            events.append((eid, text.replace("@ID@", str(eid))))

    for si, (st, ob) in enumerate(zip(states, observations)):
        doc_t = None

        def doc_tla():
            nonlocal doc_t
            if doc_t is None:
                doc_t = tlajson_to_tla(st["doc"])
            return doc_t

        # ---------------- parse outcome
        if ob["parse"] != st["parse"]:
            drift["parse"] += 1
            if pid == "C10":
                add_event(si, "parse", '[id |-> @ID@, p |-> "C10p", kind |-> %s]'
                          % codec.tla_str(ob["parse"]))
            elif pid == "C20":
                add_event(si, "parse", '[id |-> @ID@, p |-> "C20", doc |-> %s, kind |-> %s]'
                          % (doc_tla(), codec.tla_str(ob["parse"])))
            elif pid in ("C01", "C04", "C05") and st["parse"] == "ok":
                # a supported document the real parser refuses: no element, no verdicts
                rep.violation(("parse", _kwsig(st["doc"])),
                              f"supported schema is refused by the parser ({ob['parse']}): "
                              f"{json.dumps(codec.schema_to_json(st['doc']))[:200]}",
                              dict(state=st, observed=ob, tag="parse"))
            continue
        if pid == "C20":
            checked += 1
            if st.get("uns"):
                nontrivial.add(_kwsig(st["doc"]))
            if st.get("uns") and ob["strip"] != st["stripParse"]:
                drift["strip"] += 1
                add_event(si, "strip", '[id |-> @ID@, p |-> "C20s", kind |-> %s]'
                          % codec.tla_str(ob["strip"]))
            elif st["m20"]:
                rep.violation(("C20", _kwsig(st["doc"])),
                              "unsupported keyword not refused (or stripped schema refused): "
                              + json.dumps(codec.schema_to_json(st["doc"]))[:200],
                              dict(state=st, observed=ob, tag="parse"))
            continue
        if ob["parse"] != "ok":
            continue
        if pid == "C10":
            checked += 1
        # ---------------- per value
        dobs_same = all(
            src == psrc and same_call(o, p)
            for (src, o), (psrc, p) in zip(ob["dobs"], st.get("dobs", []))) \
            and len(ob["dobs"]) == len(st.get("dobs", []))
        for vi, (o, p) in enumerate(zip(ob["calls"], st["calls"])):
            checked += 1
            same = same_call(o, p)
            if not same:
                drift["call"] += 1
            if pid == "C01":
                nontrivial.add((si, o["kind"]))
                if o["kind"] == p["kind"]:
                    if (vi + 1) in st["m01"]:
                        rep.violation(("C01", _kwsig(st["doc"])),
                                      _msg01(st, pyvals[vi], o), _payload(st, vi, o))
                else:
                    add_event((si), vi, '[id |-> @ID@, p |-> "C01", doc |-> %s, v |-> %s, kind |-> %s]'
                              % (doc_tla(), tlajson_to_tla(tagged_values[vi]), codec.tla_str(o["kind"])))
            elif pid == "C04":
                if o["kind"] == "ok":
                    nontrivial.add(si)
                if same:
                    if (vi + 1) in st["m04"]:
                        rep.violation(("C04", _kwsig(st["doc"])),
                                      _msg04(st, pyvals[vi], o), _payload(st, vi, o))
                elif o["kind"] == "ok":
                    add_event(si, vi, '[id |-> @ID@, p |-> "C04", doc |-> %s, v |-> %s, kind |-> "ok", out |-> %s]'
                              % (doc_tla(), tlajson_to_tla(tagged_values[vi]), _out(o)))
                # the used element after `additionalProperties` was reassigned
                ro = ob["reconf_calls"][vi] if ob.get("reconf_calls") else None
                if ro is not None and ro["kind"] == "ok":
                    try:
                        add_event(si, ("reconf", vi), '[id |-> @ID@, p |-> "C04", doc |-> %s, v |-> %s, kind |-> "ok", out |-> %s]'
                                  % (codec.json_to_tla_schema(ob["reconf_doc"]), tlajson_to_tla(tagged_values[vi]), _out(ro)))
                    except ValueError:
                        pass
                # the same class through a subclass that adds nothing
                so = ob["sub_calls"][vi] if ob.get("sub_calls") else None
                if so is not None and so["kind"] == "ok" and not (o["kind"] == "ok" and codec.norm_real(so["out"]) == codec.norm_real(o["out"])):
                    stats_sub[0] += 1
                    add_event(si, ("sub", vi), '[id |-> @ID@, p |-> "C04", doc |-> %s, v |-> %s, kind |-> "ok", out |-> %s]'
                              % (doc_tla(), tlajson_to_tla(tagged_values[vi]), _out(so)))
                elif so is not None:
                    stats_sub[1] += 1
            elif pid == "C05":
                if not st.get("dobs"):
                    continue
                if o["kind"] == "ok" and isinstance(pyvals[vi], dict):
                    nontrivial.add(si)
                if o["kind"] == p["kind"]:
                    if (vi + 1) in st["m05w"]:
                        rep.violation(("C05w", _kwsig(st["doc"])),
                                      "object class rejects data omitting a required property that declares a default: "
                                      + _msg05(st, pyvals[vi], o), _payload(st, vi, o))
                elif o["kind"] != "ok" and isinstance(pyvals[vi], dict):
                    add_event(si, vi, '[id |-> @ID@, p |-> "C05w", doc |-> %s, v |-> %s, kind |-> %s]'
                              % (doc_tla(), tlajson_to_tla(tagged_values[vi]), codec.tla_str(o["kind"])))
                if same and dobs_same:
                    if (vi + 1) in st["m05"]:
                        rep.violation(("C05", _kwsig(st["doc"])),
                                      _msg05(st, pyvals[vi], o), _payload(st, vi, o))
                elif o["kind"] == "ok":
                    dl = "<<" + ", ".join("<<%s, %s>>" % (codec.tla_str(s), obs_to_tla(x))
                                          for s, x in ob["dobs"]) + ">>"
                    add_event(si, vi, '[id |-> @ID@, p |-> "C05", doc |-> %s, v |-> %s, kind |-> "ok", out |-> %s, dobs |-> %s]'
                              % (doc_tla(), tlajson_to_tla(tagged_values[vi]), _out(o), dl))
                # a required property given a default in place after the element was used
                lo = ob["later_default_calls"][vi] if ob.get("later_default_calls") else None
                if lo is not None and isinstance(pyvals[vi], dict):
                    try:
                        d2t = codec.json_to_tla_schema(ob["later_default_doc"])
                        add_event(si, ("later", vi), '[id |-> @ID@, p |-> "C05w", doc |-> %s, v |-> %s, kind |-> %s]'
                                  % (d2t, tlajson_to_tla(tagged_values[vi]), codec.tla_str(lo["kind"])))
                        if lo["kind"] == "ok":
                            dl = "<<" + ", ".join("<<%s, %s>>" % (codec.tla_str(s2), obs_to_tla(x2))
                                                  for s2, x2 in ob["later_default_dobs"]) + ">>"
                            add_event(si, ("later", vi), '[id |-> @ID@, p |-> "C05", doc |-> %s, v |-> %s, kind |-> "ok", out |-> %s, dobs |-> %s]'
                                      % (d2t, tlajson_to_tla(tagged_values[vi]), _out(lo), dl))
                    except ValueError:
                        pass
                # the same document dictionary parsed a second time
                ao = ob["again_calls"][vi] if ob.get("again_calls") else None
                if ao is not None and st.get("dobs") and ao["kind"] == "ok" and not (
                        o["kind"] == "ok" and codec.norm_real(ao["out"]) == codec.norm_real(o["out"])):
                    dl = "<<" + ", ".join("<<%s, %s>>" % (codec.tla_str(s), obs_to_tla(x))
                                          for s, x in ob["dobs"]) + ">>"
                    add_event(si, ("again", vi), '[id |-> @ID@, p |-> "C05", doc |-> %s, v |-> %s, kind |-> "ok", out |-> %s, dobs |-> %s]'
                              % (doc_tla(), tlajson_to_tla(tagged_values[vi]), _out(ao), dl))
                # the same declarations entered with properties.update(...)
                uo = ob["upd_calls"][vi] if ob.get("upd_calls") else None
                if uo is not None and uo["kind"] == "ok" and not (
                        o["kind"] == "ok" and codec.norm_real(uo["out"]) == codec.norm_real(o["out"])):
                    dl = "<<" + ", ".join("<<%s, %s>>" % (codec.tla_str(s), obs_to_tla(x))
                                          for s, x in ob["dobs"]) + ">>"
                    add_event(si, ("upd", vi), '[id |-> @ID@, p |-> "C05", doc |-> %s, v |-> %s, kind |-> "ok", out |-> %s, dobs |-> %s]'
                              % (doc_tla(), tlajson_to_tla(tagged_values[vi]), _out(uo), dl))
            elif pid == "C10":
                if o["kind"] not in ("ok", "reject"):
                    add_event(si, vi, '[id |-> @ID@, p |-> "C10", kind |-> %s]' % codec.tla_str(o["kind"]))
        # ---------------- calling with no value
        if pid == "C05":
            checked += 1
            if st["edef"]["k"] != "np":
                nontrivial.add(("np", si))
            try:
                edef_same = codec.norm_real(ob["edef"]) == codec.norm_tagged(st["edef"])
            except (ValueError, TypeError):
                edef_same = False
            np_same = edef_same and same_call(ob["np"], st["np"]) and (
                ob["dconv"] is None or same_call(ob["dconv"], st["dconv"]))
            an = ob.get("again_np")
            def _same_real(a, b):      # two REAL observations
                if a["kind"] != b["kind"]:
                    return False
                return a["kind"] != "ok" or codec.norm_real(a["out"]) == codec.norm_real(b["out"])
            if an is not None and not _same_real(an, ob["np"]):
                try:
                    add_event(si, "np-again", '[id |-> @ID@, p |-> "C05np", doc |-> %s, edef |-> %s, np |-> %s, dconv |-> %s]'
                              % (doc_tla(), codec.py_to_tla(ob["edef"]), obs_to_tla(an),
                                 obs_to_tla(ob["dconv"] or {"kind": "reject", "out": None})))
                except ValueError:
                    pass
            if np_same:
                if st["m05np"]:
                    rep.violation(("C05np", _kwsig(st["doc"])),
                                  "calling the element with no value does not yield its default: "
                                  + json.dumps(codec.schema_to_json(st["doc"]))[:200]
                                  + " -> " + repr(ob["np"]["kind"]),
                                  dict(state=st, observed=ob, tag="np"))
            else:
                drift["np"] += 1
                dc = ob["dconv"] or {"kind": "reject", "out": None}
                try:
                    edef_t = codec.py_to_tla(ob["edef"])
                except ValueError:
                    # the element's `default` attribute (a JSON value of the document) holds objects
                    # that are not JSON after the calls: the declared default itself was converted
                    rep.violation(("C05np", "default-attribute-altered", _kwsig(st["doc"])),
                                  "after calling the element its `default` attribute is no longer the JSON value "
                                  "the document declares (it holds converted objects): "
                                  + json.dumps(codec.schema_to_json(st["doc"]))[:200] + " -> " + repr(ob["edef"])[:160],
                                  dict(state=st, tag="np"))
                    continue
                add_event(si, "np", '[id |-> @ID@, p |-> "C05np", doc |-> %s, edef |-> %s, np |-> %s, dconv |-> %s]'
                          % (doc_tla(), edef_t, obs_to_tla(ob["np"]), obs_to_tla(dc)))
        if pid == "C10":
            k = ob["np"]["kind"]
            if k not in ("ok", "reject"):
                add_event(si, "np", '[id |-> @ID@, p |-> "C10", kind |-> %s]' % codec.tla_str(k))

    # ---------------- C01: who checks the reference?  Draft6.tla vs jsonschema's Draft6Validator
    xref = {}
    if pid == "C01" and not replay_file:
        import shutil
        import subprocess
        import tempfile
        if shutil.which("python3-vt"):
            docs = [[codec.schema_to_json(s["doc"]), s["allowed"]] for s in states
                    if s["parse"] == "ok" and s.get("allowed")]
            if tier == "thorough":
                docs = docs[:: max(1, len(docs) // 60000)]
            tmp = tempfile.NamedTemporaryFile("w", suffix=".json", delete=False)
            json.dump({"values": pyvals, "docs": docs}, tmp)
            tmp.close()
            try:
                r = subprocess.run(["python3-vt", os.path.join(os.path.dirname(os.path.abspath(__file__)), "refcheck.py"),
                                    tmp.name], capture_output=True, text=True, timeout=1800)
            finally:
                os.unlink(tmp.name)
            if r.returncode != 0 or not r.stdout.strip():
                raise MachineryError("reference cross-check could not run: " + r.stderr[-400:])
            xref = json.loads(r.stdout.strip().splitlines()[-1])
            if xref["disagreements"]:
                raise MachineryError("Draft6.tla disagrees with jsonschema's Draft6Validator (the reference "
                                     "layer is wrong, no verdict): " + json.dumps(xref["disagreements"][:3])[:600])
            xref = dict(verdicts_compared=xref["checked"], skipped=xref["skipped"], disagreements=0,
                        skipped_rule="documents with format/$ref, verdict sets left open by D3, integral floats under 'integer' (D1), cases jsonschema itself fails on")
        else:
            xref = dict(skipped="python3-vt (jsonschema) not available")

    # ---------------- C01: independent random documents (code -> spec, no prediction involved)
    rand_info = {}
    if pid == "C01" and not replay_file:
        import randdocs
        n_docs = 150 if tier == "quick" else 2500
        rdocs = randdocs.documents(common.SEED + 11, n_docs)
        robs = drive.pmap(_rand_obs, rdocs, chunksize=16)
        n_ev = 0
        for di, (d, ro) in enumerate(zip(rdocs, robs)):
            if ro is None:
                continue
            try:
                dt = codec.json_to_tla_schema(d)
            except ValueError:
                continue
            for vi, k in enumerate(ro):
                eid = len(ev_index) + 1
                ev_index[eid] = (("rand", d), vi)
                events.append((eid, '[id |-> %d, p |-> "C01", doc |-> %s, v |-> %s, kind |-> %s]'
                               % (eid, dt, tlajson_to_tla(tagged_values[vi]), codec.tla_str(k))))
                n_ev += 1
        rand_info = dict(random_documents=len(rdocs), verdicts_adjudicated=n_ev, depth=3)

    # ---------------- stage 3: adjudicate drift against the reference predicates
    adj = dict(events=0, tlc_states=0)
    if events:
        try:
            rejected, adj = df.adjudicate(events)
        except ValueError as exc:
            raise MachineryError(f"cannot encode an observation for TLC: {exc}")
        for eid in sorted(rejected):
            si, tag = ev_index[eid]
            if isinstance(si, tuple):       # random document
                d = si[1]
                rep.violation(("C01-random", ",".join(sorted(d))),
                              f"observation rejected by R_C01: schema {json.dumps(d)[:260]} value "
                              f"{json.dumps(pyvals[tag])[:80]}", dict(schema=d, value_index=tag))
                continue
            st, ob = states[si], observations[si]
            if isinstance(tag, tuple) and tag[0] == "later":
                o = ob["later_default_calls"][tag[1]]
                rep.violation((pid + "-default-given-later", _kwsig(st["doc"])),
                              f"observation rejected by R_{pid}: after use, the required property {ob['later_default_src']!r} of "
                              f"{json.dumps(codec.schema_to_json(st['doc']))[:160]} was given a default in place; from "
                              f"{json.dumps(pyvals[tag[1]])[:80]} the element gives {o['kind']} {_short(o)}", _payload(st, tag[1], o))
            elif isinstance(tag, tuple) and tag[0] == "reconf":
                o = ob["reconf_calls"][tag[1]]
                rep.violation((pid + "-after-reassignment", _kwsig(st["doc"])),
                              f"observation rejected by R_{pid}: after use, additionalProperties = Number() was assigned to the element of "
                              f"{json.dumps(codec.schema_to_json(st['doc']))[:160]}; it builds from "
                              f"{json.dumps(pyvals[tag[1]])[:80]}: {_short(o)}", _payload(st, tag[1], o))
            elif isinstance(tag, tuple) and tag[0] == "again":
                o = ob["again_calls"][tag[1]]
                rep.violation((pid + "-second-parse", _kwsig(st["doc"])),
                              f"observation rejected by R_{pid}: the document dictionary of "
                              f"{json.dumps(codec.schema_to_json(st['doc']))[:160]} parsed a second time builds from "
                              f"{json.dumps(pyvals[tag[1]])[:80]}: {_short(o)}", _payload(st, tag[1], o))
            elif isinstance(tag, tuple) and tag[0] == "upd":
                o = ob["upd_calls"][tag[1]]
                rep.violation((pid + "-update", _kwsig(st["doc"])),
                              f"observation rejected by R_{pid}: the declarations of "
                              f"{json.dumps(codec.schema_to_json(st['doc']))[:160]} entered with properties.update(...) build from "
                              f"{json.dumps(pyvals[tag[1]])[:80]}: {_short(o)}", _payload(st, tag[1], o))
            elif isinstance(tag, tuple) and tag[0] == "sub":
                o = ob["sub_calls"][tag[1]]
                rep.violation((pid + "-subclass", _kwsig(st["doc"])),
                              f"observation rejected by R_{pid}: a subclass adding nothing to the class parsed from "
                              f"{json.dumps(codec.schema_to_json(st['doc']))[:160]} builds from "
                              f"{json.dumps(pyvals[tag[1]])[:80]}: {_short(o)}", _payload(st, tag[1], o))
            elif isinstance(tag, int):
                o = ob["calls"][tag]
                rep.violation((pid + "-drift", _kwsig(st["doc"])),
                              f"observation rejected by R_{pid}: schema "
                              f"{json.dumps(codec.schema_to_json(st['doc']))[:160]} value "
                              f"{json.dumps(pyvals[tag])[:80]} -> {o['kind']} {_short(o)}",
                              _payload(st, tag, o))
            else:
                rep.violation((pid + "-drift-" + tag, _kwsig(st["doc"])),
                              f"observation ({tag}) rejected by R_{pid}: schema "
                              f"{json.dumps(codec.schema_to_json(st['doc']))[:200]} -> "
                              f"{ob.get('parse')} {ob.get('strip')} {ob.get('np')}",
                              dict(state=st, observed=ob, tag=tag))

    ext_cov = {}
    if pid == "C10" and not replay_file:
        import checks_extreme
        ext_cov = checks_extreme.collect(rep, tier)
        ext_cov.update(checks_extreme.random_extremes(rep, tier))
    ext01 = {}
    if pid == "C01" and not replay_file:
        import checks_extreme
        ext01 = checks_extreme.collect(rep, tier, pid="C01")
    refs_cov = {}
    if pid == "C20" and not replay_file:
        import checks_refs
        refs_cov = checks_refs.collect(rep, "C20", tier)
    # ---------------- evidence
    bfs = info.get("bfs", {})
    sim = info.get("sim", {})
    seed = info.get("seed", {})
    witnesses = dict(
        AddLeaf=any(s["size"] >= 1 and s["depth"] == 0 for s in states),
        AddSub=any(s["depth"] >= 1 for s in states),
        AddDeep=any(s["depth"] >= 1 and s["size"] >= 2 for s in states),
        AddUnsupported=any(s.get("uns") for s in states))
    if not replay_file:
        if not (witnesses["AddLeaf"] and witnesses["AddSub"]):
            raise MachineryError("vacuity: a builder action was never taken")
        if pid == "C20" and not witnesses["AddUnsupported"]:
            raise MachineryError("vacuity: no state contains an unsupported keyword")
        if len(nontrivial) < 2 and pid != "C10":
            raise MachineryError("vacuity: antecedent of the property never true")
    samples = []
    for si in (1, len(states) // 2, len(states) - 1):
        if 0 <= si < len(states):
            st, ob = states[si], observations[si]
            samples.append(dict(schema=codec.schema_to_json(st["doc"]), source=st.get("src"),
                                parse=ob["parse"],
                                verdicts=[c["kind"] for c in ob["calls"]][:12]))
    coverage = dict(
        states=int(bfs.get("distinct", 0)) + int(sim.get("distinct", 0))
        + int(seed.get("distinct", 0)) + adj.get("tlc_states", 0),
        transitions=int(bfs.get("states", 0)) + int(sim.get("states", 0))
        + int(seed.get("states", 0)) + adj.get("events", 0),
        traces_validated_against_impl=len(states),
        evaluations=checked,
        distinct_nontrivial=len(nontrivial),
        rule="one case = (exported document state, value of the universe); non-trivial = "
             + {"C01": "distinct (document, verdict) pairs",
                "C04": "documents with at least one accepted value",
                "C05": "object documents with a defaulted property and an accepted object, plus documents with their own default",
                "C10": "all calls (any outcome kind counts)",
                "C20": "distinct keyword signatures of documents containing an unsupported keyword"}[pid],
        samples=samples,
        exhaustive=False,
        bounds=dict(bfs=bfs.get("consts"), seeds=dict(consts=seed.get("consts"), levels=seed.get("levels")),
                    simulate=sim.get("consts"),
                    simulate_behaviours=sim.get("num"), simulate_depth=sim.get("sim_depth"),
                    values=len(pyvals)),
        bfs_exhaustive_within_bound=True,
        tlc=dict(bfs=bfs, seeds=seed, sim=sim, trace_validation=adj),
        action_witnesses=witnesses,
        drift=dict(drift), subclass_results=dict(adjudicated=stats_sub[0], same_as_parent=stats_sub[1]),
        independent_random_documents=rand_info, reference_crosscheck=xref,
        numeric_extremes=ext01,
        drift_events_adjudicated=min(len(ev_index), MAX_EVENTS),
        drift_events_total=len(ev_index),
        model_switches="see spec/Elements.tla, spec/Parser.tla (DeepBool, PlaceholderBySource, ...)",
    )
    if ext_cov:
        coverage["extremes"] = ext_cov
        coverage["states"] += ext_cov["extreme_states"] + ext_cov["extreme_tlc_states"]
        coverage["transitions"] += ext_cov["extreme_cases"]
        coverage["traces_validated_against_impl"] += ext_cov["extreme_cases"]
    if pid == "C04" and not replay_file:
        inst = instances_model_part(tier)
        coverage["instances_model"] = inst
        coverage["states"] += inst["states"]
        coverage["transitions"] += inst["transitions"]
        coverage["traces_validated_against_impl"] += inst["instances_compared"]
    if refs_cov:
        coverage["reference_graphs"] = refs_cov
        coverage["states"] += refs_cov["states"]
        coverage["transitions"] += refs_cov["transitions"]
        coverage["traces_validated_against_impl"] += refs_cov["traces_validated_against_impl"]
    return rep.finish(coverage, time.time() - t0,
                      assumptions=["A1 bounded exhaustiveness", "A3 regex family",
                                   "A4 binary-exact rationals", "A7 Draft6.tla is the reference"])


# ------------------------------------------------------------------ model instances (C04)
def _inst_obs(state):
    """never raises: a tree on which instances cannot even be printed or compared is reported
    as drift here (the verdict about it belongs to the main pipeline of the check)"""
    try:
        return _inst_obs_unsafe(state)
    except Exception as exc:  # noqa
        return {"parse": "ok", "err": type(exc).__name__ + ": " + str(exc)[:100]}


def _inst_obs_unsafe(state):
    """real results of one document for the value indices the MODEL accepts: repr text read
    back with ast (terms of Repr.tla) and the partition == induces on them"""
    import ast
    import checks_elem
    if not state["usable"]:
        return None
    _, pyvals = df.values()
    kind, el = drive.parse_labelled(codec.schema_to_json(state["doc"]))
    if kind != "ok":
        return {"parse": kind}
    outs, terms = [], []
    for i in state["idx"]:
        k, r = drive.call(el, pyvals[i - 1])
        if k != "ok":
            return {"parse": "ok", "rejected": i}
        outs.append(r)
        try:
            terms.append(checks_elem._norm_term(checks_elem._term(ast.parse(repr(r), mode="eval").body)))
        except Exception as exc:  # noqa
            return {"parse": "ok", "err": type(exc).__name__ + ": " + str(exc)[:100], "text": repr(r)[:200]}
    eqc = []
    for i, a in enumerate(outs):
        j = next(j for j in range(i + 1) if (outs[j] == a) is True)
        eqc.append(j + 1)
    sym = all((outs[i] == outs[j]) == (outs[j] == outs[i]) for i in range(len(outs)) for j in range(i))
    return {"parse": "ok", "terms": terms, "eqc": eqc, "symmetric": sym,
            "texts": [repr(r)[:120] for r in outs[:3]]}


def instances_model_part(tier):
    """MC_Inst: the model's instance representations and == partition for every document with an
    object class in scope, compared with the real instances (Instances.tla bound to object.py)."""
    import checks_elem
    lines, meta = df._cached_tlc("inst-bfs", df._cfg(df.TIERS[tier]["bfs"], False), module="MC_Inst")
    seeds, smeta = df._cached_tlc("inst-seed", df._cfg(df.TIERS[tier]["seed"], False, "SeedSpec",
                                                        df.TIERS[tier]["seed_levels"]), module="MC_Inst")
    states = [s for s in lines + seeds if s["usable"]]
    obs = drive.pmap(_inst_obs, states, chunksize=32)
    out = dict(states=meta["distinct"] + smeta["distinct"], transitions=meta["states"] + smeta["states"],
               documents_with_classes=len(states), instances_compared=0, repr_drift=0, eq_drift=0,
               other_drift=0, model_eq_not_equivalence=sum(1 for s in states if s["mEq"]))
    for st, ob in zip(states, obs):
        if not ob or ob.get("parse") != "ok" or "rejected" in ob or "err" in ob:
            out["other_drift"] += 1
            out.setdefault("first_drift", dict(schema=codec.schema_to_json(st["doc"]), real=ob))
            continue
        out["instances_compared"] += len(ob["terms"])
        want = [checks_elem._norm_term(t) for t in st["reprs"]]
        if want != ob["terms"]:
            out["repr_drift"] += 1
            k = next(i for i in range(len(want)) if want[i] != ob["terms"][i])
            out.setdefault("first_drift", dict(schema=codec.schema_to_json(st["doc"]),
                                               model=json.dumps(want[k], default=str)[:300],
                                               real=json.dumps(ob["terms"][k], default=str)[:300]))
        if st["eqc"] != ob["eqc"] or not ob["symmetric"]:
            out["eq_drift"] += 1
            out.setdefault("first_eq_drift", dict(schema=codec.schema_to_json(st["doc"]), model=st["eqc"],
                                                  real=ob["eqc"]))
    return out


def _rand_obs(doc):
    """verdict kinds of a random document on the value universe (None when it does not parse)"""
    _, pyvals = df.values()
    kind, el = drive.parse_labelled(doc)
    if kind != "ok":
        return None
    return [drive.call(el, v)[0] for v in pyvals]


def _out(o):
    return codec.py_to_tla(o["out"])


def _short(o):
    try:
        return repr(codec.norm_real(o["out"]))[:120] if o["kind"] == "ok" else o.get("msg", "")[:80]
    except Exception:
        return "?"


def _payload(st, vi, o):
    return dict(state=st, value_index=vi, observed=dict(kind=o["kind"], out=repr(o.get("out"))[:300]))


def _msg01(st, v, o):
    return (f"schema {json.dumps(codec.schema_to_json(st['doc']))[:200]} value {json.dumps(v)[:80]}: "
            f"statham says {o['kind']}, Draft 6 allows only "
            f"{'accept' if o['kind'] != 'ok' else 'reject'}")


def _msg04(st, v, o):
    return (f"schema {json.dumps(codec.schema_to_json(st['doc']))[:200]} value {json.dumps(v)[:80]}: "
            f"result is not the complete unaltered input: {_short(o)}")


def _msg05(st, v, o):
    return (f"schema {json.dumps(codec.schema_to_json(st['doc']))[:200]} value {json.dumps(v)[:80]}: "
            f"default of an omitted property not applied as specified: {_short(o)}")
