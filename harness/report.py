"""Verdict reporting: violation aggregation by root-cause key, known findings, evidence."""
import json
import re
from collections import OrderedDict

import common

MAX_LINES = 25


class Reporter:
    def __init__(self, pid, tier):
        self.pid, self.tier = pid, tier
        self.groups = OrderedDict()   # key -> dict(count, msg, payload)
        self.level = "model_checking"

    def violation(self, key, msg, payload):
        g = self.groups.get(key)
        if g is None:
            self.groups[key] = dict(count=1, msg=msg, payload=payload)
        else:
            g["count"] += 1

    def finish(self, coverage, wall, assumptions=None):
        kf = common.load_known_findings()
        listed = [f for f in kf.get("findings", []) if f["property"] == self.pid]
        seen_findings = set()
        unlisted = []
        for key, g in self.groups.items():
            keystr = "|".join(str(k) for k in key) + "|" + g["msg"]
            hit = None
            for f in listed:
                if ("key" in f and list(key) == f["key"]) or \
                   ("pattern" in f and re.search(f["pattern"], keystr)):
                    hit = f
                    break
            if hit:
                seen_findings.add(hit["id"])
            else:
                unlisted.append((key, g))
        for f in listed:
            note = "" if f["id"] in seen_findings else " (not exercised by this run)"
            print(f"KNOWN-FINDING: property={self.pid} {f['what']}{note}")
        nviol = 0
        for key, g in unlisted:
            nviol += g["count"]
        for key, g in unlisted[:MAX_LINES]:
            path = common.write_replay(self.pid, dict(property=self.pid, key=list(key), msg=g["msg"],
                                                      occurrences=g["count"], **g["payload"]))
            print(f"VIOLATION property={self.pid} replay={path}")
            print(f"  [{g['count']}x] {g['msg']}")
        if len(unlisted) > MAX_LINES:
            print(f"  ... and {len(unlisted) - MAX_LINES} more distinct root-cause groups")
        coverage["violation_groups"] = len(unlisted)
        coverage["known_findings_observed"] = sorted(seen_findings)
        path = common.write_evidence(self.pid, self.tier, self.level, coverage, wall, nviol,
                                     assumptions)
        status = "FAIL" if unlisted else "PASS"
        print(f"{status} {self.pid} tier={self.tier} wall={wall:.1f}s evidence={path}")
        return 1 if unlisted else 0
