"""C14 -- concurrent validation against shared models equals sequential validation.

Pipeline (see spec/Threads.tla, spec/BindProtocol.tla, spec/ThreadsRef.tla, DESIGN.md 5/C14):

 1  record   every call of every instance (case x thread group x cold|warm tree) is run ALONE on
             a fresh tree under the access monitor: its access program over pre-existing objects,
             its outcome, the projected tree before/after, the trees sequential orders leave.
 2  TLC      MC_Bind   : the abstract bind protocol (part i), all interleavings;
             MC_Threads: the recorded programs projected on the locations somebody writes, ALL
                         interleavings (part ii); every state with ~ModelOK is exported with its
                         interleaving (TLCExt!Trace);
             MC_Threads -simulate (Full): schedules over all gate points, in bursts.
 3  replay   on REAL threads through the gate: (a) every exported candidate, (b) the sampled
             schedules, (d) pre-emption sweeps (thread 1 suspended at a gate point / library
             function entry, a complete call of thread 2 there), each on a fresh tree;
             (c) free-running threads (switch interval 1e-6, barrier, monitor write log).
 4  judge    every observation that differs from the prediction (alone outcome, unchanged tree)
             plus a sample of those that do not is written to TraceData.tla and adjudicated by
             TLC against R_C14 (Trace_Threads).  Only a rejected observation is a violation.

ModelOK (all reads sequential, memory restored) is about the mechanism and only DIRECTS the
replay; a correct lazy cache or a lock violates it somewhere and satisfies R_C14.  R_C14 speaks
about observables: verdict and projected result of every thread equal those of the call run alone;
the projected tree (public keywords and declared properties of every element, binding of every
property incl. UNBOUND_PROPERTY, contents of the containers they hold, format register, module
containers) is what it was before -- or what some sequential order of the same calls leaves
(a change a sequential run makes as well is C08's matter, not a schedule's).

Self-test in every run: the case "control" is an element class defined by the harness that keeps
per-call state on the shared element.  It must be rejected through the TLC-candidate channel and
through the sweep (else exit 2); its rejections are never reported.

A violation's replay file holds the schedule in anchored form (thread, last access performed:
op, location, n-th occurrence), which survives the process-dependent order of an element's
validators; `--replay` re-records the instance and re-executes just that schedule.
"""
import json
import multiprocessing as mp
import random
import signal
import time
from collections import Counter, OrderedDict, defaultdict

import common
from common import MachineryError, run_tlc, SEED
from report import Reporter

# groups2/groups3: thread groups of 2 / 3 payloads per case; cap: exported candidates per case and
# TLC worker; per_dev: replayed candidates per (kind, deviating thread, its read); sim_per_inst:
# sampled TLC schedules per instance; sweep: variant -> (pre-emption points per direction at
# monitored accesses, at accesses + library function entries); free_rounds: free-running rounds
# per instance; judged_sample: non-drifted observations also adjudicated by TLC.
TIERS = {
    "quick": dict(groups2=2, groups3=0, variants=("cold", "warm"), cap=12, per_dev=2, max_cand=40,
                  sim_per_inst=4, bursts="{1, 2, 5, 15, 60, 240}", sweep=dict(cold=(120, 16)),
                  free_rounds=6, bfs_workers=8, judged_sample=600),
    "thorough": dict(groups2=9, groups3=2, variants=("cold", "warm"), cap=60, per_dev=3, max_cand=200,
                     sim_per_inst=16, bursts="{1, 2, 3, 5, 10, 25, 60, 150, 400}",
                     sweep=dict(cold=(10 ** 6, 400), warm=(200, 0)), free_rounds=40, bfs_workers=12,
                     judged_sample=4000),
}
NPROC = min(common.NPROC, 16)


# ---------------------------------------------------------------------- process pool
def _init_worker():
    signal.signal(signal.SIGINT, signal.SIG_IGN)
    import threadsfamily as tf
    tf.setup_process()


def _call(args):
    fn_name, task = args
    import threadsfamily as tf
    try:
        return ("ok", getattr(tf, fn_name)(task))
    except MachineryError as exc:
        return ("machinery", str(exc))
    except Exception as exc:  # noqa
        import traceback
        return ("machinery", "worker failed: %r\n%s" % (exc, traceback.format_exc()[-1500:]))


class Pool:
    def __init__(self):
        ctx = mp.get_context("fork")
        self.pool = ctx.Pool(NPROC, initializer=_init_worker)

    def map_async(self, fn_name, tasks):
        pool = self

        class _Res:
            def __init__(self, ar):
                self.ar = ar

            def get(self, timeout):
                out = []
                for status, val in self.ar.get(timeout):
                    if status != "ok":
                        raise MachineryError(val)
                    out.append(val)
                return out
        return _Res(pool.pool.map_async(_call, [(fn_name, t) for t in tasks], chunksize=1))

    def map(self, fn_name, tasks, chunksize=1):
        out = []
        for status, val in self.pool.imap(_call, [(fn_name, t) for t in tasks], chunksize=chunksize):
            if status != "ok":
                raise MachineryError(val)
            out.append(val)
        return out

    def close(self):
        self.pool.terminate()
        self.pool.join()


# ---------------------------------------------------------------------- TLC encoding
def primaries(log):
    """full program of one thread: list of (kind, loc, val, old) for r / w / W events"""
    return [e for e in log if e[0] in ("r", "w", "W")]


def encode_instance(inst):
    """-> dict(locs, vals, mem0, prog (projected, per thread), at, full (per thread: list of
    (is_primary, projected position or 0)), conflicts)"""
    fulls = [primaries(lg) for lg in inst["progs"]]
    written = set()
    for f in fulls:
        for e in f:
            if e[0] in ("w", "W"):
                written.add(e[1])
    locs = sorted(written)
    lidx = {l: i + 1 for i, l in enumerate(locs)}
    vals = {"<absent>": 0}

    def vid(v):
        if v not in vals:
            vals[v] = len(vals)
        return vals[v]

    mem0, conflicts = {}, 0
    for f in fulls:
        first = {}
        for e in f:
            if e[1] in lidx and e[1] not in first:
                first[e[1]] = e[2] if e[0] == "r" else e[3]
        for l, v in first.items():
            if v == "?":
                continue
            if l in mem0 and mem0[l] != v:
                conflicts += 1
            mem0.setdefault(l, v)
    prog, at, full = [], [], []
    for f in fulls:
        p, a, fl = [], [], []
        for e in f:
            prim = e[0] != "W"
            if e[1] in lidx:
                p.append(("r" if e[0] == "r" else "w", lidx[e[1]], vid(e[2])))
                a.append(len(p))
                fl.append((prim, len(p)))
            else:
                a.append(0)
                fl.append((prim, 0))
        prog.append(p)
        at.append(a)
        full.append(fl)
    m0 = [vid(mem0.get(l, "<absent>")) for l in locs]
    return dict(locs=locs, vals=vals, mem0=m0, prog=prog, at=at, full=full, conflicts=conflicts)


def tla_case(enc):
    def ev(e):
        return '[op |-> "%s", loc |-> %d, val |-> %d]' % e
    progs = ", ".join("<<" + ", ".join(ev(e) for e in p) + ">>" for p in enc["prog"])
    ats = ", ".join("<<" + ",".join(str(x) for x in a) + ">>" for a in enc["at"])
    return "[mem0 |-> <<%s>>, prog |-> <<%s>>, at |-> <<%s>>]" % (
        ",".join(str(v) for v in enc["mem0"]) , progs, ats)


def data_module(encs):
    return ("---- MODULE ThreadsData ----\nEXTENDS Integers, Sequences\nDataCases == <<\n"
            + ",\n".join(tla_case(e) for e in encs) + "\n>>\n====\n")


def cfg(full, bursts, cap):
    return ("CONSTANTS\n Sel <- DataSel\n Full = %s\n Bursts = %s\n Cap = %d\n"
            "SPECIFICATION Spec\nINVARIANT Inv\nCHECK_DEADLOCK FALSE\n"
            % ("TRUE" if full else "FALSE", bursts, cap))


# ---------------------------------------------------------------------- schedules
def gates_upto(full, idx):
    """number of primary (gate) events among full[0:idx]"""
    return sum(1 for prim, _p in full[:idx] if prim)


def lift_path(enc, path, dev_thread):
    """TLC path over projected events -> gate schedule [(tid, n)] + tail order"""
    n = len(enc["prog"])
    pos_full = []     # per thread: projected position -> full index (1-based)
    for t in range(n):
        m = {}
        for i, (_prim, p) in enumerate(enc["full"][t]):
            if p:
                m[p] = i + 1
        pos_full.append(m)
    ppc = [0] * n      # projected events executed
    passed = [0] * n   # gate points passed
    sched = []
    for t in path:
        ppc[t - 1] += 1
        fi = pos_full[t - 1][ppc[t - 1]]
        g = gates_upto(enc["full"][t - 1], fi)
        k = g - passed[t - 1]
        if k > 0:
            if sched and sched[-1][0] == t:
                sched[-1] = (t, sched[-1][1] + k)
            else:
                sched.append((t, k))
            passed[t - 1] = g
    tail = ([dev_thread] if dev_thread else []) + [t for t in range(1, n + 1) if t != dev_thread]
    return sched, tail


def lift_sched(enc, sched):
    """TLC Full-mode schedule (bursts over full indices) -> gate schedule"""
    n = len(enc["full"])
    pc = [0] * n
    out = []
    for t, m in sched:
        lo, hi = pc[t - 1], pc[t - 1] + m
        k = sum(1 for prim, _p in enc["full"][t - 1][lo:hi] if prim)
        pc[t - 1] = hi
        if k > 0:
            if out and out[-1][0] == t:
                out[-1] = (t, out[-1][1] + k)
            else:
                out.append((t, k))
    return out


def anchor_schedule(paths, schedule):
    """A gate schedule in a form that survives a different validator order (the order in which an
    element's validators run differs from process to process): every switch point is named by the
    last access the thread performed there -- (op, location, n-th such access)."""
    pos, out = {}, []
    for item in schedule:
        if item[0] == "F":
            out.append(["F", item[1]])
            continue
        t, n = item
        pos[t] = min(pos.get(t, 0) + n, len(paths[t - 1]))
        if pos[t] == 0:
            out.append([t, None])
            continue
        e = paths[t - 1][pos[t] - 1]
        occ = sum(1 for x in paths[t - 1][:pos[t]] if x[0] == e[0] and x[1] == e[1])
        out.append([t, [e[0], e[1], occ]])
    return out


def unanchor_schedule(paths, anchored):
    pos, out = {}, []
    for item in anchored:
        if item[0] == "F":
            out.append(("F", item[1]))
            continue
        t, a = item
        if a is None:
            continue
        occ, idx = 0, None
        for i, x in enumerate(paths[t - 1]):
            if x[0] == a[0] and x[1] == a[1]:
                occ += 1
                if occ == a[2]:
                    idx = i + 1
                    break
        if idx is None:
            return None
        if idx > pos.get(t, 0):
            out.append((t, idx - pos.get(t, 0)))
            pos[t] = idx
    return out


# ---------------------------------------------------------------------- part (i) conformance
def bind_conformance(bind_progs, inst, enc, prop_labels):
    """abstract CallProg of each thread against the recorded program projected on the binding
    fields of the declared properties.  prop_labels: abstract property number -> monitor label.
    Returns (conforms, per-thread index map abstract event -> full index, detail)."""
    fields = {1: "parent", 2: "source", 3: "name"}
    maps, detail = [], []
    ok = True
    for t, aprog in enumerate(bind_progs):
        want = []
        for e in aprog:
            p, f = (e["loc"] - 1) // 3 + 1, (e["loc"] - 1) % 3 + 1
            want.append((e["op"], "%s.%s" % (prop_labels[p], fields[f])))
        real = [(i + 1, ("r" if e[0] == "r" else "w", e[1]))
                for i, e in enumerate(primaries(inst["progs"][t]))
                if any(e[1] == "%s.%s" % (lab, f) for lab in prop_labels.values() for f in fields.values())]
        m, j = {}, 0
        unmatched_writes = 0
        for fi, ev in real:
            if j < len(want) and ev == want[j]:
                m[j + 1] = fi
                j += 1
            elif ev[0] == "w":
                unmatched_writes += 1
        good = j == len(want) and unmatched_writes == 0
        ok = ok and good
        maps.append(m)
        detail.append(dict(thread=t + 1, abstract=len(want), real=len(real), matched=j,
                           unmatched_real_writes=unmatched_writes))
    return ok, maps, detail


# ---------------------------------------------------------------------- main
def run(pid, tier, replay_file=None):
    t0 = time.time()
    rep = Reporter(pid, tier)
    cf = TIERS[tier]
    common.use_repo()
    # import the whole library BEFORE forking: the order in which an element's validators run is
    # the iteration order of a set of classes (address-based), so recording and replaying workers
    # must share one address layout for access indices to mean the same thing everywhere
    import statham.schema.parser  # noqa: F401
    import statham.schema.elements  # noqa: F401
    import statham.schema.validation  # noqa: F401
    import threadsfamily as tf
    rng = random.Random(SEED * 7919 + 14)
    timing = OrderedDict()

    # ------------------------------------------------------------ instances
    instances = []
    for case in tf.cases(tier):
        g2 = [g for g in case.groups if len(g) == 2][:cf["groups2"]]
        g3 = [g for g in case.groups if len(g) == 3][:cf["groups3"]]
        for g in g2 + g3:
            for v in cf["variants"]:
                instances.append((case.name, g, v, {}))
    if replay_file:
        payload = json.load(open(replay_file))
        instances = [(payload["case"], tuple(payload["group"]), payload["variant"], {})]
    pool = Pool()
    try:
        return _run(pid, tier, cf, rep, tf, rng, timing, instances, pool, replay_file, t0)
    finally:
        pool.close()


def _run(pid, tier, cf, rep, tf, rng, timing, instances, pool, replay_file, t0):
    t1 = time.time()
    recs = pool.map("record_instance", instances)
    encs = [encode_instance(r) for r in recs]
    timing["record"] = round(time.time() - t1, 2)
    refs = []
    for r in recs:
        refs.append(dict(alone=[tuple(a) for a in r["alone"]], tree0_hash=tf.tree_hash(r["tree0"]),
                         seq_hashes=sorted({tf.tree_hash(t) for t in r["seq_trees"]}),
                         paths=[[e[:3] for e in lg if e[0] in "rw"] for lg in r["progs"]]))
    key_of = {(r["case"], r["group"], r["variant"]): i for i, r in enumerate(recs)}
    if replay_file:
        payload = json.load(open(replay_file))
        sch = unanchor_schedule(refs[0]["paths"], payload["schedule"]) if payload.get("schedule") else None
        if sch is not None:
            # re-execute just that case: the recorded schedule on a fresh tree, judged by R_C14
            r = recs[0]
            out = pool.map("replay_many", [(r["case"], r["group"], r["variant"],
                                            [(("replayed",), sch, payload.get("tail"))], dict(paths=True), refs[0])])
            observations = [(0, tag, summ) for tag, summ in out[0]]
            j = _judge(observations, recs, refs, rep, tf, dict(cf, judged_sample=10), rng, timing)
            return rep.finish(dict(states=j["adj"]["tlc_states"], transitions=j["adj"]["events"],
                                   traces_validated_against_impl=len(observations), evaluations=len(observations),
                                   distinct_nontrivial=len(observations), rule="replay of one recorded schedule",
                                   samples=[dict(case=r["case"], schedule=payload["schedule"],
                                                 got=[_short(g) for g in observations[0][2]["got"]])],
                                   bounds=dict(replay=replay_file), drift=dict(j["drift"]), timing=timing),
                              time.time() - t0, assumptions=["replay of one recorded schedule"])

    # ------------------------------------------------------------ TLC (three jobs, concurrently)
    # The sweeps and the free-running rounds do not depend on TLC: the pool works on them while
    # TLC runs.
    t1 = time.time()
    sweep_tasks, sweep_meta, sweep_n = _sweep_tasks(recs, refs, cf, rng)
    sweep_async = pool.map_async("replay_many", sweep_tasks)
    ftasks = [(r["case"], r["group"], r["variant"], cf["free_rounds"], 1, SEED, refs[i])
              for i, r in enumerate(recs)]
    free_async = pool.map_async("free_rounds", ftasks)

    def job_bind():
        b = run_tlc("MC_Bind", "CONSTANTS\n Sel <- DataSel\n Full = FALSE\n Bursts = {}\n Cap = %d\n"
                    "SPECIFICATION Spec\nINVARIANT Inv\nINVARIANT ExportProgs\nCHECK_DEADLOCK FALSE\n"
                    % cf["cap"], workers=4, coverage=False)
        if not b.ok:
            raise MachineryError("TLC failed on MC_Bind:\n" + b.raw_tail[-3000:])
        return b

    def job_bfs():
        out = defaultdict(list)          # instance index -> [(kind, dev thread, path, pcs)]
        st = dict(states=0, distinct=0, runs=0, wall=0.0)
        for nthreads in (2, 3):
            idx = [i for i, r in enumerate(recs) if len(r["group"]) == nthreads]
            if not idx:
                continue
            res = run_tlc("MC_Threads", cfg(False, "{}", cf["cap"]),
                          extra_modules={"ThreadsData": data_module([encs[i] for i in idx])},
                          workers=cf["bfs_workers"], coverage=False, timeout=3000)
            if not res.ok:
                raise MachineryError("TLC failed on MC_Threads (%d threads):\n" % nthreads + res.raw_tail[-3000:])
            st["states"] += res.states
            st["distinct"] += res.distinct
            st["runs"] += 1
            st["wall"] = round(st["wall"] + res.wall, 2)
            for l in res.lines:
                out[idx[l["c"] - 1]].append((l["kind"], l["t"], l["path"], l["pcs"]))
        return out, st

    want = cf["sim_per_inst"]

    def job_sim():
        scheds = defaultdict(list)
        st = dict(states=0, behaviours=0, model_not_ok=0, runs=0)
        seen_s = set()
        dm = data_module(encs)
        missing = list(range(len(encs)))
        for attempt in range(4):
            # first round over all instances; then only over those that still lack schedules
            # (TLC draws the initial state of every behaviour at random)
            sel = "Sel <- DataSel" if attempt == 0 else "Sel = {%s}" % ", ".join(str(i + 1) for i in missing)
            num = int(len(missing) * want * (1.5 if attempt == 0 else 3)) + 4
            res = run_tlc("MC_Threads", cfg(True, cf["bursts"], 0).replace("Sel <- DataSel", sel),
                          extra_modules={"ThreadsData": dm}, workers=1, simulate="num=%d" % num,
                          depth=2000, seed=SEED + 14 + attempt, coverage=False, timeout=3000)
            if not res.ok:
                raise MachineryError("TLC -simulate failed on MC_Threads:\n" + res.raw_tail[-3000:])
            st["states"] += res.states
            st["runs"] += 1
            for l in res.lines:
                if l.get("kind") != "sched":
                    continue
                key = (l["c"], json.dumps(l["sched"]))
                if key in seen_s:
                    continue
                seen_s.add(key)
                st["behaviours"] += 1
                if not l["ok"]:
                    st["model_not_ok"] += 1
                scheds[l["c"] - 1].append(([tuple(x) for x in l["sched"]], l["ok"]))
            missing = [i for i in range(len(encs)) if len(scheds[i]) < min(want, 2)]
            if not missing:
                break
        if missing:
            raise MachineryError("no sampled schedule for instances %r" % [instances[i][:3] for i in missing])
        return scheds, st

    from concurrent.futures import ThreadPoolExecutor
    with ThreadPoolExecutor(3) as ex:
        f_bind, f_bfs, f_sim = ex.submit(job_bind), ex.submit(job_bfs), ex.submit(job_sim)
        bind = f_bind.result()
        cands, bfs_stats = f_bfs.result()
        sim_scheds, sim_stats = f_sim.result()
    bind_progs = [l for l in bind.lines if l.get("kind") == "prog"]
    bind_cands = [l for l in bind.lines if l.get("kind") in ("dev", "end")]
    if not bind_progs:
        raise MachineryError("MC_Bind did not export its programs")
    timing["tlc_all_concurrent"] = round(time.time() - t1, 2)

    # ------------------------------------------------------------ replay tasks
    t1 = time.time()
    tasks, meta = [], []         # meta[i] = instance index
    n_cand_total = sum(len(v) for v in cands.values())
    cand_used = 0
    for i, r in enumerate(recs):
        scheds = []
        # (a) candidates: at most per_dev per (kind, deviating thread, its program counter)
        per = Counter()
        picked = []
        for kind, dt, path, pcs in sorted(cands.get(i, []), key=lambda x: (len(x[2]), x[2])):
            k = (kind, dt, pcs[dt - 1] if dt else 0)
            if per[k] >= cf["per_dev"]:
                continue
            per[k] += 1
            picked.append((kind, dt, path))
        if len(picked) > cf["max_cand"]:
            picked = rng.sample(picked, cf["max_cand"])
        for kind, dt, path in picked:
            s, tail = lift_path(encs[i], path, dt)
            scheds.append((("cand", kind, dt), s, tail))
        cand_used += len(picked)
        # (b) sampled schedules (model-not-ok ones first, then a seeded sample)
        ss = sim_scheds.get(i, [])
        bad = [s for s, ok in ss if not ok]
        good = [s for s, ok in ss if ok]
        good.sort()
        rng.shuffle(good)
        for s in (bad[:want] + good)[:want]:
            scheds.append((("sim",), lift_sched(encs[i], s), None))
        if not ss and not replay_file:
            raise MachineryError("no sampled schedule for instance %s" % (instances[i][:3],))
        if scheds:
            tasks.append((r["case"], r["group"], r["variant"], scheds, dict(paths=True), refs[i]))
            meta.append(i)
    results = pool.map("replay_many", tasks)
    timing["replay_tlc_schedules"] = round(time.time() - t1, 2)
    t1 = time.time()
    sweep_results = sweep_async.get(3000)
    fres = free_async.get(3000)
    timing["wait_sweeps_free"] = round(time.time() - t1, 2)
    tasks, meta, results = tasks + sweep_tasks, meta + sweep_meta, results + sweep_results
    order = list(range(len(tasks)))

    # ------------------------------------------------------------ observations -> events
    observations = []      # (instance idx, tag, summary)
    for j, res_list in zip(order, results):
        for tag, summ in res_list:
            observations.append((meta[j], tag, summ))
    for i, rounds in enumerate(fres):
        for summ in rounds:
            observations.append((i, ("free", summ["round"]), summ))

    # ------------------------------------------------------------ part (i): conformance + replay
    bind_info = _bind_part(tf, pool, bind_progs[0], bind_cands, recs, encs, refs, key_of, cf, rng,
                           observations, replay_file)

    # ------------------------------------------------------------ adjudication by TLC
    j = _judge(observations, recs, refs, rep, tf, cf, rng, timing)
    drift, drift_by_case, events, adj = j["drift"], j["drift_by_case"], j["events"], j["adj"]
    suspects, control, drifted, chosen = j["suspects"], j["control"], j["drifted"], j["chosen"]

    # ------------------------------------------------------------ vacuity / coverage
    n_writes = sum(sum(1 for e in p if e[0] == "w") for enc in encs for p in enc["prog"])
    n_reads = sum(sum(1 for e in p if e[0] == "r") for enc in encs for p in enc["prog"])
    kinds = Counter(tag[0] for _i, tag, _s in observations)
    accepted = sum(1 for _i, _t, s in observations if any(k == "ok" for k, _r in s["got"]))
    rejected_calls = sum(1 for _i, _t, s in observations if any(k == "reject" for k, _r in s["got"]))
    if not replay_file:
        # the positive control (a racy element defined by the harness) must be found by every
        # channel: monitor -> TLC candidate -> gate replay -> R_C14, and the pre-emption sweep
        if control["cand"] == 0 or control["sweep"] == 0:
            raise MachineryError("self-test: the positive control was not rejected by every channel: %r"
                                 % dict(control))
        for k in ("sim", "sweep", "free"):
            if kinds[k] == 0:
                raise MachineryError("vacuity: no %s observation" % k)
        if accepted == 0 or rejected_calls == 0:
            raise MachineryError("vacuity: accepted and rejected calls must both occur")
        if sum(len(primaries(p)) for r in recs for p in r["progs"]) < 100 * len(recs):
            raise MachineryError("vacuity: the monitor recorded almost no access")
        if adj["events"] == 0:
            raise MachineryError("vacuity: nothing adjudicated")
    mem0_conflicts = sum(e["conflicts"] for e in encs)
    history_dep = sum(len(r["history_dep"]) for r in recs)
    samples = []
    for i in (0, len(recs) // 2, len(recs) - 1):
        r = recs[i]
        samples.append(dict(case=r["case"], group=list(r["group"]), variant=r["variant"],
                            alone=[_short(a) for a in r["alone"]],
                            program_events=[len(primaries(p)) for p in r["progs"]],
                            projected_events=[len(p) for p in encs[i]["prog"]],
                            written_locations=encs[i]["locs"][:8]))
    for i, tag, s in observations[:2] + observations[-2:]:
        samples.append(dict(case=recs[i]["case"], tag=_tagstr(tag), got=[_short(g) for g in s["got"]],
                            tree_same=s["tree_same"], steps=s.get("steps")))
    suspects_n = len(suspects)
    coverage = dict(
        states=bfs_stats["distinct"] + bind.distinct + sim_stats["states"] + adj["tlc_states"],
        transitions=bfs_stats["states"] + bind.states + sim_stats["states"] + adj["events"],
        traces_validated_against_impl=len(observations),
        evaluations=len(observations),
        distinct_nontrivial=sum(1 for _i, t, s in observations if s.get("steps") and min(s["steps"].values()) > 1)
        + kinds["free"],
        rule="one case = one run of 2-3 real threads on a fresh tree under one schedule (gate replay of a TLC "
             "interleaving, pre-emption point, or free-running round); non-trivial = every thread passed more "
             "than one gate point / free-running round",
        samples=samples,
        exhaustive=False,
        bfs_exhaustive_within_bound=True,
        bounds=dict(instances=len(recs), cases=sorted({r["case"] for r in recs}),
                    threads=sorted({len(r["group"]) for r in recs}), variants=list(cf["variants"]),
                    bursts=cf["bursts"], cap_per_worker=cf["cap"], sweep_points_per_direction_and_fn_entry_points=cf["sweep"],
                    free_rounds=cf["free_rounds"]),
        tlc=dict(bind=dict(states=bind.states, distinct=bind.distinct, candidates=len(bind_cands), wall=round(bind.wall, 2)),
                 bfs=bfs_stats, sim=sim_stats, trace_validation=adj),
        access_programs=dict(projected_writes=n_writes, projected_reads=n_reads,
                      full_events=sum(len(primaries(p)) for r in recs for p in r["progs"]),
                      mem0_conflicts=mem0_conflicts, history_dependent_sequential_outcomes=history_dep),
        candidates=dict(exported=n_cand_total, replayed=cand_used),
        observations=dict(kinds),
        drift=dict(drift),
        drift_by_case=dict(sorted(drift_by_case.items())),
        drift_events_adjudicated=len(drifted),
        judged_events=len(events),
        judged_observations=len(chosen),
        suspects_value_changing_write_logs=suspects_n,
        positive_control_rejections=dict(control),
        gate_stalls=sum(s.get("stalls", 0) for _i, _t, s in observations),
        bind_protocol=bind_info,
        timing=timing,
    )
    return rep.finish(coverage, time.time() - t0,
                      assumptions=["A5 interleavings at the granularity of monitored accesses to pre-existing objects "
                                   "(attributes and container contents of elements, model classes, properties, "
                                   "UNBOUND_PROPERTY, format_checker, module-level containers of statham.*) under the GIL",
                                   "A1 bounded: the listed trees/payloads, 2-3 threads, TLC exhaustive on projected programs",
                                   "tree clause: a change that a sequential run of the same calls makes as well is C08's matter"])


def _judge(observations, recs, refs, rep, tf, cf, rng, timing):
    """Stage 4: observations that differ from the prediction (alone outcomes, unchanged tree), and
    a seeded sample of those that do not, are adjudicated by TLC against R_C14."""
    t1 = time.time()
    events, ev_obs = [], {}
    drift = Counter()
    drift_by_case = Counter()
    intern = {}

    def iid(x):
        if x not in intern:
            intern[x] = len(intern) + 1
        return intern[x]

    drifted, same = [], []
    for oi, (i, tag, s) in enumerate(observations):
        is_drift = not all(s["same_out"]) or not s["tree_same"]
        (drifted if is_drift else same).append(oi)
        if not all(s["same_out"]):
            drift["outcome"] += 1
            drift_by_case[recs[i]["case"] + ":outcome"] += 1
        if not s["tree_same"]:
            drift["tree"] += 1
            drift_by_case[recs[i]["case"] + (":tree(as a sequential run)" if s["tree_in_seq"] else ":tree")] += 1
        if s.get("path_drift") and any(s["path_drift"]):
            drift["path"] += 1
            drift_by_case[recs[i]["case"] + ":path"] += 1
    rng.shuffle(same)
    chosen = drifted + same[:cf["judged_sample"]]       # EVERY drifted observation is adjudicated
    by_key = {}                                          # identical observations share one event
    for oi in chosen:
        i, tag, s = observations[oi]
        ref = refs[i]
        n = len(ref["alone"])
        alone = [ref["alone"][j % n] for j in range(len(s["got"]))]
        key = (i, tuple(s["got"]), s["tree1"], s.get("writes", 0) > 0, s.get("n_nonpreserving", 0) > 0)
        if key in by_key:
            ev_obs[by_key[key]].append(oi)
            continue
        eid = len(events) + 1
        by_key[key] = eid
        ev_obs[eid] = [oi]

        def outs(xs):
            return "<<" + ", ".join('[k |-> "%s", r |-> %d]' % (k.replace('"', "'"), iid(("r", i, r)))
                                    for k, r in xs) + ">>"
        events.append((eid, "[id |-> %d, got |-> %s, alone |-> %s, tree0 |-> %d, tree1 |-> %d, seq |-> <<%s>>, "
                            "writes |-> %d, changing |-> %d]"
                       % (eid, outs(s["got"]), outs(alone), iid(("t", ref["tree0_hash"])), iid(("t", s["tree1"])),
                          ", ".join(str(iid(("t", h))) for h in ref["seq_hashes"]),
                          s.get("writes", 0), s.get("n_nonpreserving", 0))))
    rejected, suspects, adj = adjudicate(events)
    timing["adjudicate"] = round(time.time() - t1, 2)

    control = Counter()
    for eid, oi, clause in sorted((eid, oi, clause) for eid, clause in rejected.items() for oi in ev_obs[eid]):
        i, tag, s = observations[oi]
        r = recs[i]
        if r["case"] == "control":
            control[tag[0]] += 1         # the positive control: must be rejected, never reported
            continue
        ref = refs[i]
        n = len(ref["alone"])
        bad = [j for j, okj in enumerate(s["same_out"]) if not okj]
        what = []
        for j in bad[:2]:
            name, val = tf.CASES[r["case"]].mk()[1][r["group"][j % n]]
            what.append("thread %d validating %s got %s, alone it gives %s"
                        % (j + 1, json.dumps(val, default=str)[:90], _short(s["got"][j]), _short(ref["alone"][j % n])))
        if clause == "tree":
            what.append("projected tree differs afterwards: " + "; ".join(s.get("tree_diff", []))[:300])
        rep.violation((r["case"], clause),
                      "concurrent validation differs from sequential (%s, %s tree, threads %s, %s): %s"
                      % (r["case"], r["variant"], list(r["group"]), _tagstr(tag), " | ".join(what)),
                      dict(case=r["case"], group=list(r["group"]), variant=r["variant"], tag=list(map(str, tag)),
                           clause=clause, observed=dict(got=s["got"], tree1=s["tree1"], tree_diff=s.get("tree_diff")),
                           alone=ref["alone"],
                           schedule=(anchor_schedule(ref["paths"], s["schedule"])
                                     if s.get("schedule") is not None and tag[0] != "sweepfn" else None),
                           tail=s.get("tail")))

    return dict(drift=drift, drift_by_case=drift_by_case, events=events, adj=adj, suspects=suspects,
                control=control, drifted=drifted, chosen=chosen)


def _sweep_tasks(recs, refs, cf, rng):
    """(d) pre-emption at call granularity: thread a is suspended after k gate points (monitored
    accesses; in the second family also library function entries, sys.settrace) and thread b runs
    a complete call there; a fresh tree per pre-emption point."""
    tasks, meta, sweep_n = [], [], 0
    for i, r in enumerate(recs):
        if r["variant"] not in cf["sweep"]:
            continue
        sweep_points, sweep_fn = cf["sweep"][r["variant"]]
        n = len(r["group"])
        for a in range(1, n + 1):
            b = a % n + 1
            others = [t for t in range(1, n + 1) if t not in (a, b)]
            total = sum(1 for e in primaries(r["progs"][a - 1]) if e[0] != "W")
            pts = list(range(0, total + 1))
            if len(pts) > sweep_points:
                step = len(pts) / float(sweep_points)
                off = rng.random() * step
                pts = sorted({min(total, int(off + j * step)) for j in range(sweep_points)})
            chunk = [(("sweep", a, k), ([(a, k)] if k else []) + [("F", b)], [a] + others) for k in pts]
            for c0 in range(0, len(chunk), 24):
                tasks.append((r["case"], r["group"], r["variant"], chunk[c0:c0 + 24], dict(paths=False), refs[i]))
                meta.append(i)
            sweep_n += len(chunk)
            if sweep_fn:
                hi = int(2.5 * total) + 2      # accesses + function entries (an over-estimate is harmless)
                if sweep_fn >= hi:
                    ks = list(range(0, hi))
                else:
                    step = hi / float(sweep_fn)
                    off = rng.random() * step
                    ks = sorted({int(off + j * step) for j in range(sweep_fn)})
                chunk = [(("sweepfn", a, k), ([(a, k)] if k else []) + [("F", b)], [a] + others) for k in ks]
                for c0 in range(0, len(chunk), 24):
                    tasks.append((r["case"], r["group"], r["variant"], chunk[c0:c0 + 24],
                                  dict(paths=False, fn_entries=True), refs[i]))
                    meta.append(i)
                sweep_n += len(chunk)
    return tasks, meta, sweep_n


def _bind_part(tf, pool, prog_line, bind_cands, recs, encs, refs, key_of, cf, rng, observations, replay_file):
    """conformance of part (i) with the recorded programs, and replay of its candidates"""
    info = dict(candidates=len(bind_cands), conforms={}, replayed=0)
    targets = {1: ("elem2", (0, 4), "cold"), 3: ("cross_renamed", (0, 1), "cold")}
    for cnum, key in targets.items():
        if key not in key_of:
            continue
        i = key_of[key]
        r = recs[i]
        # monitor labels of the declared properties: first write targets in thread 1's program
        labs = []
        for e in primaries(r["progs"][0]):
            if e[0] == "w" and e[1].endswith(".parent") and e[1].split(".")[0] not in labs:
                labs.append(e[1].split(".")[0])
        if len(labs) < 2:
            info["conforms"][str(cnum)] = dict(ok=False, why="no bind writes recorded")
            continue
        plabels = {1: labs[0], 2: labs[1]}
        ok, maps, detail = bind_conformance(prog_line["progs"][cnum - 1], r, encs[i], plabels)
        info["conforms"][str(cnum)] = dict(ok=ok, detail=detail)
        if not ok:
            continue
        cl = [l for l in bind_cands if l["c"] == cnum]
        per = Counter()
        scheds = []
        for l in sorted(cl, key=lambda x: (len(x["path"]), x["path"])):
            k = (l["kind"], l["t"], l["pcs"][l["t"] - 1] if l["t"] else 0)
            if per[k] >= cf["per_dev"] or len(scheds) >= cf["max_cand"]:
                continue
            per[k] += 1
            n = len(r["group"])
            apc, passed, sch = [0] * n, [0] * n, []
            for t in l["path"]:
                apc[t - 1] += 1
                fi = maps[t - 1][apc[t - 1]]
                g = gates_upto(encs[i]["full"][t - 1], fi)
                kk = g - passed[t - 1]
                if kk > 0:
                    sch.append((t, kk))
                    passed[t - 1] = g
            dt = l["t"]
            scheds.append((("bind", l["kind"], dt), sch, ([dt] if dt else []) + [t for t in range(1, n + 1) if t != dt]))
        if scheds:
            out = pool.map("replay_many", [(r["case"], r["group"], r["variant"], scheds, dict(paths=True), refs[i])])
            for tag, summ in out[0]:
                observations.append((i, tag, summ))
            info["replayed"] += len(scheds)
    if not replay_file and "1" in info["conforms"] and not info["conforms"]["1"]["ok"]:
        info["note"] = "recorded program no longer has the shape of CallProg (drift, not a verdict)"
    return info


def adjudicate(events, chunk=2500):
    rejected, suspects = {}, []
    total_states = 0
    t0 = time.time()
    for c0 in range(0, len(events), chunk):
        part = events[c0:c0 + chunk]
        data = ("---- MODULE TraceData ----\nEXTENDS Integers, Sequences, TLC\nEvents == <<\n"
                + ",\n".join(t for _, t in part) + "\n>>\n====\n")
        res = run_tlc("Trace_Threads", "SPECIFICATION TSpec\nINVARIANT TInv\nPOSTCONDITION Consumed\n"
                                       "CHECK_DEADLOCK FALSE\n",
                      extra_modules={"TraceData": data}, workers=1, coverage=False)
        if not res.ok:
            raise MachineryError("trace validation run failed (trace not consumed or TLC error):\n"
                                 + res.raw_tail[-2500:])
        for l in res.lines:
            if "reject" in l:
                rejected[l["reject"]] = l["clause"]
            elif "suspect" in l:
                suspects.append(l["suspect"])
        total_states += res.distinct
    return rejected, suspects, dict(events=len(events), tlc_states=total_states, wall=round(time.time() - t0, 2))


def _short(o):
    k, r = o
    return k if k != "ok" else "ok " + (r if len(r) <= 110 else r[:107] + "...")


def _tagstr(tag):
    if tag[0] == "sweep":
        return "thread %d suspended after %d accesses while the next thread runs a complete call" % (tag[1], tag[2])
    if tag[0] == "sweepfn":
        return "thread %d suspended at gate point %d (accesses and library function entries) while the next thread runs a complete call" % (tag[1], tag[2])
    if tag[0] == "cand":
        return "interleaving exported by TLC (%s, thread %s)" % (tag[1], tag[2])
    if tag[0] == "bind":
        return "interleaving of the abstract bind protocol exported by TLC (%s, thread %s)" % (tag[1], tag[2])
    if tag[0] == "sim":
        return "sampled TLC schedule"
    if tag[0] == "replayed":
        return "recorded schedule replayed"
    if tag[0] == "free":
        return "free-running threads, round %s" % tag[1]
    return str(tag)
