"""Code -> spec with an independent generator: random schema documents over the modelled
vocabulary (deeper and wider than the TLC builder reaches), driven through the real parser
and validator; every (document, value, verdict) is adjudicated by TLC (Trace_Doc, R_C01)."""
import random

LITS = [None, True, False, 0, 1, 2, -1, 1.0, 1.5, 0.5, "", "a", "ab", "b", [], [1], [True], [1, "a"], {}, {"a": 1},
        {"a": True}, {"a": None}, [[1]], [{"a": 1}]]
TYPES = ["string", "integer", "number", "boolean", "null", "array", "object"]
PATTERNS = ["^a", "b$", "a", "^ab$", "^c", "^.$"]
NAMES = ["a", "b", "ab", "class", "c"]


def gen(rng, depth, top=False):
    if depth <= 0 or rng.random() < 0.08:
        r = rng.random()
        if r < 0.15:
            return True
        if r < 0.25:
            return False
        if r < 0.45:
            return {}
    s = {}
    n = rng.choice([1, 1, 2, 2, 3, 4])
    kws = rng.sample(KEYWORDS, n)
    for kw in kws:
        KW[kw](rng, s, depth)
    if s.get("type") == "object" or (isinstance(s.get("type"), list) and "object" in s["type"]):
        if rng.random() < 0.3:
            s["title"] = rng.choice(["T", "Thing"])
    return s


def _sub(rng, depth):
    return gen(rng, depth - 1)


KW = {
    "type": lambda r, s, d: s.__setitem__("type", r.choice(TYPES) if r.random() < 0.75
                                          else r.sample(TYPES, r.choice([1, 2, 3]))),
    "const": lambda r, s, d: s.__setitem__("const", r.choice(LITS)),
    "enum": lambda r, s, d: s.__setitem__("enum", r.sample(LITS, r.choice([1, 2, 3]))),
    "minimum": lambda r, s, d: s.__setitem__("minimum", r.choice([0, 1, 1.5, 2])),
    "maximum": lambda r, s, d: s.__setitem__("maximum", r.choice([0, 1, 1.5, 2])),
    "exclusiveMinimum": lambda r, s, d: s.__setitem__("exclusiveMinimum", r.choice([0, 1, 1.5])),
    "exclusiveMaximum": lambda r, s, d: s.__setitem__("exclusiveMaximum", r.choice([1, 1.5, 2])),
    "multipleOf": lambda r, s, d: s.__setitem__("multipleOf", r.choice([1, 2, 0.5, 1.5])),
    "minLength": lambda r, s, d: s.__setitem__("minLength", r.choice([0, 1, 2])),
    "maxLength": lambda r, s, d: s.__setitem__("maxLength", r.choice([0, 1, 2])),
    "pattern": lambda r, s, d: s.__setitem__("pattern", r.choice(PATTERNS)),
    "format": lambda r, s, d: s.__setitem__("format", r.choice(["date-time", "uuid", "unknown"])),
    "minItems": lambda r, s, d: s.__setitem__("minItems", r.choice([0, 1, 2])),
    "maxItems": lambda r, s, d: s.__setitem__("maxItems", r.choice([0, 1, 2])),
    "uniqueItems": lambda r, s, d: s.__setitem__("uniqueItems", r.choice([True, False])),
    "minProperties": lambda r, s, d: s.__setitem__("minProperties", r.choice([0, 1, 2])),
    "maxProperties": lambda r, s, d: s.__setitem__("maxProperties", r.choice([0, 1, 2])),
    "required": lambda r, s, d: s.__setitem__("required", r.sample(NAMES, r.choice([1, 2]))),
    "default": lambda r, s, d: s.__setitem__("default", r.choice(LITS)),
    "items": lambda r, s, d: s.__setitem__("items", _sub(r, d) if r.random() < 0.6
                                           else [_sub(r, d) for _ in range(r.choice([0, 1, 2]))]),
    "additionalItems": lambda r, s, d: s.__setitem__("additionalItems", _sub(r, d)),
    "contains": lambda r, s, d: s.__setitem__("contains", _sub(r, d)),
    "properties": lambda r, s, d: s.__setitem__("properties", {n: _sub(r, d) for n in r.sample(NAMES, r.choice([1, 2]))}),
    "patternProperties": lambda r, s, d: s.__setitem__("patternProperties", {r.choice(PATTERNS): _sub(r, d)}),
    "additionalProperties": lambda r, s, d: s.__setitem__("additionalProperties", _sub(r, d)),
    "propertyNames": lambda r, s, d: s.__setitem__("propertyNames", _sub(r, d)),
    "dependencies": lambda r, s, d: s.__setitem__("dependencies", {r.choice(NAMES): (r.sample(NAMES, 1) if r.random() < 0.5 else _sub(r, d))}),
    "anyOf": lambda r, s, d: s.__setitem__("anyOf", [_sub(r, d) for _ in range(r.choice([1, 2, 3]))]),
    "oneOf": lambda r, s, d: s.__setitem__("oneOf", [_sub(r, d) for _ in range(r.choice([1, 2, 3]))]),
    "allOf": lambda r, s, d: s.__setitem__("allOf", [_sub(r, d) for _ in range(r.choice([1, 2]))]),
    "not": lambda r, s, d: s.__setitem__("not", _sub(r, d)),
}
KEYWORDS = list(KW)


def documents(seed, n, depth=3):
    rng = random.Random(seed)
    out = []
    while len(out) < n:
        d = gen(rng, depth, top=True)
        if isinstance(d, dict) and d:
            out.append(d)
    return out
