"""Serialization properties on the document family: C03 C06 C07.

Observations are made on the real code for every exported document state:
  kinds   verdict kinds of the parsed element on the value universe
  elem    projection of the parsed element tree (attributes only)
  j0      serialize_json(element); j1 = serialize_json(parse(j0)) through the real CLI
          dereferencing path (json_ref_dict.materialize + statham.parser.parse)
  py      serialize_python(element) executed in an empty namespace; classes compared
All of them are adjudicated by TLC (Trace_Doc / PropsSer.tla) against the reference
predicates; the model's predicted element record is compared for drift statistics.
"""
import copy
import json
import time
from collections import Counter

import common
from common import MachineryError
import codec
import drive
import docfamily as df
from docfamily import tlajson_to_tla
from report import Reporter
from checks_doc import _kwsig

MAX_EVENTS = 30000


def _reparse(j0, all_elements=False):
    """serialize -> (dereference + label + parse) -> serialize, as a user would do it."""
    from statham.schema.parser import parse
    from statham.serializers import serialize_json
    from json_ref_dict import materialize, RefDict
    from statham.titles import title_labeller
    if isinstance(j0, bool):          # a boolean document: parse_element is the entry point
        from statham.schema.parser import parse_element
        el = parse_element(j0)
        return serialize_json(el), el
    uri, cleanup = drive.materialized({"doc.json": j0})
    try:
        schema = materialize(RefDict.from_uri(uri), context_labeller=title_labeller())
        elements = parse(schema)
        if all_elements:        # serialize_json(*parse(document)): every parsed definition is passed too
            return serialize_json(*elements), elements[0]
        return serialize_json(elements[0]), elements[0]
    finally:
        cleanup()


def _exec_python(el):
    """serialize_python -> exec in an empty namespace -> {class name: class}."""
    from statham.serializers import serialize_python
    text = serialize_python(el)
    ns = {}
    code = compile(text, "<generated>", "exec")
    exec(code, ns)  # noqa: S102 - the generated module is the artefact under test
    return text, ns


def replay_ser(state):
    from statham.serializers import serialize_json
    from statham.schema.elements.meta import ObjectMeta
    _, pyvals = df.values()
    sj = codec.schema_to_json(state["doc"])
    obs = {"parse": None}
    kind, el = drive.parse_labelled(sj)
    obs["parse"] = kind
    if kind != "ok":
        return obs
    obs["kinds"] = [drive.call(el, v)[0] for v in pyvals]
    try:
        obs["elem"] = drive.project_element(el)
    except ValueError as exc:
        obs["elem_err"] = str(exc)[:200]
    # ---- JSON
    try:
        j0 = serialize_json(el)
        obs["j0"] = j0
        json.dumps(j0)
    except Exception as exc:  # noqa
        obs["j0_err"] = type(exc).__name__ + ": " + str(exc)[:160]
        return obs
    try:
        obs["j0_tagged"] = codec.py_to_tagged(j0)
    except ValueError as exc:
        obs["j0_tagged_err"] = str(exc)[:200]
    # DSL-only shape the parser never produces: the required names given ONLY as an explicit
    # list next to properties whose own `required` flag is off
    try:
        rec = obs.get("elem")
        if rec and isinstance(rec["kw"], dict) and rec["kw"].get("properties"):
            names = [p["source"] for p in rec["kw"]["properties"] if p["required"]]
            if names:
                var = copy.deepcopy(rec)
                for p in var["kw"]["properties"]:
                    p["required"] = False
                var["kw"]["required"] = list(dict.fromkeys(list(var["kw"].get("required", [])) + names))
                vel = drive.build_element(var)
                obs["var_kinds"] = [drive.call(vel, v)[0] for v in pyvals]
                jv = serialize_json(vel)
                json.dumps(jv)
                obs["jv"] = jv
                obs["jv_tagged"] = codec.py_to_tagged(jv)
    except ValueError:
        pass
    except Exception as exc:  # noqa
        obs["jv_err"] = type(exc).__name__ + ": " + str(exc)[:160]
    # caller-supplied definitions: one element picked from inside the tree, one from outside
    try:
        from statham.schema.elements import String
        from statham.schema.elements.meta import ObjectMeta as _OM
        inner = [x for x in drive.walk_elements(el) if x is not el and not isinstance(x, _OM)]
        from statham.schema.elements import Element as _El
        # definitions that Python's == on the EMITTED keywords cannot tell from what the tree may
        # hold (1 / True, 0 / False): a reference to the wrong one changes the meaning
        defs = {"outside": String(minLength=3), "one": _El(const=1), "truth": _El(const=True),
                "zero": _El(enum=[0]), "no": _El(enum=[False]), "l1": _El(const=[1]), "lt": _El(const=[True])}
        if inner:
            defs["inner"] = inner[len(inner) // 2]
        jd = serialize_json(el, definitions=defs)
        json.dumps(jd)
        obs["jd"] = jd
        obs["jd_tagged"] = codec.py_to_tagged(jd)
    except ValueError:
        pass
    except Exception as exc:  # noqa
        obs["jd_err"] = type(exc).__name__ + ": " + str(exc)[:160]
    # several elements in one call: an inner class as the PRIMARY element, the whole tree after it
    # (the first element is the top-level schema; the others only contribute definitions)
    try:
        from statham.schema.elements.meta import ObjectMeta as _OM2
        inner_cls = [x for x in drive.walk_elements(el) if x is not el and isinstance(x, _OM2)]
        if inner_cls:
            prim = inner_cls[0]
            obs["multi_kinds"] = [drive.call(prim, v)[0] for v in pyvals]
            jx = serialize_json(prim, el)
            json.dumps(jx)
            obs["jx"] = jx
            obs["jx_tagged"] = codec.py_to_tagged(jx)
    except ValueError:
        pass
    except Exception as exc:  # noqa
        obs["jx_err"] = type(exc).__name__ + ": " + str(exc)[:160]
    # an inherited class, serialized AFTER its parent was (C03 names inherited classes): the
    # subclass adds a required property, so its document must not be the parent's
    try:
        from statham.schema.elements.meta import ObjectMeta as _OM3
        if isinstance(el, _OM3):
            ns = {"Parent": el, "Property": __import__("statham.schema.property", fromlist=["Property"]).Property,
                  "String": __import__("statham.schema.elements", fromlist=["String"]).String}
            exec("class Child(Parent):\n    zq = Property(String(), required=True)\n", ns)  # noqa: S102
            child = ns["Child"]
            obs["child_kinds"] = [drive.call(child, v)[0] for v in pyvals]
            jc = serialize_json(child)
            json.dumps(jc)
            obs["jc"] = jc
            obs["jc_tagged"] = codec.py_to_tagged(jc)
    except ValueError:
        pass
    except Exception as exc:  # noqa
        obs["jc_err"] = type(exc).__name__ + ": " + str(exc)[:160]
    try:
        j1, el1 = _reparse(copy.deepcopy(j0))
        obs["j1"] = j1
        obs["j1_tagged"] = codec.py_to_tagged(j1)
        try:
            ja, _ = _reparse(copy.deepcopy(j0), all_elements=True)
            obs["ja"] = ja
            obs["ja_tagged"] = codec.py_to_tagged(ja)
        except ValueError:
            pass
    except Exception as exc:  # noqa
        obs["j1_err"] = type(exc).__name__ + ": " + str(exc)[:160]
    # ---- the serializer's image reached WITHOUT the parser: the model's element record is
    # built through the DSL constructors, serialized, and that document is round-tripped
    if "elem" in state:
        try:
            dsl = drive.build_element(_fix(state["elem"]), share={})
            jm = serialize_json(dsl)
            obs["jm_tagged"] = codec.py_to_tagged(jm)
            obs["jm"] = jm
            jm1, _ = _reparse(copy.deepcopy(jm))
            obs["jm1"] = jm1
            obs["jm1_tagged"] = codec.py_to_tagged(jm1)
        except ValueError:
            pass
        except Exception as exc:  # noqa
            obs["jm_err"] = type(exc).__name__ + ": " + str(exc)[:160]
    # ---- Python
    classes = [c for c in drive.walk_elements(el) if isinstance(c, ObjectMeta)]
    if classes:
        try:
            text, ns = _exec_python(el)
            res = []
            for c in classes:
                g = ns.get(c.__name__)
                if not isinstance(g, ObjectMeta):
                    res.append((c.__name__, "missing", None))
                    continue
                try:
                    same = drive.norm_elem(drive.project_element(g)) == drive.norm_elem(drive.project_element(c))
                except ValueError:
                    same = False
                res.append((c.__name__, bool(g == c) and same, drive.project_element(g)))
            obs["py"] = res
            obs["py_root"] = drive.project_element(ns[el.__name__]) if isinstance(el, ObjectMeta) and el.__name__ in ns else None
        except Exception as exc:  # noqa
            obs["py_err"] = type(exc).__name__ + ": " + str(exc)[:200]
    return obs


def _ser_model_obs(st):
    from statham.serializers import serialize_json
    if not st["ok"]:
        return None
    sj = codec.schema_to_json(st["doc"])
    kind, el = drive.parse_labelled(sj)
    if kind != "ok":
        return {"parse": kind}
    try:
        real = serialize_json(el)
        same = json.dumps(real, sort_keys=True) == json.dumps(codec.val_to_py(st["j0"]), sort_keys=True)
    except Exception as exc:  # noqa
        return {"parse": "ok", "same": False, "err": type(exc).__name__}
    return {"parse": "ok", "same": same}


def _model_doc_roundtrip(st):
    """the document the SPECIFICATION's serializer predicts, pushed through the real
    parse -> serialize: it must come back unchanged (C06 on the spec's serializer image)"""
    if not st["ok"]:
        return None
    try:
        j = codec.val_to_py(st["j0"])
        back, _ = _reparse(copy.deepcopy(j))
        return {"j": j, "back": back, "j_t": st["j0"], "back_t": codec.py_to_tagged(back)}
    except ValueError:
        return None
    except Exception as exc:  # noqa
        return {"err": type(exc).__name__ + ": " + str(exc)[:160], "j": codec.val_to_py(st["j0"])}


def _names_key(clause, a, b, rest):
    """Root-cause key for a round trip that differs only in class names.  Known finding: the
    _N suffixes of de-duplication are re-dealt (the BASE names -- suffix stripped -- are the
    same on both sides, and so is the number of classes).  A base name that was not there before,
    or a different number of definitions, is a different cause."""
    import re
    if clause != "definition-names-differ-only":
        return ("C06", clause) + tuple(rest)

    def bases(j):
        out = set()
        if isinstance(j, dict):
            names = list((j.get("definitions") or {}).keys()) if isinstance(j.get("definitions"), dict) else []
            if isinstance(j.get("title"), str):
                names.append(j["title"])
            out = {re.sub(r"_\d+$", "", n) for n in names}
        return out
    def count(j):
        return len(j.get("definitions") or {}) if isinstance(j, dict) and isinstance(j.get("definitions"), dict) else 0
    if bases(a) != bases(b):
        return ("C06", "class-base-names-changed") + tuple(rest)
    if count(a) != count(b):        # suffixes re-dealt AND a class gained or lost: not the known finding
        return ("C06", "number-of-classes-changed") + tuple(rest)
    return ("C06", clause)


def serializer_model_part(rep, pid, tier):
    """MC_Ser: TLC evaluates C03/C06 on the MODEL's serializer for every document; the real
    serialize_json output is compared with the model's (equal => TLC's verdict stands)."""
    consts = df.TIERS[tier]["bfs"]
    lines, meta = df._cached_tlc("ser-bfs", df._cfg(consts, False), module="MC_Ser")
    seeds, smeta = df._cached_tlc("ser-seed", df._cfg(df.TIERS[tier]["seed"], False, "SeedSpec",
                                                       df.TIERS[tier]["seed_levels"]), module="MC_Ser")
    states = lines + seeds
    obs = drive.pmap(_ser_model_obs, states, chunksize=64)
    drift = 0
    flagged = 0
    for st, ob in zip(states, obs):
        if ob is None or ob.get("parse") != "ok":
            continue
        clause = st["c03"] if pid == "C03" else st["c06"]
        if not ob["same"]:
            drift += 1
            continue
        if clause != "ok":
            flagged += 1
            key = (pid, clause) if clause == "definition-names-differ-only" else (pid, clause, _kwsig(st["doc"]))
            if pid == "C06" and clause == "definition-names-differ-only":
                key = _names_key(clause, codec.val_to_py(st["j0"]), codec.val_to_py(st["j1"]) if "j1" in st else codec.val_to_py(st["j0"]), ())
            rep.violation(key, f"{clause} (design level, real serializer output equals the model's): "
                          f"{json.dumps(codec.schema_to_json(st['doc']))[:200]} -> {json.dumps(codec.val_to_py(st['j0']))[:200]}",
                          dict(state=st))
    fix_events = 0
    if pid == "C06":
        backs = drive.pmap(_model_doc_roundtrip, states, chunksize=32)
        evs, idx = [], {}
        for st, b in zip(states, backs):
            if b is None:
                continue
            if "err" in b:
                rep.violation(("C06", "model-document-not-parsable", _kwsig(st["doc"])),
                              f"the document the specification's serializer predicts cannot be parsed back: {json.dumps(b['j'])[:200]}: {b['err']}",
                              dict(state=st))
                continue
            eid = len(idx) + 1
            idx[eid] = (st, b)
            evs.append((eid, '[id |-> %d, p |-> "C06", j0 |-> %s, j1 |-> %s]'
                        % (eid, tlajson_to_tla(b["j_t"]), tlajson_to_tla(b["back_t"]))))
        if evs:
            rej, _adj = df.adjudicate(evs, parallel=8)
            for eid, clause in sorted(rej.items()):
                st, b = idx[eid]
                key = _names_key(clause, b["j"], b["back"], ("model-document", _kwsig_json(b["j"])))
                rep.violation(key, f"{clause}: the document of the specification's serializer image "
                              f"{json.dumps(b['j'])[:200]} comes back from parse -> serialize as {json.dumps(b['back'])[:200]}",
                              dict(state=st))
        fix_events = len(evs)
    return dict(states=meta["distinct"] + smeta["distinct"], transitions=meta["states"] + smeta["states"],
                documents=len(states), real_equals_model=len(states) - drift, drift=drift, model_flagged=flagged,
                model_documents_round_tripped=fix_events)


def run(pid, tier, replay_file=None):
    t0 = time.time()
    rep = Reporter(pid, tier)
    tagged_values, pyvals = df.values()
    if replay_file:
        payload = json.load(open(replay_file))
        states, info = [payload["state"]], {"replay": replay_file}
    else:
        states, info = df.stage1(tier, pid="ser")
        if tier == "thorough" and len(states) > 40000:      # relational adjudication is the bottleneck
            stride = (len(states) + 39999) // 40000
            states = [x for x in states if x.get("size", 9) <= 2] + \
                     [x for x in states if x.get("size", 9) > 2][::stride]
            info["replayed_stride"] = stride
    common.use_repo()
    observations = drive.pmap(replay_ser, states, chunksize=16)

    events, ev_index = [], {}
    drift = Counter()
    nontrivial = set()
    checked = 0

    def add_event(si, tag, text):
        eid = len(ev_index) + 1
        ev_index[eid] = (si, tag)
        if len(events) < MAX_EVENTS:
            events.append((eid, text.replace("@ID@", str(eid))))

    def sjson(st):
        return json.dumps(codec.schema_to_json(st["doc"]))[:220]

    for si, (st, ob) in enumerate(zip(states, observations)):
        if st["parse"] != "ok" or ob["parse"] != "ok":
            continue
        checked += 1
        sig = _kwsig(st["doc"])
        if pid == "C03":
            if "j0_err" in ob:
                rep.violation(("C03", "serialize-raises", sig), f"serialize_json fails or is not JSON-serialisable for {sjson(st)}: {ob['j0_err']}",
                              dict(state=st, observed=_slim(ob)))
                continue
            if "j0_tagged_err" in ob:
                continue      # outside the TLC-encodable vocabulary: skipped, counted
            nontrivial.add(json.dumps(ob["j0"], sort_keys=True))
            kinds = "<<" + ", ".join(codec.tla_str(k) for k in ob["kinds"]) + ">>"
            add_event(si, "C03", '[id |-> @ID@, p |-> "C03", j |-> %s, kinds |-> %s]'
                      % (tlajson_to_tla(ob["j0_tagged"]), kinds))
            if "jv_err" in ob:
                rep.violation(("C03", "serialize-dsl-variant-raises", sig),
                              f"serialize_json fails for the DSL variant (explicit required list) of {sjson(st)}: {ob['jv_err']}",
                              dict(state=st, observed=_slim(ob)))
            elif "jv_tagged" in ob:
                vk = "<<" + ", ".join(codec.tla_str(k) for k in ob["var_kinds"]) + ">>"
                add_event(si, "C03dsl", '[id |-> @ID@, p |-> "C03", j |-> %s, kinds |-> %s]'
                          % (tlajson_to_tla(ob["jv_tagged"]), vk))
            if "jd_err" in ob:
                rep.violation(("C03", "serialize-with-definitions-raises", sig),
                              f"serialize_json(..., definitions=...) fails for {sjson(st)}: {ob['jd_err']}",
                              dict(state=st, observed=_slim(ob)))
            elif "jd_tagged" in ob:
                add_event(si, "C03defs", '[id |-> @ID@, p |-> "C03", j |-> %s, kinds |-> %s]'
                          % (tlajson_to_tla(ob["jd_tagged"]), kinds))
            if "jc_err" in ob:
                rep.violation(("C03", "serialize-subclass-raises", sig),
                              f"serialize_json(<subclass>) fails for a subclass of {sjson(st)}: {ob['jc_err']}",
                              dict(state=st, observed=_slim(ob)))
            elif "jc_tagged" in ob:
                ck = "<<" + ", ".join(codec.tla_str(k) for k in ob["child_kinds"]) + ">>"
                add_event(si, "C03child", '[id |-> @ID@, p |-> "C03", j |-> %s, kinds |-> %s]'
                          % (tlajson_to_tla(ob["jc_tagged"]), ck))
            if "jx_err" in ob:
                rep.violation(("C03", "serialize-several-elements-raises", sig),
                              f"serialize_json(<inner class>, <tree>) fails for {sjson(st)}: {ob['jx_err']}",
                              dict(state=st, observed=_slim(ob)))
            elif "jx_tagged" in ob:
                mk = "<<" + ", ".join(codec.tla_str(k) for k in ob["multi_kinds"]) + ">>"
                add_event(si, "C03multi", '[id |-> @ID@, p |-> "C03", j |-> %s, kinds |-> %s]'
                          % (tlajson_to_tla(ob["jx_tagged"]), mk))
        elif pid == "C06":
            if "j0_err" in ob:
                continue
            if "j1_err" in ob:
                rep.violation(("C06", "reparse-raises", sig),
                              f"serialized document of {sjson(st)} cannot be parsed again: {ob['j1_err']} (document {json.dumps(ob['j0'])[:200]})",
                              dict(state=st, observed=_slim(ob)))
                continue
            if "j0_tagged" not in ob or "j1_tagged" not in ob:
                continue
            nontrivial.add(json.dumps(ob["j0"], sort_keys=True))
            add_event(si, "C06", '[id |-> @ID@, p |-> "C06", j0 |-> %s, j1 |-> %s]'
                      % (tlajson_to_tla(ob["j0_tagged"]), tlajson_to_tla(ob["j1_tagged"])))
            if "ja_tagged" in ob:
                add_event(si, "C06all", '[id |-> @ID@, p |-> "C06", j0 |-> %s, j1 |-> %s]'
                          % (tlajson_to_tla(ob["j0_tagged"]), tlajson_to_tla(ob["ja_tagged"])))
            if "jm_err" in ob:
                rep.violation(("C06", "dsl-roundtrip-raises", sig),
                              f"document serialized from the DSL form of {sjson(st)} cannot be round-tripped: {ob['jm_err']} ({json.dumps(ob.get('jm'))[:200]})",
                              dict(state=st, observed=_slim(ob)))
            elif "jm1_tagged" in ob:
                add_event(si, "C06dsl", '[id |-> @ID@, p |-> "C06", j0 |-> %s, j1 |-> %s]'
                          % (tlajson_to_tla(ob["jm_tagged"]), tlajson_to_tla(ob["jm1_tagged"])))
            if "py_err" in ob:
                rep.violation(("C06", "generated-python-fails", sig),
                              f"generated Python for {sjson(st)} does not execute: {ob['py_err']}",
                              dict(state=st, observed=_slim(ob)))
            for name, same, _ in ob.get("py", []):
                if same is not True:
                    rep.violation(("C06", "generated-class-differs", sig),
                                  f"executing the generated source of {sjson(st)} yields class {name} "
                                  f"{'missing' if same == 'missing' else 'not equal to the parsed one'}",
                                  dict(state=st, observed=_slim(ob)))
        elif pid == "C07":
            has_fact = '"default"' in json.dumps(st["doc"]) or '"description"' in json.dumps(st["doc"])
            if has_fact:
                nontrivial.add(si)
            doc_t = tlajson_to_tla(st["doc"])
            if "elem" in ob:
                try:
                    same = drive.norm_elem(ob["elem"]) == drive.norm_elem(_fix(st["elem"]))
                except Exception:
                    same = False
                if not same:
                    drift["elem"] += 1
                add_event(si, "elem", '[id |-> @ID@, p |-> "C07e", doc |-> %s, elem |-> %s]'
                          % (doc_t, tlajson_to_tla(ob["elem"])))
            elif "elem_err" in ob:
                drift["elem_unprojectable"] += 1
            if "j0_tagged" in ob:
                add_event(si, "json", '[id |-> @ID@, p |-> "C07j", doc |-> %s, j |-> %s]'
                          % (doc_t, tlajson_to_tla(ob["j0_tagged"])))
            if ob.get("py_root") is not None:
                add_event(si, "python", '[id |-> @ID@, p |-> "C07e", doc |-> %s, elem |-> %s]'
                          % (doc_t, tlajson_to_tla(ob["py_root"])))

    adj = dict(events=0, tlc_states=0)
    if events:
        try:
            rejected, adj = df.adjudicate(events, parallel=8)
        except ValueError as exc:
            raise MachineryError(f"cannot encode an observation for TLC: {exc}")
        # what the SPECIFICATION says about the stability of each document's class names under the
        # round trip (MC_Ser evaluates C06 on the model): the known finding is the set of documents
        # for which the model itself predicts a names-only difference
        model_c06 = {}
        if pid == "C06" and not replay_file:
            try:
                ml, _m = df._cached_tlc("ser-bfs", df._cfg(df.TIERS[tier]["bfs"], False), module="MC_Ser")
                ms, _m = df._cached_tlc("ser-seed", df._cfg(df.TIERS[tier]["seed"], False, "SeedSpec",
                                                            df.TIERS[tier]["seed_levels"]), module="MC_Ser")
                model_c06 = {json.dumps(x["doc"], sort_keys=True): x["c06"] for x in ml + ms}
            except Exception:  # noqa
                model_c06 = {}
        for eid in sorted(rejected):
            si, tag = ev_index[eid]
            st, ob = states[si], observations[si]
            clause = rejected[eid]
            if pid == "C03":
                jj = ob.get("jd") if tag == "C03defs" else ob.get("jv") if tag == "C03dsl" else ob.get("jx") if tag == "C03multi" else ob.get("jc") if tag == "C03child" else ob["j0"]
                msg = (f"serialize_json{' with caller-supplied definitions' if tag == 'C03defs' else  ' (an inner class first, the whole tree second)' if tag == 'C03multi' else ' of a subclass adding the required property zq (serialized after its parent)' if tag == 'C03child' else ' of the DSL variant with an explicit required list' if tag == 'C03dsl' else ''} of the element parsed from {sjson(st)} gives "
                       f"{json.dumps(jj)[:240]}: {clause}")
                key = ("C03", clause, tag, _kwsig_json(jj))
            elif pid == "C06":
                a, b = (ob.get("jm"), ob.get("jm1")) if tag == "C06dsl" else \
                       (ob["j0"], ob.get("ja")) if tag == "C06all" else (ob["j0"], ob["j1"])
                msg = (f"round trip is not the identity ({tag}): {json.dumps(a)[:200]} -> "
                       f"{json.dumps(b)[:200]}")
                key = _names_key(clause, a, b, (_kwsig_json(a),))
                if key == ("C06", "definition-names-differ-only") and tag in ("C06", "C06all"):
                    mc = model_c06.get(json.dumps(st["doc"], sort_keys=True))
                    if mc == "ok":      # the specification predicts the identity for this document
                        key = ("C06", "names-differ-where-the-specification-predicts-identity", _kwsig_json(a))
            else:
                msg = (f"defaults/descriptions of {sjson(st)} not preserved in the {tag}: "
                       + (json.dumps(ob.get('j0'))[:200] if tag == "json" else json.dumps(ob.get('elem' if tag == 'elem' else 'py_root'))[:300]))
                key = ("C07", tag, sig)
            rep.violation(key, msg, dict(state=st, observed=_slim(ob), tag=tag))

    sermodel = {}
    if pid in ("C03", "C06") and not replay_file:
        sermodel = serializer_model_part(rep, pid, tier)
    if pid == "C06" and not replay_file:
        # the Python route of the round trip on descriptions: every description of MC_Desc must
        # give a module that executes (C06 executes the generated source to get the classes back)
        import checks_refs
        sermodel = dict(sermodel, docstring_exec=checks_refs.docstring_exec_part(rep, tier, pid="C06"))
    desc_cov = {}
    if pid == "C07" and not replay_file:
        import checks_desc
        desc_cov = checks_desc.collect(rep, tier)
        import checks_refs
        refs_cov = checks_refs.collect(rep, "C07", tier)
        desc_cov["reference_graphs"] = refs_cov
        desc_cov["desc_states"] += refs_cov["states"]
        desc_cov["desc_transitions"] += refs_cov["transitions"]
        desc_cov["desc_replayed"] += refs_cov["traces_validated_against_impl"]
    bfs, sim, seed = info.get("bfs", {}), info.get("sim", {}), info.get("seed", {})
    if not replay_file and len(nontrivial) < 2:
        raise MachineryError("vacuity: no non-trivial case")
    samples = []
    for si in (1, len(states) // 2, len(states) - 1):
        if 0 <= si < len(states):
            st, ob = states[si], observations[si]
            samples.append(dict(schema=codec.schema_to_json(st["doc"]), json=ob.get("j0"),
                                reparsed=ob.get("j1"), python_classes=[p[0] for p in ob.get("py", [])]))
    coverage = dict(
        states=int(bfs.get("distinct", 0)) + int(sim.get("distinct", 0)) + int(seed.get("distinct", 0)) + adj.get("tlc_states", 0),
        transitions=int(bfs.get("states", 0)) + int(sim.get("states", 0)) + int(seed.get("states", 0)) + adj.get("events", 0),
        traces_validated_against_impl=len(states) + adj.get("events", 0),
        evaluations=checked,
        distinct_nontrivial=len(nontrivial),
        rule="one case = one exported document state driven through parse -> serialize (-> parse -> serialize / exec); non-trivial = "
             + {"C03": "distinct serialized documents", "C06": "distinct serialized documents",
                "C07": "documents declaring a default or a description"}[pid],
        samples=samples, exhaustive=False,
        bounds=dict(bfs=bfs.get("consts"), seeds=seed.get("consts"), simulate=sim.get("consts"), values=len(pyvals)),
        tlc=dict(bfs=bfs, seeds=seed, sim=sim, trace_validation=adj),
        drift=dict(drift), events_adjudicated=min(len(ev_index), MAX_EVENTS), events_total=len(ev_index),
    )
    if sermodel:
        coverage["serializer_model"] = sermodel
        coverage["states"] += sermodel["states"]
        coverage["transitions"] += sermodel["transitions"]
        coverage["traces_validated_against_impl"] += sermodel["documents"]
    if desc_cov:
        coverage["descriptions"] = desc_cov
        coverage["states"] += desc_cov["desc_states"] + desc_cov["desc_tlc_states"]
        coverage["transitions"] += desc_cov["desc_transitions"]
        coverage["traces_validated_against_impl"] += desc_cov["desc_replayed"]
    return rep.finish(coverage, time.time() - t0,
                      assumptions=["A1 bounded exhaustiveness", "A3 regex family",
                                   "A7 Draft6.tla / Meta.tla are the reference"])


def _fix(rec):
    """ToJson prints the empty kw record as []"""
    if isinstance(rec, dict) and "cls" in rec:
        kw = rec["kw"] if isinstance(rec["kw"], dict) else {}
        out = dict(rec, kw={})
        for k, v in kw.items():
            if k in ("items", "additionalItems", "additionalProperties", "contains", "propertyNames"):
                out["kw"][k] = _fix(v)
            elif k == "itemsT":
                out["kw"][k] = [_fix(x) for x in v]
            elif k in ("patternProperties", "depsS"):
                out["kw"][k] = [[p[0], _fix(p[1])] for p in v]
            elif k == "properties":
                out["kw"][k] = [dict(p, elem=_fix(p["elem"])) for p in v]
            else:
                out["kw"][k] = v
        out["elems"] = [_fix(x) for x in rec["elems"]]
        return out
    return rec


def _slim(ob):
    return {k: (v if k in ("parse", "kinds", "j0", "j1", "jd", "jd_err", "jv", "jv_err", "jm", "jm1", "jm_err", "j0_err", "j1_err", "py_err", "elem_err", "ja", "jx", "jc") else "...")
            for k, v in ob.items()}


def _kwsig_json(j):
    kws = set()

    def rec(x):
        if isinstance(x, dict):
            for k, v in x.items():
                kws.add(k)
                rec(v)
        elif isinstance(x, list):
            for v in x:
                rec(v)
    rec(j)
    return ",".join(sorted(k for k in kws if len(k) > 1 and k not in ("title",)))
