"""pytest plugin: records every outermost validation call made by the repository's own test
suite (`-p verif_recorder`, PYTHONPATH=/verif/harness) -- the code -> spec direction on real
usage.  For each call the element tree is fingerprinted before and after (deep vars() snapshot,
attribute projection, repr / JSON / Python text) and the input value is compared with a deep
copy taken before.  Events go to $VERIF_REC_OUT (JSON lines) and are validated by Trace_Heap.

Installed from outside: nothing in the repository is edited.
"""
import copy
import json
import os
import sys
import threading

sys.path.insert(0, os.path.dirname(os.path.abspath(__file__)))

_OUT = os.environ.get("VERIF_REC_OUT")
_state = threading.local()
_current = {"test": ""}
_fh = None
_count = {"events": 0, "skipped": 0}
MAX_EVENTS = int(os.environ.get("VERIF_REC_MAX", "6000"))


def _texts(obj):
    from checks_heap import _texts as limited_texts
    return limited_texts(obj)


def _is_json(v, d=0):
    if v is None or isinstance(v, (bool, int, float, str)):
        return True
    if d > 20:
        return False
    if type(v) is list:
        return all(_is_json(x, d + 1) for x in v)
    if type(v) is dict:
        return all(isinstance(k, str) and _is_json(x, d + 1) for k, x in v.items())
    return False


def _record(element, value, call):
    import drive
    import codec
    depth = getattr(_state, "depth", 0)
    if depth or _fh is None or _count["events"] >= MAX_EVENTS:
        _state.depth = depth + 1
        try:
            return call()
        finally:
            _state.depth = depth
    _state.depth = 1
    ev = {"test": _current["test"], "flags": {}}
    try:
        try:
            pre = drive.project_element(element)
        except Exception:  # noqa
            pre = None
        snap0 = drive.deep_snapshot([element])
        texts0 = _texts(element)
        if _is_json(value):
            vcopy, copied = copy.deepcopy(value), True
        else:          # model instances etc.: deepcopy is not meaningful for them
            vcopy, copied = None, False
    except Exception:  # noqa
        _count["skipped"] += 1
        try:
            return call()
        finally:
            _state.depth = 0
    outcome = "ok"
    try:
        result = call()
        return result
    except BaseException as exc:
        outcome = type(exc).__name__
        raise
    finally:
        try:
            fl = ev["flags"]
            fl["snapSame"] = drive.deep_snapshot([element]) == snap0
            texts1 = _texts(element)
            from checks_heap import _texts_same
            fl["reprSame"], fl["jsonSame"], fl["pySame"] = _texts_same(texts0, texts1, element)
            if copied:
                try:
                    fl["inputSame"] = bool(vcopy == value) and repr(vcopy) == repr(value)
                except Exception:  # noqa
                    fl["inputSame"] = True
            else:
                fl["inputSame"] = True
            try:
                post = drive.project_element(element)
            except Exception:  # noqa
                post = None
            ev["pre"], ev["post"] = pre, post
            ev["outcome"] = outcome
            ev["element"] = repr(element)[:200]
            _fh.write(json.dumps(ev) + "\n")
            _fh.flush()
            _count["events"] += 1
        except Exception:  # noqa
            _count["skipped"] += 1
        _state.depth = 0


def _install():
    from statham.schema.elements.base import Element
    from statham.schema.elements.meta import ObjectMeta
    from statham.schema.constants import NotPassed
    orig_call = Element.__call__

    def element_call(self, value, property_=None):
        return _record(self, value, lambda: orig_call(self, value, property_))
    Element.__call__ = element_call

    def class_call(cls, *args, **kwargs):
        value = args[0] if args else kwargs.get("value", NotPassed())
        return _record(cls, value, lambda: type.__call__(cls, *args, **kwargs))
    ObjectMeta.__call__ = class_call


def pytest_configure(config):
    global _fh
    if _OUT:
        _fh = open(_OUT, "w")
        _install()


def pytest_runtest_setup(item):
    _current["test"] = item.nodeid


def pytest_unconfigure(config):
    if _fh:
        _fh.write(json.dumps({"summary": _count}) + "\n")
        _fh.close()
