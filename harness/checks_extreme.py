"""C10 outside the comfortable range (Extreme.tla / MC_Extreme.tla / Trace_Extreme.tla).

Every (schema atom, value class) case enumerated by TLC is concretised and driven through
parse_element and a call, under a wall-clock limit; outcome kinds are adjudicated by TLC."""
import json
import signal
import sys
import time

import common
from common import run_tlc, MachineryError
import codec
import drive

NUMS = {"zero": 0, "one": 1, "negzerof": -0.0, "onehalf": 0.5, "p53plus1": 2 ** 53 + 1, "fmax": 1.7976931348623157e308,
        "negfmax": -1.7976931348623157e308, "int308": 10 ** 308, "int1024m1": 2 ** 1024 - 1, "denormal": 5e-324,
        "bigint": 10 ** 400,
        "negbigint": -10 ** 400, "int5000d": 10 ** 5000}
STRS = {"empty": "", "nul": "\0", "paren": "(", "bracket": "a[0", "smiley": ":-)", "backslash": "\\", "long": "ab" * 5000,
        "astral": "\U0001F600", "combining": "é", "surrogate": "\ud800", "newline": "a\nb", "percent_s": "%s {0} {x}",
        "brace": "{", "digits30": "9" * 30, "uuid_braced": "{12345678-1234-5678-1234-567812345678}", "digits2": "12", "aa": "aa"}
MULTS = {"m_half": 0.5, "m_three": 3, "m_threef": 3.0, "m_tiny": 1e-300, "m_bigint": 10 ** 400}
NAMES = {"nul": "\0", "del": "\x7f", "private_use": "\ue000", "surrogate": "\ud800", "paren": "(", "space": "a b",
         "superscript": "²", "empty": "", "combining": "é", "keyword": "class", "dunder": "__init__", "dunder_custom": "__type__", "dunder_only": "__"}


def _srepr(v):
    try:
        return repr(v)[:40]
    except ValueError:      # int beyond the interpreter's str-digits limit
        return f"<int of {v.bit_length()} bits>"


def _nest(depth, wrap):
    s = {"type": "string"}
    for _ in range(depth):
        s = wrap(s)
    return s


def atom_schema(atom, arg):
    nm = NAMES.get(arg, "x")
    return {
        "patterns_inline_flag": lambda: {"patternProperties": {"^a": {"type": "integer"}, "(?i)^B": {"type": "string"}},
                                         "properties": {"a": {}}},
        "pattern_neg_lookbehind": lambda: {"pattern": r"(?<!-)\b\d+$"},
        "pattern_lookahead": lambda: {"pattern": r"^(?=a)(?!ab)\w+"},
        "pattern_backreference": lambda: {"pattern": r"^(?P<c>a)(?P=c)$", "patternProperties": {r"^(.)\1$": {}}},
        "patterns_same_group": lambda: {"patternProperties": {"^(?P<x>a)": {}, "^(?P<x>b)": {"type": "integer"}}},
        "deep_items": lambda: _nest(600, lambda s: {"items": s}),
        "deep_not": lambda: _nest(600, lambda s: {"not": s}),
        "deep_anyOf": lambda: _nest(600, lambda s: {"anyOf": [s, {"type": "null"}]}),
        "deep_properties": lambda: _nest(600, lambda s: {"properties": {"a": s}}),
        "deep_additional": lambda: _nest(600, lambda s: {"additionalProperties": s}),
        "deep_dependencies": lambda: _nest(600, lambda s: {"dependencies": {"a": s}}),
        "deep_within_budget": lambda: _nest(40, lambda s: {"items": [{"not": s}]}),
        "multipleOf": lambda: {"multipleOf": MULTS[arg]},
        "type_number": lambda: {"type": "number"},
        "type_integer": lambda: {"type": "integer"},
        "minimum": lambda: {"minimum": 1},
        "maximum_big": lambda: {"maximum": 10 ** 400},
        "const_big": lambda: {"const": 10 ** 400},
        "enum_mixed": lambda: {"enum": [10 ** 400, "(", [1], {"a": 1e308}, None]},
        "uniqueItems": lambda: {"uniqueItems": True},
        "anyOf_str_int": lambda: {"anyOf": [{"type": "string", "maxLength": 0}, {"type": "integer", "maximum": 0}]},
        "oneOf_two": lambda: {"oneOf": [{"minimum": 0}, {"maxLength": 3}]},
        "allOf_conflict": lambda: {"allOf": [{"minLength": 1}, {"maxLength": 0}, {"maximum": -1}]},
        "not_any": lambda: {"not": {}},
        "type_list": lambda: {"type": ["string", "null"]},
        "pattern": lambda: {"pattern": "^a"},
        "format_datetime": lambda: {"format": "date-time"},
        "format_uuid": lambda: {"format": "uuid"},
        "minLength": lambda: {"minLength": 2},
        "property_named": lambda: {"properties": {nm: {"type": "string"}}, "required": [nm]},
        "required_named": lambda: {"type": "object", "required": [nm]},
        "propertyNames": lambda: {"propertyNames": {"pattern": "^a"}},
        "patternProperties": lambda: {"patternProperties": {"^a": {"type": "integer"}}},
        "dependencies_named": lambda: {"dependencies": {nm: ["b"], "b": {"required": [nm]}}},
        "items_number": lambda: {"items": {"type": "number"}},
        "contains_const": lambda: {"contains": {"const": 1}},
        "additionalProperties_false": lambda: {"additionalProperties": False, "properties": {"a": {}}},
        "object_class": lambda: {"type": "object", "title": "T", "properties": {nm: {"default": 1}},
                                 "additionalProperties": {"type": "string"}},
    }[atom]()


def case_value(case):
    k, val, arg = case["kind"], case["val"], case["arg"]
    if k in ("num", "mult"):
        return NUMS[val]
    if k == "str":
        return STRS[val]
    if k == "name":
        nm = NAMES[arg]
        return {nm: "v", "b": 1}
    base = {"bigint": 10 ** 400, "nul": "\0", "paren": "("}[arg]
    if val == "list_of":
        return [base, base, [base]]
    if val == "dict_of":
        return {"a": base, "b": {"a": base}}
    if val == "deep_list":
        v = base
        for _ in range(150):
            v = [v]
        return v
    if val == "deep_dict":
        v = base
        for _ in range(150):
            v = {"a": v}
        return v
    if val == "dict_unusual_key":
        return {"\0": base, "(": base, "": base, "\ud800": 1}
    return [[base], {"a": [base]}, [base], {"a": [base]}]


class _Timeout(Exception):
    pass


def _alarm(signum, frame):
    raise _Timeout()


def observe(st):
    case = st["case"]
    from statham.schema.parser import parse_element
    from statham.schema.exceptions import SchemaParseError, FeatureNotImplementedError, ValidationError
    ob = {"parse": None, "call": "none", "terminated": True}
    signal.signal(signal.SIGVTALRM, _alarm)          # 20 s of CPU time of this process (not wall-clock)
    signal.setitimer(signal.ITIMER_VIRTUAL, 20)
    try:
        schema = atom_schema(case["atom"], case["arg"])
        try:
            # the deep schemas declare no object (nothing to label; the labeller is recursive)
            el = parse_element(schema if case["atom"].startswith("deep_") else drive.label(schema))
            ob["parse"] = "ok"
        except FeatureNotImplementedError:
            ob["parse"] = "notimpl"
        except SchemaParseError:
            ob["parse"] = "parseerr"
        except _Timeout:
            raise
        except Exception as exc:  # noqa
            ob["parse"] = "other:" + type(exc).__name__
            ob["msg"] = str(exc)[:120]
        if ob["parse"] == "ok":
            k, r = drive.call(el, case_value(case))
            ob["call"] = k
            if k.startswith("other"):
                ob["msg"] = str(r)[:120]
    except _Timeout:
        ob["terminated"] = False
    finally:
        signal.setitimer(signal.ITIMER_VIRTUAL, 0)
    return ob


# ------------------------------------------------------------------ random documents x extreme values
BIG = 10 ** 400
RVALS = [0, 1, -1, 0.5, -0.0, 1e308, -1e308, 5e-324, 2 ** 53 + 1, BIG, -BIG, 2 ** 1024 - 1, 1e-300, "", "a", "\0",
         "(((", "9" * 30, "a" * 3000, [BIG, 0.5], [1e308, "a"], {"a": BIG}, {"a": 0.5, "b": [BIG]}, {"": 1},
         {"\0": BIG}, [[[0.5]]], [{"a": "9" * 30}], None, True, False, [1, 1.0, True], [[], []], [{}, {}],
         {"a": {"a": {"a": BIG}}}, 1.5, 3.0, 7, "1990-12-31T15:59:59Z", "ab"]


def _sprinkle(d, rng):
    """put numbers from outside the comfortable range into the numeric keywords of a document"""
    if isinstance(d, dict):
        for k in list(d):
            if k in ("minimum", "maximum", "exclusiveMinimum", "exclusiveMaximum") and rng.random() < 0.5:
                d[k] = rng.choice([BIG, -BIG, 1e308, 5e-324, 0.5, 2 ** 1024 - 1])
            elif k == "multipleOf" and rng.random() < 0.7:
                d[k] = rng.choice([BIG, 1e-300, 5e-324, 0.5, 3, 3.0, 1e308, 2 ** 1024 - 1, 7])
            elif k == "const" and rng.random() < 0.3:
                d[k] = rng.choice(RVALS)
            elif k == "enum" and rng.random() < 0.3:
                d[k] = [rng.choice(RVALS) for _ in range(3)]
            else:
                _sprinkle(d[k], rng)
    elif isinstance(d, list):
        for x in d:
            _sprinkle(x, rng)


def _rand_observe(doc):
    from statham.schema.parser import parse_element
    from statham.schema.exceptions import SchemaParseError, FeatureNotImplementedError
    out = []
    signal.signal(signal.SIGVTALRM, _alarm)
    signal.setitimer(signal.ITIMER_VIRTUAL, 60)
    try:
        try:
            el = parse_element(drive.label(doc))
        except FeatureNotImplementedError:
            return [("notimpl", "none", True, None)]
        except SchemaParseError:
            return [("parseerr", "none", True, None)]
        except _Timeout:
            raise
        except Exception as exc:  # noqa
            return [("other:" + type(exc).__name__, "none", True, None)]
        for vi, v in enumerate(RVALS):
            k, _r = drive.call(el, v)
            out.append(("ok", k, True, vi))
    except _Timeout:
        out.append(("ok", "none", False, None))
    finally:
        signal.setitimer(signal.ITIMER_VIRTUAL, 0)
    return out


def random_extremes(rep, tier):
    """documents from the independent generator (randdocs.py) with extreme numbers sprinkled into
    their numeric keywords, called on values outside the comfortable range; every distinct
    (parse outcome, call outcome, terminated) is adjudicated by Trace_Extreme (R_C10)."""
    import os
    import random
    import randdocs
    seed = int(os.environ.get("VERIF_SEED", "0"))
    n = 400 if tier == "quick" else 6000
    docs = randdocs.documents(1000 + seed, n, depth=3)
    rng = random.Random(seed)
    for d in docs:
        _sprinkle(d, rng)
    common.use_repo()
    obs = drive.pmap(_rand_observe, docs, chunksize=16)
    kinds = {}
    calls = 0
    for doc, rows in zip(docs, obs):
        for parse, call, term, vi in rows:
            calls += 1
            kinds.setdefault((parse, call, term), (doc, vi))
    events = [(i + 1, '[id |-> %d, p |-> "C10", parse |-> %s, call |-> %s, terminated |-> %s]'
               % (i + 1, codec.tla_str(k[0]), codec.tla_str(k[1]), "TRUE" if k[2] else "FALSE"))
              for i, k in enumerate(kinds)]
    data = ("---- MODULE TraceData ----\nEXTENDS Integers, Sequences, TLC\nEvents == <<\n"
            + ",\n".join(t for _, t in events) + "\n>>\n====\n")
    r2 = run_tlc("Trace_Extreme", "SPECIFICATION Spec\nINVARIANT Inv\nPOSTCONDITION Consumed\nCHECK_DEADLOCK FALSE\n",
                 extra_modules={"TraceData": data}, workers=1, coverage=False)
    if not r2.ok:
        raise MachineryError("Trace_Extreme failed:\n" + r2.raw_tail[-2000:])
    klist = list(kinds)
    for l in r2.lines:
        k = klist[l["reject"] - 1]
        doc, vi = kinds[k]
        real = k[0] if k[0] != "ok" else k[1]
        what = "does not terminate within 60 s of CPU time" if not k[2] else f"{real} escapes"
        rep.violation(("C10", "random-extreme", real.split(":")[-1]),
                      f"{what}: schema {json.dumps(doc, default=_srepr)[:300]}"
                      + (f" value {_srepr(RVALS[vi])}" if vi is not None else ""),
                      dict(state=dict(doc=json.loads(json.dumps(doc, default=_srepr)), value_index=vi)))
    return dict(random_extreme_documents=len(docs), random_extreme_calls=calls,
                random_extreme_outcome_kinds=sorted("/".join(map(str, k)) for k in kinds))


def _exact_expected(case):
    """exact rational arithmetic for the table ExpectedAccept of Extreme.tla (machinery check)"""
    from fractions import Fraction
    if case["kind"] == "mult":
        if case["arg"] == "m_tiny":
            return None
        return Fraction(NUMS[case["val"]]) % Fraction(MULTS[case["arg"]]) == 0
    if case["kind"] == "num":
        v = NUMS[case["val"]]
        a = case["atom"]
        if a == "type_number":
            return True
        if a == "type_integer":
            return isinstance(v, int)
        if a == "minimum":
            return Fraction(v) >= 1
        if a == "maximum_big":
            return Fraction(v) <= 10 ** 400
        if a == "const_big":
            return isinstance(v, int) and v == 10 ** 400
    return None


def collect(rep, tier, pid="C10"):
    res = run_tlc("MC_Extreme", "SPECIFICATION Spec\nINVARIANT Inv\nCHECK_DEADLOCK FALSE\n", coverage=False, workers=4)
    if not res.ok or not res.lines:
        raise MachineryError("TLC failed on MC_Extreme:\n" + res.raw_tail[-2000:])
    states = res.lines
    common.use_repo()
    old = sys.getrecursionlimit()
    obs = drive.pmap(observe, states, chunksize=32)
    events, index = [], {}
    drift = 0
    for st in states:        # the reference table itself is checked first
        ex = _exact_expected(st["case"])
        if (ex is not None and st["expected"] != [ex]) or (ex is None and len(st["expected"]) == 1):
            raise MachineryError(f"Extreme.tla ExpectedAccept is wrong for {st['case']}: table {st['expected']}, exact {ex}")
    if pid == "C01":
        n = 0
        for si, (st, ob) in enumerate(zip(states, obs)):
            if len(st["expected"]) != 1 or ob["parse"] != "ok" or ob["call"] not in ("ok", "reject"):
                continue
            n += 1
            eid = len(index) + 1
            index[eid] = si
            c = st["case"]
            events.append((eid, '[id |-> %d, p |-> "C01", c |-> [kind |-> %s, atom |-> %s, arg |-> %s, val |-> %s], parse |-> "ok", call |-> %s, terminated |-> TRUE]'
                           % (eid, codec.tla_str(c["kind"]), codec.tla_str(c["atom"]), codec.tla_str(c["arg"]),
                              codec.tla_str(c["val"]), codec.tla_str(ob["call"]))))
        adj = 0
        if events:
            data = ("---- MODULE TraceData ----\nEXTENDS Integers, Sequences, TLC\nEvents == <<\n"
                    + ",\n".join(t for _, t in events) + "\n>>\n====\n")
            r2 = run_tlc("Trace_Extreme", "SPECIFICATION Spec\nINVARIANT Inv\nPOSTCONDITION Consumed\nCHECK_DEADLOCK FALSE\n",
                         extra_modules={"TraceData": data}, workers=1, coverage=False)
            if not r2.ok:
                raise MachineryError("Trace_Extreme failed:\n" + r2.raw_tail[-2000:])
            adj = r2.distinct
            for l in r2.lines:
                st, ob = states[index[l["reject"]]], obs[index[l["reject"]]]
                c = st["case"]
                rep.violation(("C01", "extreme", c["atom"], c["arg"]),
                              f"{json.dumps(atom_schema(c['atom'], c['arg']), default=repr)[:120]} on {c['val']} "
                              f"(= {_srepr(NUMS[c['val']])}): statham says {ob['call']}, Draft 6 says "
                              f"{'accept' if st['expected'] == [True] else 'reject'}", dict(state=st, observed=ob))
        return dict(extreme_states=res.distinct, extreme_cases=n, extreme_tlc_states=adj)
    for si, (st, ob) in enumerate(zip(states, obs)):
        c = st["case"]
        real = (ob["parse"] or "none") if ob["parse"] != "ok" else ob["call"]
        pred_bad = st["predicted"] != "fine"
        real_bad = not ob["terminated"] or real.startswith("other")
        if pred_bad and real == st["predicted"]:
            rep.violation(("C10", "extreme", c["atom"], real),
                          f"{json.dumps(atom_schema(c['atom'], c['arg']), default=repr)[:120]} on value class {c['val']}: {real} escapes ({ob.get('msg', '')})",
                          dict(state=st, observed=ob))
            continue
        if pred_bad != real_bad:
            drift += 1
        eid = len(index) + 1
        index[eid] = si
        events.append((eid, '[id |-> %d, p |-> "C10", parse |-> %s, call |-> %s, terminated |-> %s]'
                       % (eid, codec.tla_str(ob["parse"] or "none"), codec.tla_str(ob["call"]),
                          "TRUE" if ob["terminated"] else "FALSE")))
    adj = 0
    if events:
        data = ("---- MODULE TraceData ----\nEXTENDS Integers, Sequences, TLC\nEvents == <<\n"
                + ",\n".join(t for _, t in events) + "\n>>\n====\n")
        r2 = run_tlc("Trace_Extreme", "SPECIFICATION Spec\nINVARIANT Inv\nPOSTCONDITION Consumed\nCHECK_DEADLOCK FALSE\n",
                     extra_modules={"TraceData": data}, workers=1, coverage=False)
        if not r2.ok:
            raise MachineryError("Trace_Extreme failed:\n" + r2.raw_tail[-2000:])
        adj = r2.distinct
        for l in r2.lines:
            si = index[l["reject"]]
            st, ob = states[si], obs[si]
            c = st["case"]
            real = (ob["parse"] or "none") if ob["parse"] != "ok" else ob["call"]
            what = "does not terminate within 20 s of CPU time" if not ob["terminated"] else f"{real} escapes ({ob.get('msg', '')})"
            where = "parse_element" if ob["parse"] != "ok" else "call"
            rep.violation(("C10", "extreme", c["atom"] if where == "call" else "parse:" + c["atom"], real.split(":")[-1]),
                          f"{where}: schema {json.dumps(atom_schema(c['atom'], c['arg']), default=repr)[:140]} "
                          f"value class {c['kind']}/{c['val']}/{c['arg']}: {what}",
                          dict(state=st, observed=ob))
    return dict(extreme_states=res.distinct, extreme_cases=len(states), extreme_drift=drift,
                extreme_adjudicated=len(events), extreme_tlc_states=adj,
                extreme_sample=[dict(case=states[i]["case"], observed=obs[i]) for i in (3, len(states) // 2)])
