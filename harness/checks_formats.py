"""C16 -- format checking consults exactly the registered checker.

Stage 1  TLC enumerates (a) every history of Register/Check events of the bounded instances
         of spec/MC_Formats.tla (spec/Formats.tla is the state machine) and (b) every RFC 3339
         date-time / canonical UUID string of the builder spec/MC_FormatsGen.tla, and exports
         one JSON line per complete history / string with the model's predicted outcomes.
Stage 2  every exported history is replayed against the REAL statham format_checker through
         String(format=...) and Element(format=...) calls (registry saved and restored around
         each behaviour, warnings recorded with simplefilter("always")); the outcome of every
         call is compared with the prediction after every step.  Every generated string is
         validated with String/Element(format="date-time"|"uuid").
Stage 3  behaviours whose observations differ from the prediction (drift) are written, as
         observed, to a generated TraceData.tla and adjudicated by TLC (spec/Trace_Formats.tla)
         against the reference predicate R_C16.  Only a rejected observation is a violation.
"""
import copy
import gzip
import hashlib
import json
import multiprocessing as mp
import os
import time
import warnings
import zlib
from collections import Counter, OrderedDict, defaultdict

import common
from common import run_tlc, MachineryError, VERIF, SPEC, SEED, NPROC
import codec
import drive
from report import Reporter

CACHE = os.path.join(VERIF, ".cache")
CACHE_MAX_LINES = 400000
BATCH = 2000
MAX_HIST_EVENTS = 3000       # drifted histories adjudicated per run (the rest is counted)
MAX_GEN_EVENTS = 6000        # drifted built-in strings adjudicated per run
PER_GROUP = 40               # drifted histories adjudicated per (python-side) drift signature

# --------------------------------------------------------------------------- instances
# MC_Formats constants.  values (ValueIdx) index AllValues of MC_Formats.tla:
#  1 ""  2 "a"  3 "ab"  4 1  5 None  6 ["ab"]  7 "abc"  8 True  9 {"ab": 1}  10 1.5  11 nil-uuid
HIST_TIERS = {
    "quick": [
        dict(tag="A", MaxLen=4, NNames=3, NCheckers=3, ValueIdx=[1, 3, 4, 5, 6], PreReg=False),
        dict(tag="P", MaxLen=3, NNames=1, NCheckers=2, ValueIdx=[1, 3, 11, 4], PreReg=True),
        dict(tag="W", MaxLen=2, NNames=2, NCheckers=4, ValueIdx=list(range(1, 12)), PreReg=True),
    ],
    "thorough": [
        dict(tag="A4", MaxLen=4, NNames=3, NCheckers=4, ValueIdx=[1, 2, 3, 4, 5, 6], PreReg=False),
        dict(tag="A5", MaxLen=5, NNames=2, NCheckers=3, ValueIdx=[1, 3, 4, 5, 6], PreReg=False),
        dict(tag="B", MaxLen=6, NNames=1, NCheckers=4, ValueIdx=[1, 2, 3, 4], PreReg=False),
        dict(tag="B2", MaxLen=6, NNames=2, NCheckers=2, ValueIdx=[1, 4], PreReg=False),
        dict(tag="P", MaxLen=4, NNames=1, NCheckers=3, ValueIdx=[1, 3, 11, 4], PreReg=True),
        dict(tag="W", MaxLen=3, NNames=2, NCheckers=4, ValueIdx=list(range(1, 12)), PreReg=True),
        dict(tag="S", MaxLen=10, NNames=3, NCheckers=4, ValueIdx=list(range(1, 12)), PreReg=True,
             simulate=40, sim_workers=8),
    ],
}
GEN_TIERS = {
    "quick": [dict(Fmt="date-time", MaxDev=2), dict(Fmt="uuid", MaxDev=2)],
    "thorough": [dict(Fmt="date-time", MaxDev=9), dict(Fmt="uuid", MaxDev=4)],
}
MY_MODULES = ("FormatsGen.tla", "Formats.tla", "MC_Formats.tla", "MC_FormatsGen.tla",
              "Trace_Formats.tla")


def _hist_cfg(c):
    return ("CONSTANTS\n MaxLen = %d\n NNames = %d\n NCheckers = %d\n ValueIdx = {%s}\n PreReg = %s\n"
            "SPECIFICATION Spec\nINVARIANT Inv\nINVARIANT RegistryIsInForce\nCHECK_DEADLOCK FALSE\n"
            % (c["MaxLen"], c["NNames"], c["NCheckers"], ", ".join(map(str, c["ValueIdx"])),
               "TRUE" if c["PreReg"] else "FALSE"))


def _gen_cfg(c):
    return ('CONSTANTS\n Fmt = "%s"\n MaxDev = %d\n Year0 = TRUE\n'
            "SPECIFICATION Spec\nINVARIANT Inv\nCHECK_DEADLOCK FALSE\n" % (c["Fmt"], c["MaxDev"]))


def _spec_hash():
    h = hashlib.sha1()
    for fn in MY_MODULES:
        h.update(fn.encode())
        h.update(open(os.path.join(SPEC, fn), "rb").read())
    return h


def _tlc_lines(module, cfg, sink, **kw):
    """Run TLC (or read its cached export: it does not depend on the repository) and pass
    every exported object to sink.  Returns TLC's statistics."""
    h = _spec_hash()
    h.update(module.encode())
    h.update(cfg.encode())
    h.update(json.dumps(kw, sort_keys=True).encode())
    path = os.path.join(CACHE, "fmt-%s-%s.jsonl.gz" % (module, h.hexdigest()[:20]))
    if os.path.exists(path) and not os.environ.get("VERIF_NOCACHE"):
        with gzip.open(path, "rt") as fh:
            meta = json.loads(fh.readline())
            n = 0
            for l in fh:
                sink(json.loads(l))
                n += 1
        if n != meta["lines"]:
            raise MachineryError(f"truncated TLC cache {path}")
        meta["cached"] = True
        return meta
    keep = []
    count = [0]

    def tee(obj):
        count[0] += 1
        if count[0] <= CACHE_MAX_LINES:
            keep.append(obj)
        elif keep:
            del keep[:]
        sink(obj)

    res = run_tlc(module, cfg, coverage=False, line_sink=tee, timeout=7200, **kw)
    if not res.ok:
        raise MachineryError(f"TLC failed on {module}:\n" + res.raw_tail[-3000:])
    meta = dict(states=res.states, distinct=res.distinct, depth=res.depth, wall=round(res.wall, 2),
                lines=count[0], cached=False)
    if count[0] <= CACHE_MAX_LINES:
        os.makedirs(CACHE, exist_ok=True)
        tmp = path + ".tmp%d" % os.getpid()
        with gzip.open(tmp, "wt", compresslevel=3) as fh:
            fh.write(json.dumps(meta) + "\n")
            for o in keep:
                fh.write(json.dumps(o) + "\n")
        os.replace(tmp, path)
    return meta


# --------------------------------------------------------------------------- worker side
CHECKERS = {
    "AlwaysTrue": lambda value: True,
    "AlwaysFalse": lambda value: False,
    "IsAB": lambda value: value == "ab",
    "EvenLen": lambda value: len(value) % 2 == 0,
}
NIL_UUID = "00000000-0000-0000-0000-000000000000"
_COUNTER = [0]
_BASE = {}


def concrete(v):
    k = v["k"]
    if k == "str":
        return v["s"]
    return {"int": 1, "null": None, "arr": ["ab"], "obj": {"ab": 1}, "bool": True, "num": 1.5}[k]


def _registry_dicts(fc):
    """The checker's mutable state: every dict attribute (the registry is the one that knows
    the built-in "uuid"); found generically so that a renamed attribute is not an alarm."""
    return {k: v for k, v in vars(fc).items() if isinstance(v, dict)}


def _save(fc):
    return {k: dict(v) for k, v in _registry_dicts(fc).items()}


def _restore(fc, snap):
    for k, v in _registry_dicts(fc).items():
        if k in snap:
            v.clear()
            v.update(snap[k])


def _call(el, v):
    from statham.schema.exceptions import ValidationError
    try:
        el(copy.deepcopy(v) if isinstance(v, (list, dict)) else v)
        return "ok"
    except ValidationError:
        return "reject"
    except Exception as exc:  # noqa
        return "other:" + type(exc).__name__


def _cls(name):
    from statham.schema.elements import String, Element
    return {"String": String, "Element": Element}[name]


def _baseline(cls, v):
    key = (cls, json.dumps(v))
    if key not in _BASE:
        with warnings.catch_warnings():
            warnings.simplefilter("ignore")
            _BASE[key] = _call(_cls(cls)(), v)
    return _BASE[key]


def replay_history(st):
    """Drive the real format_checker through one exported history.  Returns the events as
    OBSERVED (same shape as the exported ones)."""
    from statham.schema.validation.format import format_checker as fc
    _COUNTER[0] += 1
    tagname = "x-c16-%d-%d-" % (os.getpid(), _COUNTER[0])
    # the abstract names a, b, c are interchangeable in the model; the concrete spelling varies:
    # every fourth behaviour uses names without a letter or digit (the registry is restored
    # after each behaviour, so fixed names are still fresh)
    odd = {"a": "", "b": "-", "c": " :: "}
    if _COUNTER[0] % 4 == 0:
        conc = lambda n: n if n == "uuid" else odd.get(n, tagname + n)     # noqa: E731
    else:
        conc = lambda n: n if n == "uuid" else tagname + n     # noqa: E731
    # which class keeps its element across the behaviour and which is built afresh for every
    # call alternates with a stable hash of the history
    flip = zlib.crc32(json.dumps(st["hist"], sort_keys=True).encode()) & 1
    reused = {}
    snap = _save(fc)
    out = []
    try:
        with warnings.catch_warnings(record=True) as wlist:
            warnings.simplefilter("always")
            for ev in st["hist"]:
                n = conc(ev["n"])
                if ev["op"] == "register":
                    fn = CHECKERS.get(ev["c"]) or _builtin_from(snap, ev["c"])
                    fc.register(n)(fn)
                    out.append(dict(ev, obs=[]))
                    continue
                v = concrete(ev["v"])
                obs = []
                for j, p in enumerate(ev["obs"]):
                    cls = p["cls"]
                    if (j + flip) % 2 == 0:
                        el = reused.get((cls, n))
                        if el is None:
                            el = reused[(cls, n)] = _cls(cls)(format=n)
                    else:
                        el = _cls(cls)(format=n)
                    n0 = len(wlist)
                    kind = _call(el, v)
                    obs.append(dict(cls=cls, base=_baseline(cls, v), kind=kind,
                                    warned=_relevant(wlist[n0:])))
                out.append(dict(ev, obs=obs))
    finally:
        _restore(fc, snap)
    return out


_NOISE = (DeprecationWarning, PendingDeprecationWarning, ResourceWarning, ImportWarning)


def _relevant(ws):
    """Was a warning produced?  Interpreter/dependency housekeeping categories are not the
    library telling the user about a format."""
    return any(not issubclass(w.category, _NOISE) for w in ws)


def _builtin_from(snap, checker):
    name = {"IsUuid": "uuid"}[checker]
    for d in snap.values():
        if name in d:
            return d[name]
    raise MachineryError(f"built-in checker {name!r} not found in the saved registry")


def _same_obs(o, p):
    return o["kind"] == p["kind"] and o["warned"] == p["warned"] and o["base"] == p["base"]


def _in_force(st, i):
    """python-side bookkeeping (used only for coverage counters and for spreading the
    adjudication sample; never for a verdict): checker in force for event i's name."""
    n = st["hist"][i]["n"]
    cur = dict((a, b) for a, b in st["init"]).get(n)
    nreg = 0
    for e in st["hist"][:i]:
        if e["op"] == "register" and e["n"] == n:
            cur = e["c"]
            nreg += 1
    return cur, nreg


def hist_batch(batch):
    """Worker: replay a batch of exported histories; return counters and the drifted ones."""
    cnt = Counter()
    situations = set()
    drifted = []
    samples = []
    for st in batch:
        observed = replay_history(st)
        drift_at = None
        hint = None
        for i, (e, o) in enumerate(zip(st["hist"], observed)):
            cnt["register" if e["op"] == "register" else "check"] += 1
            if e["op"] != "check":
                continue
            cur, nreg = _in_force(st, i)
            isstr = e["v"]["k"] == "str"
            for p, q in zip(e["obs"], o["obs"]):
                cnt["calls"] += 1
                situations.add((cur or "-", e["v"]["k"], e["v"]["s"], p["cls"]))
                if q["warned"]:
                    cnt["warned"] += 1
                if not _same_obs(q, p) and drift_at is None:
                    drift_at = i
                    hint = (cur or "-", nreg > 1 or (nreg == 1 and e["n"] == "uuid"),
                            e["v"]["k"], p["cls"], p["kind"], q["kind"], p["warned"], q["warned"])
            if cur is None and isstr:
                cnt["unregistered_string_checks"] += 1
            if not isstr:
                cnt["nonstring_checks"] += 1
                if cur == "AlwaysFalse":
                    cnt["nonstring_under_rejecting_checker"] += 1
            # the same (name, value) checked earlier under another checker in force
            for k in range(i):
                e0 = st["hist"][k]
                if e0["op"] == "check" and e0["n"] == e["n"] and e0["v"] == e["v"] and isstr:
                    c0, _ = _in_force(st, k)
                    if c0 != cur:
                        cnt["same_pair_rechecked_after_change"] += 1
                        if e0["obs"][1]["kind"] != e["obs"][1]["kind"]:
                            cnt["same_pair_verdict_changes"] += 1
                        break
        if st.get("m16"):
            cnt["model_violations"] += 1
        if drift_at is not None:
            cnt["drifted"] += 1
            drifted.append(dict(state=st, observed=observed, hint=hint, step=drift_at))
        elif st.get("m16"):
            drifted.append(dict(state=st, observed=observed, hint=("model",), step=-1, model=True))
        if len(samples) < 1:
            samples.append(dict(history=_show(st, observed)))
    return dict(cnt=cnt, situations=situations, drifted=drifted, samples=samples, n=len(batch))


def gen_batch(batch):
    """Worker: validate generated built-in strings with String/Element(format=fmt)."""
    out = []
    with warnings.catch_warnings(record=True) as wlist:
        warnings.simplefilter("always")
        for st in batch:
            kinds = [_call(_cls(c)(format=st["fmt"]), st["text"]) for c in ("String", "Element")]
            kind = next((k for k in kinds if k != "ok"), "ok")
            out.append((kind, _relevant(wlist)))
            del wlist[:]
    return out


# --------------------------------------------------------------------------- presentation
def _vshow(v):
    return json.dumps(concrete(v))


def _show(st, observed):
    parts = []
    for e, o in zip(st["hist"], observed):
        if e["op"] == "register":
            parts.append("register(%s, %s)" % (e["n"], e["c"]))
        else:
            parts.append("check(%s, %s) -> %s" % (
                e["n"], _vshow(e["v"]),
                ", ".join("%s: %s%s" % (q["cls"], q["kind"], " +warning" if q["warned"] else "")
                          for q in o["obs"])))
    return "; ".join(parts)


# --------------------------------------------------------------------------- TLA+ encoding
def _val_tla(v):
    return "[k |-> %s, s |-> %s]" % (codec.tla_str(v["k"]), codec.tla_str(v["s"]))


def _obs_tla(o):
    return "[cls |-> %s, base |-> %s, kind |-> %s, warned |-> %s]" % (
        codec.tla_str(o["cls"]), codec.tla_str(o["base"]), codec.tla_str(o["kind"]),
        "TRUE" if o["warned"] else "FALSE")


def _ev_tla(e):
    return "[op |-> %s, n |-> %s, c |-> %s, v |-> %s, obs |-> <<%s>>]" % (
        codec.tla_str(e["op"]), codec.tla_str(e["n"]), codec.tla_str(e["c"]), _val_tla(e["v"]),
        ", ".join(_obs_tla(o) for o in e["obs"]))


def hist_event_tla(eid, st, observed):
    init = ", ".join("<<%s, %s>>" % (codec.tla_str(a), codec.tla_str(b)) for a, b in st["init"])
    return '[id |-> %d, p |-> "C16h", init |-> <<%s>>, ev |-> <<%s>>]' % (
        eid, init, ", ".join(_ev_tla(e) for e in observed))


def gen_event_tla(eid, st, kind):
    return '[id |-> %d, p |-> "C16b", fmt |-> %s, fields |-> %s, text |-> %s, kind |-> %s]' % (
        eid, codec.tla_str(st["fmt"]), codec.tla_strseq(st["fields"]), codec.tla_str(st["text"]),
        codec.tla_str(kind))


def adjudicate(events, chunk=2000):
    """events: list of (id, tla text).  Returns ({id: [reject lines]}, stats)."""
    rejected = defaultdict(list)
    stats = dict(events=len(events), tlc_states=0, tlc_transitions=0, runs=0)
    t0 = time.time()
    cfg = "SPECIFICATION Spec\nINVARIANT Inv\nPOSTCONDITION Consumed\nCHECK_DEADLOCK FALSE\n"
    for c in range(0, len(events), chunk):
        part = events[c:c + chunk]
        data = ("---- MODULE TraceData ----\nEXTENDS Integers, Sequences, TLC\nEvents == <<\n"
                + ",\n".join(t for _, t in part) + "\n>>\n====\n")
        res = run_tlc("Trace_Formats", cfg, extra_modules={"TraceData": data}, workers=1,
                      coverage=False)
        if not res.ok:
            raise MachineryError("trace validation failed (trace not consumed or TLC error):\n"
                                 + res.raw_tail[-2500:])
        for l in res.lines:
            if "machinery" in l:
                raise MachineryError("Trace_Formats: inferred registry and declarative "
                                     "reference disagree on event %r" % (l,))
            rejected[l["reject"]].append(l)
        stats["tlc_states"] += res.distinct
        stats["tlc_transitions"] += res.states
        stats["runs"] += 1
    stats["wall"] = round(time.time() - t0, 2)
    return rejected, stats


# --------------------------------------------------------------------------- root causes
def attribute(leaves, failing_idx):
    """Group failing generated strings by root cause: greedily pick the (field = value) -- then
    the pair of them -- under which EVERY generated string fails and that explains most of the
    still unexplained failures.  Deterministic for a given exported set."""
    total = Counter()
    for st in leaves:
        for fv in zip(st["names"], st["fields"]):
            total[fv] += 1
    where = defaultdict(set)          # (field, value) -> failing strings that contain it
    for i in failing_idx:
        for fv in zip(leaves[i]["names"], leaves[i]["fields"]):
            where[fv].add(i)
    always = sorted(fv for fv, idx in where.items() if len(idx) == total[fv])
    remaining = set(failing_idx)
    groups = OrderedDict()
    while remaining and always:
        best, cover = None, set()
        for fv in always:
            cov = where[fv] & remaining
            if len(cov) > len(cover):
                best, cover = fv, cov
        if not cover:
            break
        groups["%s=%s" % best] = sorted(cover)
        remaining -= cover
        always.remove(best)
    if remaining:
        # interactions: pairs of (field = value) under which every generated string fails
        from itertools import combinations
        pwhere = defaultdict(set)
        for i in remaining:
            for pr in combinations(zip(leaves[i]["names"], leaves[i]["fields"]), 2):
                pwhere[pr].add(i)
        ptotal = Counter()
        for st in leaves:
            for pr in combinations(zip(st["names"], st["fields"]), 2):
                if pr in pwhere:
                    ptotal[pr] += 1
        fail_all = set(failing_idx)
        pfail = Counter()
        for i in fail_all:
            for pr in combinations(zip(leaves[i]["names"], leaves[i]["fields"]), 2):
                if pr in pwhere:
                    pfail[pr] += 1
        palways = sorted(pr for pr in pwhere if pfail[pr] == ptotal[pr])
        while remaining and palways:
            best, cover = None, set()
            for pr in palways:
                cov = pwhere[pr] & remaining
                if len(cov) > len(cover):
                    best, cover = pr, cov
            if not cover:
                break
            groups["%s=%s,%s=%s" % (best[0] + best[1])] = sorted(cover)
            remaining -= cover
            palways.remove(best)
    for i in sorted(remaining):
        groups.setdefault("text=" + leaves[i]["text"], []).append(i)
    return groups


# --------------------------------------------------------------------------- the check
class _Pipeline:
    """TLC export lines -> batches -> worker pool, with bounded work in flight."""

    def __init__(self, fn, handle):
        self.fn, self.handle = fn, handle
        self.batch, self.pending = [], []
        self.pool = None
        if NPROC > 1:
            self.pool = mp.get_context("fork").Pool(NPROC, initializer=drive._init)

    def sink(self, obj):
        self.batch.append(obj)
        if len(self.batch) >= BATCH:
            self.flush()

    def flush(self):
        if not self.batch:
            return
        b, self.batch = self.batch, []
        if self.pool is None:
            self.handle(b, self.fn(b))
            return
        self.pending.append((b, self.pool.apply_async(self.fn, (b,))))
        while len(self.pending) > 4 * NPROC:
            b0, r0 = self.pending.pop(0)
            self.handle(b0, r0.get())

    def close(self):
        self.flush()
        try:
            for b0, r0 in self.pending:
                self.handle(b0, r0.get())
        finally:
            if self.pool is not None:
                self.pool.terminate()
                self.pool.join()


def run(pid, tier, replay_file=None):
    t0 = time.time()
    rep = Reporter(pid, tier)
    common.use_repo()
    cnt = Counter()
    situations = set()
    drifted = []          # histories
    drift_extra = Counter()
    samples = []
    hist_info, gen_info = [], []
    leaves, leaf_obs = [], []

    def handle_hist(_batch, res):
        cnt.update(res["cnt"])
        cnt["histories"] += res["n"]
        situations.update(res["situations"])
        for d in res["drifted"]:
            if len(drifted) < 40000:
                drifted.append(d)
            else:
                drift_extra["histories_not_kept"] += 1
        if len(samples) < 3:
            samples.extend(res["samples"])

    def handle_gen(batch, res):
        leaves.extend(batch)
        leaf_obs.extend(res)

    if replay_file:
        payload = json.load(open(replay_file))
        st = payload["state"]
        if "hist" in st:
            handle_hist([st], hist_batch([st]))
        else:
            handle_gen([st], gen_batch([st]))
    else:
        for c in HIST_TIERS[tier]:
            pipe = _Pipeline(hist_batch, handle_hist)
            try:
                n0 = cnt["histories"]
                kw = {}
                if c.get("simulate"):
                    kw = dict(simulate="num=%d" % c["simulate"], depth=c["MaxLen"] + 1,
                              seed=SEED + 16, workers=c["sim_workers"])
                meta = _tlc_lines("MC_Formats", _hist_cfg(c), pipe.sink, **kw)
            finally:
                pipe.close()
            hist_info.append(dict(consts={k: v for k, v in c.items()}, replayed=cnt["histories"] - n0,
                                  **meta))
        for c in GEN_TIERS[tier]:
            pipe = _Pipeline(gen_batch, handle_gen)
            try:
                n0 = len(leaves)
                meta = _tlc_lines("MC_FormatsGen", _gen_cfg(c), pipe.sink)
            finally:
                pipe.close()
            gen_info.append(dict(consts=c, replayed=len(leaves) - n0, **meta))

    # ---------------- stage 3: adjudicate drift against R_C16 (TLC, Trace_Formats)
    events, index = [], {}

    def add(text_fn, ref):
        eid = len(events) + 1
        index[eid] = ref
        events.append((eid, text_fn(eid)))

    # histories: spread the sample over the python-side drift signatures, shortest first
    by_hint = defaultdict(list)
    for d in drifted:
        by_hint[d["hint"]].append(d)
    chosen = []
    for hint in sorted(by_hint, key=repr):
        ds = sorted(by_hint[hint], key=lambda d: (len(d["state"]["hist"]), d["step"],
                                                  json.dumps(d["state"]["hist"], sort_keys=True)))
        chosen.extend(ds[:PER_GROUP])
    # witnesses on fresh format names first: they replay identically in a fresh process even
    # if the tree under test keeps hidden per-name state across behaviours
    chosen.sort(key=lambda d: (any(e["n"] == "uuid" for e in d["state"]["hist"]),
                               len(d["state"]["hist"])))
    chosen = chosen[:MAX_HIST_EVENTS]
    for d in chosen:
        if d.get("model"):
            continue
        try:
            add(lambda eid, d=d: hist_event_tla(eid, d["state"], d["observed"]), ("h", d))
        except ValueError as exc:
            raise MachineryError(f"cannot encode an observation for TLC: {exc}")
    # a model-level counter-example confirmed on the real code (prediction = observation)
    for d in drifted:
        if d.get("model"):
            rep.violation(("history", "model"),
                          "the specified design itself violates R_C16 and the code agrees: "
                          + _show(d["state"], d["observed"]),
                          dict(state=d["state"], observed=d["observed"]))

    # built-ins
    failing = [i for i, (k, _w) in enumerate(leaf_obs) if k != "ok"]
    gen_groups = OrderedDict()
    for fmt in sorted({leaves[i]["fmt"] for i in failing}):
        sub = [i for i in range(len(leaves)) if leaves[i]["fmt"] == fmt]
        local = attribute([leaves[i] for i in sub],
                          [k for k, i in enumerate(sub) if leaf_obs[i][0] != "ok"])
        for cause, ks in local.items():
            gen_groups[(fmt.replace("-", ""), cause)] = [sub[k] for k in ks]
    if replay_file and gen_groups and payload.get("key"):
        # a single replayed string carries the root cause it was grouped under
        gen_groups = OrderedDict([(tuple(payload["key"]), sum(gen_groups.values(), []))])
    budget = max(1, MAX_GEN_EVENTS // max(1, len(gen_groups)))
    gen_event_group = {}
    for key, idxs in gen_groups.items():
        idxs = sorted(idxs, key=lambda i: (len(leaves[i]["text"]), leaves[i]["text"]))
        for i in idxs[:budget]:
            add(lambda eid, i=i: gen_event_tla(eid, leaves[i], leaf_obs[i][0]), ("g", i))
            gen_event_group[i] = key

    adj = dict(events=0, tlc_states=0, tlc_transitions=0)
    if events:
        rejected, adj = adjudicate(events)
        gen_rejected = Counter()
        gen_first = {}
        hist_rejects = []
        for eid in sorted(rejected):
            kind, ref = index[eid]
            if kind == "h":
                d = ref
                st, observed = d["state"], d["observed"]
                for l in rejected[eid]:
                    k = l["step"]
                    e = st["hist"][k - 1]
                    o = observed[k - 1]["obs"][l["call"] - 1]
                    _cur, nreg = _in_force(st, k - 1)
                    key = ("history", l["clause"],
                           "registered" if l["registered"] else "unregistered",
                           "string" if e["v"]["k"] == "str" else "non-string",
                           "got=" + o["kind"].split(":")[0],
                           "after-re-registration" if nreg > 1 or (nreg == 1 and e["n"] == "uuid")
                           else "first-registration" if nreg == 1 else "never-registered")
                    # the witness is the prefix that ends with the rejected step
                    pre = dict(st, hist=st["hist"][:k])
                    hist_rejects.append(((any(x["n"] == "uuid" for x in pre["hist"]), k, eid), key,
                                         _hist_msg(pre, observed[:k], l, o),
                                         dict(state=pre, observed=observed[:k], reject=l)))
            else:
                key = gen_event_group[ref]
                gen_rejected[key] += 1
                gen_first.setdefault(key, ref)
        for _order, key, msg, payload in sorted(hist_rejects, key=lambda r: r[0]):
            rep.violation(key, msg, payload)
        for key, n in gen_rejected.items():
            i = gen_first[key]
            st = leaves[i]
            total = len(gen_groups[key])
            for _ in range(n):
                rep.violation(key, "built-in format %r rejects the generated %s %r (%s; %d generated "
                              "strings with this cause rejected, %d adjudicated by TLC)"
                              % (st["fmt"], "RFC 3339 timestamp" if st["fmt"] == "date-time"
                                 else "canonical UUID", st["text"], leaf_obs[i][0], total, n),
                              dict(state=st, observed=dict(kind=leaf_obs[i][0]),
                                   witnesses=[leaves[j]["text"] for j in gen_groups[key][:20]]))

    # ---------------- vacuity guards
    if not replay_file:
        need = dict(register=cnt["register"], check=cnt["check"],
                    unregistered_string_checks=cnt["unregistered_string_checks"],
                    nonstring_under_rejecting_checker=cnt["nonstring_under_rejecting_checker"],
                    same_pair_rechecked_after_change=cnt["same_pair_rechecked_after_change"],
                    same_pair_verdict_changes=cnt["same_pair_verdict_changes"])
        for k, v in need.items():
            if not v:
                raise MachineryError(f"vacuity: no exported history exercises {k}")
        _gen_vacuity(leaves)

    # ---------------- evidence
    tlc_states = sum(int(x.get("distinct", 0)) for x in hist_info + gen_info) + adj.get("tlc_states", 0)
    tlc_trans = sum(int(x.get("states", 0)) for x in hist_info + gen_info) + adj.get("tlc_transitions", 0)
    gsamples = []
    for i in (0, len(leaves) // 2, len(leaves) - 1):
        if 0 <= i < len(leaves):
            gsamples.append(dict(format=leaves[i]["fmt"], text=leaves[i]["text"], observed=leaf_obs[i][0]))
    coverage = dict(
        states=tlc_states,
        transitions=tlc_trans,
        traces_validated_against_impl=cnt["histories"] + len(leaves) + len(events),
        histories_replayed=cnt["histories"],
        builtin_strings_replayed=len(leaves),
        evaluations=cnt["calls"] + 2 * len(leaves),
        distinct_nontrivial=len(situations) + len({(l["fmt"], tuple(l["fields"])) for l in leaves}),
        rule="one case = one real call String/Element(format=n)(v) made after replaying a history "
             "prefix, compared with the model's prediction; non-trivial = distinct (checker in force "
             "or unregistered, value, element class) situations reached, plus distinct generated "
             "built-in strings",
        samples=samples[:3] + gsamples,
        exhaustive=False,
        bounds=dict(histories=[x["consts"] for x in hist_info], generators=[x["consts"] for x in gen_info]),
        bfs_exhaustive_within_bound=True,
        tlc=dict(histories=hist_info, generators=gen_info, trace_validation=adj),
        action_witnesses=dict(Register=cnt["register"], Check=cnt["check"],
                              ChooseField=len(leaves)),
        counters={k: v for k, v in cnt.items()},
        drift=dict(histories=cnt["drifted"], builtin_strings=len(failing),
                   builtin_warnings=sum(1 for _k, w in leaf_obs if w), **drift_extra),
        drift_events_adjudicated=len(events),
        drift_events_total=cnt["drifted"] + len(failing),
        builtin_root_causes={"|".join(k): len(v) for k, v in gen_groups.items()},
    )
    return rep.finish(coverage, time.time() - t0,
                      assumptions=["A1 bounded exhaustiveness: histories up to the stated length over "
                                   "the stated names/checkers/values; format names other than 'uuid' "
                                   "are introduced in a fixed order (interchangeable in the model, "
                                   "fresh concrete names per behaviour)",
                                   "A3 date-time/uuid acceptance for the generated grammars only: "
                                   "boundary sets per field, second 60 only at real leap seconds, "
                                   "instants representable in UTC within years 0000..9999",
                                   "abstract checkers are pure total predicates on strings"])


def _hist_msg(st, observed, l, o):
    e = st["hist"][l["step"] - 1]
    if l["registered"]:
        force = "checker in force: %s" % l["checker"]
    else:
        force = "no checker registered"
    what = {"verdict": "wrong verdict", "warning-missing": "no warning for an unregistered format",
            "warning-spurious": "warning although a checker is registered"}[l["clause"]]
    return ("%s at step %d, %s(format=%s)(%s) -> %s%s (%s); history: %s"
            % (what, l["step"], o["cls"], e["n"], _vshow(e["v"]), o["kind"],
               " +warning" if o["warned"] else "", force, _show(st, observed)))[:600]


def _gen_vacuity(leaves):
    texts = {l["text"] for l in leaves}
    fmts = {l["fmt"] for l in leaves}
    if fmts != {"date-time", "uuid"}:
        raise MachineryError("vacuity: a built-in generator produced nothing")
    for t in (NIL_UUID, "ffffffff-ffff-ffff-ffff-ffffffffffff", "FFFFFFFF-FFFF-FFFF-FFFF-FFFFFFFFFFFF",
              "1990-12-31T23:59:60Z", "1990-12-31T15:59:60-08:00", "1970-01-01T00:00:00Z"):
        if t not in texts:
            raise MachineryError(f"vacuity: generator never produced {t}")
    seen = defaultdict(set)
    for l in leaves:
        for nm, val in zip(l["names"], l["fields"]):
            seen[(l["fmt"], nm)].add(val)
    nib = set("0123456789abcdefABCDEF")
    if seen[("uuid", "version")] != nib or seen[("uuid", "variant")] != nib:
        raise MachineryError("vacuity: not every version/variant nibble was generated")
    want = {"year": {"0000", "0001", "1970", "9999"}, "day": {"28", "29", "30", "31"},
            "second": {"00", "59", "60"}, "sep": {"T", "t"}, "hour": {"00", "23"},
            "frac": {"", ".1", ".123456789"}, "offset": {"Z", "z", "+23:59", "-23:59"}}
    for nm, vals in want.items():
        if not vals <= seen[("date-time", nm)]:
            raise MachineryError(f"vacuity: date-time field {nm} never took {vals - seen[('date-time', nm)]}")
    if len(seen[("date-time", "month")]) != 12:
        raise MachineryError("vacuity: not every month was generated")
