"""Driving the real library: labelling, parsing, calling, projecting results.

Everything here goes through statham's public API only.  Imported lazily so that the
tree under test ($VERIF_REPO, default /repo) is what gets imported.
"""
import copy
import multiprocessing as mp
import signal
import warnings

from common import use_repo, NPROC
from codec import Model, Anon, NotPassedMarker


def _title_fn():
    from statham.titles import _get_title_from_reference
    return _get_title_from_reference


def label(doc, base="doc.json", pointer=""):
    """Mimic json_ref_dict.materialize(..., context_labeller=title_labeller()) in memory:
    every dict gets "_x_autotitle" (first key) computed by statham's own title function from
    its JSON pointer.  Used where going through files is too slow; C02/C09/C20 use the CLI path.
    """
    fn = _title_fn()

    def esc(seg):
        return seg.replace("~", "~0").replace("/", "~1")

    def rec(node, ptr):
        if isinstance(node, dict):
            out = {"_x_autotitle": fn(base + "#" + (ptr or "/"))}
            for k, v in node.items():
                out[k] = rec(v, ptr + "/" + esc(k))
            return out
        if isinstance(node, list):
            return [rec(v, ptr + "/" + str(i)) for i, v in enumerate(node)]
        return node

    return rec(doc, pointer)


def parse_labelled(schema_json):
    """label + parse_element; returns (kind, element-or-exception-name)."""
    from statham.schema.parser import parse_element
    from statham.schema.exceptions import SchemaParseError, FeatureNotImplementedError
    doc = label(copy.deepcopy(schema_json)) if isinstance(schema_json, dict) else schema_json
    try:
        return "ok", parse_element(doc)
    except FeatureNotImplementedError as exc:
        return "notimpl", exc
    except SchemaParseError as exc:
        return "parseerr", exc
    except Exception as exc:  # noqa
        return "other:" + type(exc).__name__, exc


def call(element, value):
    """Call element on a deep copy of value.  Returns (kind, result|exception)."""
    from statham.schema.exceptions import ValidationError
    v = copy.deepcopy(value)
    try:
        with warnings.catch_warnings():
            warnings.simplefilter("ignore")
            return "ok", element(v)
    except ValidationError as exc:
        return "reject", exc
    except TypeError as exc:
        return "typeerror", exc
    except Exception as exc:  # noqa
        return "other:" + type(exc).__name__, exc


def project(result):
    """Project a real call result onto the ResultValue vocabulary of the specification."""
    from statham.schema.constants import NotPassed
    from statham.schema.elements import Object
    from statham.schema.elements.base import _AnonymousObject
    if isinstance(result, NotPassed):
        return NotPassedMarker()
    if isinstance(result, Object):
        return Model(type(result).__name__, [(k, project(v)) for k, v in result._dict.items()])
    if isinstance(result, _AnonymousObject):
        return Anon([(k, project(v)) for k, v in result.items()])
    if isinstance(result, dict):
        return {k: project(v) for k, v in result.items()}
    if isinstance(result, (list, tuple)):
        return [project(v) for v in result]
    return result


def walk_elements(root):
    """Every Element / object class reachable from root through attributes, properties and
    containers (own generic walk over vars(); does not rely on statham's get_children)."""
    from statham.schema.elements import Element
    from statham.schema.property import _Property
    seen, out, stack = set(), [], [root]
    while stack:
        x = stack.pop()
        if id(x) in seen:
            continue
        if isinstance(x, Element):
            seen.add(id(x))
            out.append(x)
            try:
                attrs = vars(x)
            except TypeError:
                attrs = {}
            for k, v in attrs.items():
                if k.startswith("__") or k in ("default", "const", "enum"):
                    continue
                stack.append(v)
        elif isinstance(x, _Property):
            seen.add(id(x))
            stack.append(x.element)
        elif isinstance(x, dict):
            seen.add(id(x))
            stack.extend(x.values())
        elif isinstance(x, (list, tuple)):
            seen.add(id(x))
            stack.extend(x)
    return out


def default_ids(root):
    """ids of the raw default objects held by the tree (returned as-is by design when invalid)."""
    ids = set()
    for e in walk_elements(root):
        d = getattr(e, "default", None)
        stack = [d]
        while stack:
            y = stack.pop()
            if isinstance(y, (list, dict)):
                ids.add(id(y))
                stack.extend(y.values() if isinstance(y, dict) else y)
    return ids


# ------------------------------------------------------------------ parallel map
def _init():
    signal.signal(signal.SIGINT, signal.SIG_IGN)
    use_repo()


def pmap(fn, items, chunksize=64, nproc=None):
    nproc = nproc or NPROC
    if len(items) < 200 or nproc == 1:
        use_repo()
        return [fn(x) for x in items]
    ctx = mp.get_context("fork")
    with ctx.Pool(nproc, initializer=_init) as pool:
        return pool.map(fn, items, chunksize=chunksize)
