"""Driving the real library: labelling, parsing, calling, projecting results.

Everything here goes through statham's public API only.  Imported lazily so that the
tree under test ($VERIF_REPO, default /repo) is what gets imported.
"""
import copy
import multiprocessing as mp
import os
import signal
import warnings

from common import use_repo, NPROC
from codec import Model, Anon, NotPassedMarker


def _title_fn():
    from statham.titles import _get_title_from_reference
    return _get_title_from_reference


def label(doc, base="doc.json", pointer=""):
    """Mimic json_ref_dict.materialize(..., context_labeller=title_labeller()) in memory:
    every dict gets "_x_autotitle" (first key) computed by statham's own title function from
    its JSON pointer.  Used where going through files is too slow; C02/C09/C20 use the CLI path.
    """
    fn = _title_fn()

    def esc(seg):
        return seg.replace("~", "~0").replace("/", "~1")

    def rec(node, ptr):
        if isinstance(node, dict):
            out = {"_x_autotitle": fn(base + "#" + (ptr or "/"))}
            for k, v in node.items():
                out[k] = rec(v, ptr + "/" + esc(k))
            return out
        if isinstance(node, list):
            return [rec(v, ptr + "/" + str(i)) for i, v in enumerate(node)]
        return node

    return rec(doc, pointer)


def parse_labelled(schema_json):
    """label + parse_element; returns (kind, element-or-exception-name)."""
    from statham.schema.parser import parse_element
    from statham.schema.exceptions import SchemaParseError, FeatureNotImplementedError
    doc = label(copy.deepcopy(schema_json)) if isinstance(schema_json, dict) else schema_json
    try:
        return "ok", parse_element(doc)
    except FeatureNotImplementedError as exc:
        return "notimpl", exc
    except SchemaParseError as exc:
        return "parseerr", exc
    except Exception as exc:  # noqa
        return "other:" + type(exc).__name__, exc


def call(element, value):
    """Call element on a deep copy of value.  Returns (kind, result|exception)."""
    from statham.schema.exceptions import ValidationError
    v = copy.deepcopy(value)
    try:
        with warnings.catch_warnings():
            warnings.simplefilter("ignore")
            return "ok", element(v)
    except ValidationError as exc:
        return "reject", exc
    except TypeError as exc:
        return "typeerror", exc
    except Exception as exc:  # noqa
        return "other:" + type(exc).__name__, exc


def call_raw(element, value):
    """Like call() but passes the caller's object itself (to observe whether it is modified)."""
    from statham.schema.exceptions import ValidationError
    try:
        with warnings.catch_warnings():
            warnings.simplefilter("ignore")
            return "ok", element(value)
    except ValidationError as exc:
        return "reject", exc
    except TypeError as exc:
        return "typeerror", exc
    except Exception as exc:  # noqa
        return "other:" + type(exc).__name__, exc


def project(result):
    """Project a real call result onto the ResultValue vocabulary of the specification."""
    from statham.schema.constants import NotPassed
    from statham.schema.elements import Object
    from statham.schema.elements.base import _AnonymousObject
    if isinstance(result, NotPassed):
        return NotPassedMarker()
    if isinstance(result, Object):
        members = [(k, project(v)) for k, v in result._dict.items()]
        # declared properties must be readable as attributes, every member by item access
        for k, v in result._dict.items():
            try:
                if result[k] is not v or (k in type(result).properties and getattr(result, k) is not v):
                    members.append(("__access_mismatch__:" + k, True))
            except Exception:  # noqa
                members.append(("__access_error__:" + k, True))
        return Model(type(result).__name__, members)
    if isinstance(result, _AnonymousObject):
        members = [(k, project(v)) for k, v in result.items()]
        for k, v in result.items():
            try:
                if getattr(result, k) is not v:
                    members.append(("__access_mismatch__:" + k, True))
            except Exception:  # noqa
                members.append(("__access_error__:" + k, True))
        return Anon(members)
    if isinstance(result, dict):
        return {k: project(v) for k, v in result.items()}
    if isinstance(result, (list, tuple)):
        return [project(v) for v in result]
    return result


def walk_elements(root):
    """Every Element / object class reachable from root through attributes, properties and
    containers (own generic walk over vars(); does not rely on statham's get_children)."""
    from statham.schema.elements import Element
    from statham.schema.property import _Property
    seen, out, stack = set(), [], [root]
    while stack:
        x = stack.pop()
        if id(x) in seen:
            continue
        if isinstance(x, Element):
            seen.add(id(x))
            out.append(x)
            try:
                attrs = vars(x)
            except TypeError:
                attrs = {}
            for k, v in attrs.items():
                if k.startswith("__") or k in ("default", "const", "enum"):
                    continue
                stack.append(v)
        elif isinstance(x, _Property):
            seen.add(id(x))
            stack.append(x.element)
        elif isinstance(x, dict):
            seen.add(id(x))
            stack.extend(x.values())
        elif isinstance(x, (list, tuple)):
            seen.add(id(x))
            stack.extend(x)
    return out


def default_ids(root):
    """ids of the raw default objects held by the tree (returned as-is by design when invalid)."""
    ids = set()
    for e in walk_elements(root):
        d = getattr(e, "default", None)
        stack = [d]
        while stack:
            y = stack.pop()
            if isinstance(y, (list, dict)):
                ids.add(id(y))
                stack.extend(y.values() if isinstance(y, dict) else y)
    return ids


# ------------------------------------------------------------------ element projection
INT_KWS = ("minItems", "maxItems", "minLength", "maxLength", "minProperties", "maxProperties")
NUM_KWS = ("minimum", "maximum", "exclusiveMinimum", "exclusiveMaximum", "multipleOf")
STR_KWS = ("format", "pattern", "description")
CLASS_ATTRS = ("default", "const", "enum", "required", "description", "minProperties",
               "maxProperties", "patternProperties", "additionalProperties", "propertyNames",
               "dependencies")


def project_element(e, depth=0):
    """Real element tree -> the element record of spec/Elements.tla (as ToJson prints it):
    {"cls", "kw", "elems", "name"}.  Reads attributes only (vars / getattr), never calls the
    serializers under test."""
    from statham.schema.elements import Element, Not, CompositionElement
    from statham.schema.elements.meta import ObjectMeta
    from statham.schema.constants import NotPassed
    from statham.schema.property import _Property
    import codec
    if depth > 14:
        raise ValueError("element tree too deep (cyclic?)")
    if not isinstance(e, Element):
        raise ValueError(f"not an element: {type(e).__name__}")
    rec = {"cls": "", "kw": {}, "elems": [], "name": ""}
    if isinstance(e, ObjectMeta):
        rec["cls"], rec["name"] = "Object", e.__name__
        attrs = {k: getattr(e, k, NotPassed()) for k in CLASS_ATTRS}
        attrs["_properties"] = getattr(e, "properties", NotPassed())
    else:
        rec["cls"] = type(e).__name__
        attrs = dict(vars(e))
    kw = rec["kw"]
    sub = lambda x: project_element(x, depth + 1)
    for k, v in attrs.items():
        if k.startswith("_") and k != "_properties":
            continue
        if k == "elements":
            rec["elems"] = [sub(x) for x in v]
            continue
        if k == "element":
            rec["elems"] = [sub(v)]
            continue
        if isinstance(v, NotPassed):
            continue
        if k in ("default", "const"):
            kw[k] = codec.py_to_tagged(v)
        elif k == "enum":
            kw[k] = [codec.py_to_tagged(x) for x in v]
        elif k in NUM_KWS:
            if isinstance(v, bool) or not isinstance(v, (int, float)):
                raise ValueError(f"{k} is not a number")
            kw[k] = codec.py_to_tagged(v)
        elif k in INT_KWS:
            if isinstance(v, bool) or not isinstance(v, int):
                raise ValueError(f"{k} is not an int")
            kw[k] = v
        elif k in STR_KWS:
            if not isinstance(v, str):
                raise ValueError(f"{k} is not a string")
            codec.tla_str(v)
            kw[k] = v
        elif k == "uniqueItems":
            if v is True:
                kw[k] = True
            elif v is not False:
                raise ValueError("uniqueItems not a bool")
        elif k == "items":
            if isinstance(v, list):
                kw["itemsT"] = [sub(x) for x in v]
            else:
                kw["items"] = sub(v)
        elif k in ("additionalItems", "additionalProperties"):
            if v is True:
                pass
            elif v is False:
                kw[k + "B"] = False
            else:
                kw[k] = sub(v)
        elif k in ("contains", "propertyNames"):
            kw[k] = sub(v)
        elif k == "patternProperties":
            kw[k] = [[pk, sub(pv)] for pk, pv in v.items()]
        elif k == "dependencies":
            dl = [[dk, list(dv)] for dk, dv in v.items() if isinstance(dv, list)]
            ds = [[dk, sub(dv)] for dk, dv in v.items() if not isinstance(dv, list)]
            if dl:
                kw["depsL"] = dl
            if ds:
                kw["depsS"] = ds
            if not dl and not ds:
                kw["depsL"] = []
        elif k == "required":
            kw[k] = list(v)
        elif k == "_properties":
            kw["properties"] = [
                {"attr": pk, "source": pv.source if pv.source is not None else pk,
                 "required": bool(pv.required), "elem": sub(pv.element)}
                for pk, pv in v.items()]
        else:
            kw["?" + k] = repr(v)[:60]
    return rec


def norm_elem(rec):
    """Hashable normal form of an element record (class names ignored; kw order ignored)."""
    import codec

    def val(k, v):
        if k in ("default", "const") or k in NUM_KWS:
            return codec.norm_tagged(v)
        if k == "enum":
            return tuple(codec.norm_tagged(x) for x in v)
        if k in ("items", "additionalItems", "additionalProperties", "contains", "propertyNames"):
            return norm_elem(v)
        if k == "itemsT":
            return tuple(norm_elem(x) for x in v)
        if k in ("patternProperties", "depsS"):
            return tuple(sorted((p[0], norm_elem(p[1])) for p in v))
        if k == "depsL":
            return tuple(sorted((p[0], tuple(p[1])) for p in v))
        if k == "properties":
            return tuple((p["attr"], p["source"], bool(p["required"]), norm_elem(p["elem"])) for p in v)
        if isinstance(v, list):
            return tuple(v)
        return v
    kw = rec["kw"] if isinstance(rec["kw"], dict) else {}
    return (rec["cls"], tuple(sorted((k, val(k, v)) for k, v in kw.items())),
            tuple(norm_elem(x) for x in rec["elems"]))


def kwargs_of(kw, share=None, _depth=0):
    """kw record (Elements.tla spelling) -> constructor keyword arguments (real objects)."""
    import codec
    from statham.schema.property import Property
    sub = lambda r: build_element(r, share, _depth + 1)
    kwargs = {}
    deps = {}
    for k, v in kw.items():
        if k in ("default", "const"):
            kwargs[k] = codec.val_to_py(v)
        elif k == "enum":
            kwargs[k] = [codec.val_to_py(x) for x in v]
        elif k in NUM_KWS:
            kwargs[k] = codec.val_to_py(v)
        elif k in ("items", "contains", "propertyNames", "additionalItems", "additionalProperties"):
            kwargs[k] = sub(v)
        elif k == "itemsT":
            kwargs["items"] = [sub(x) for x in v]
        elif k in ("additionalItemsB", "additionalPropertiesB"):
            kwargs[k[:-1]] = bool(v)
        elif k == "patternProperties":
            kwargs[k] = {p[0]: sub(p[1]) for p in v}
        elif k == "depsL":
            for p in v:
                deps[p[0]] = list(p[1])
        elif k == "depsS":
            for p in v:
                deps[p[0]] = sub(p[1])
        elif k == "properties":
            kwargs[k] = {p["attr"]: Property(sub(p["elem"]), required=bool(p["required"]),
                                             source=(p["source"] if p["source"] != p["attr"] else None))
                         for p in v}
        elif k == "required":
            kwargs[k] = list(v)
        else:
            kwargs[k] = v
    if deps or "depsL" in kw or "depsS" in kw:
        kwargs["dependencies"] = deps
    return kwargs


def build_element(rec, share=None, _depth=0):
    """Element record (spec/Elements.tla shape, ToJson/dict form) -> real DSL objects through
    the public constructors.  share: optional dict memo; when given, equal sub-records are
    realised by ONE shared instance (the same element object at several positions)."""
    import json as _json
    from statham.schema import elements as E
    key = None
    if share is not None:
        key = _json.dumps(rec, sort_keys=True, default=str)
        if key in share:
            return share[key]
    sub = lambda r: build_element(r, share, _depth + 1)
    kw = rec["kw"] if isinstance(rec["kw"], dict) else {}
    kwargs = kwargs_of(kw, share, _depth)
    cls = rec["cls"]
    if cls in ("AnyOf", "OneOf", "AllOf"):
        out = getattr(E, cls)(*[sub(x) for x in rec["elems"]], **kwargs)
    elif cls == "Not":
        out = E.Not(sub(rec["elems"][0]), **kwargs)
    elif cls == "Nothing":
        out = E.Nothing()
    elif cls == "Object":
        props = kwargs.pop("properties", {})
        name = rec.get("name") or ""
        if not name:
            counter = share.setdefault("#names", [0]) if share is not None else [0]
            name = "K%d" % counter[0]
            counter[0] += 1
        out = E.Object.inline(name, properties=props, **kwargs)
    elif cls == "Array":
        items = kwargs.pop("items")
        out = E.Array(items, **kwargs)
    else:
        out = getattr(E, cls)(**kwargs)
    if share is not None:
        share[key] = out
    return out


def deep_snapshot(roots):
    """Structural fingerprint of vars() of every element / property reachable from roots (and of
    the module-level UNBOUND_PROPERTY): identities of objects, values of literals."""
    from statham.schema.elements import Element
    from statham.schema.elements.base import UNBOUND_PROPERTY
    from statham.schema.elements.meta import ObjectMeta
    from statham.schema.property import _Property

    def fp(v, d=0):
        if isinstance(v, _Property):
            return ("P", id(v), v.name, v.source, v.required, id(v.parent), id(v.element))
        if isinstance(v, Element):
            return ("E", id(v))
        if isinstance(v, dict) and d < 6:
            return ("D", id(v), tuple((k, fp(x, d + 1)) for k, x in v.items()))
        if isinstance(v, (list, tuple)) and d < 6:
            return ("L", id(v), tuple(fp(x, d + 1) for x in v))
        return ("V", repr(v)[:80])

    snap = []
    seen = set()
    for root in list(roots) + [UNBOUND_PROPERTY.element, UNBOUND_PROPERTY.parent]:
        for e in walk_elements(root):
            if id(e) in seen:
                continue
            seen.add(id(e))
            # the configuration: public attributes and the declared-property table.  Other
            # private attributes (a memo a maintainer might add) are not part of what C08 calls
            # the element tree; what they may do to later behaviour is observed as behaviour.
            attrs = {k: v for k, v in vars(e).items()
                     if not k.startswith("_") or k == "_properties"}
            snap.append((id(e), tuple(sorted((k, fp(v)) for k, v in attrs.items()))))
    snap.append(fp(UNBOUND_PROPERTY))
    return snap


# ------------------------------------------------------------------ the real CLI path, in memory
_MEM = {}
_MEM_COUNT = [0]
_MEM_REGISTERED = [False]


def _mem_loader(base_uri):
    return _MEM.get(base_uri, ...)


def materialized(docs, root="doc.json", pointer="/"):
    """json_ref_dict.materialize of a set of documents served from memory (same call the CLI
    makes: RefDict.from_uri + title_labeller).  docs: {file name: json}.  Returns (schema, uri, cleanup)."""
    import copy as _copy
    from json_ref_dict import loader as jl, materialize, RefDict
    from json_ref_dict.ref_pointer import resolve_uri
    from statham.titles import title_labeller
    if not _MEM_REGISTERED[0]:
        jl.get_document.register(_mem_loader)
        _MEM_REGISTERED[0] = True
    _MEM_COUNT[0] += 1
    base = f"mem{os.getpid()}x{_MEM_COUNT[0]}/"
    for name, doc in docs.items():
        _MEM[base + name] = _copy.deepcopy(doc)
    uri = base + root + "#" + pointer

    def cleanup():
        for name in docs:
            _MEM.pop(base + name, None)
        resolve_uri.cache_clear()
    return uri, cleanup


# ------------------------------------------------------------------ parallel map
def _init():
    signal.signal(signal.SIGINT, signal.SIG_IGN)
    use_repo()


def pmap(fn, items, chunksize=64, nproc=None):
    nproc = nproc or NPROC
    if len(items) < 200 or nproc == 1:
        use_repo()
        return [fn(x) for x in items]
    ctx = mp.get_context("fork")
    with ctx.Pool(nproc, initializer=_init) as pool:
        return pool.map(fn, items, chunksize=chunksize)
