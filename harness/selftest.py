"""./check selftest -- demonstrates that the specification is bound to the code:
  1. a recorded observation with one corrupted field is rejected by trace validation, the
     uncorrupted ones are accepted;
  2. a corrupted PREDICTION makes the replay report drift, and the (correct) real observation is
     then accepted by the reference predicate: drift is not a violation;
  3. a trace that TLC cannot consume (malformed event) is a machinery failure, not a verdict;
  4. flipping a model switch back (DeepBool) makes TLC re-find the design-level counter-example
     that the corresponding repair removed.
Not a property check; writes evidence/selftest.json."""
import json
import os
import re
import shutil
import tempfile
import time

import common
from common import run_tlc, MachineryError
import codec
import drive
import docfamily as df
from docfamily import tlajson_to_tla


def run():
    t0 = time.time()
    common.use_repo()
    results = {}
    tagged_values, pyvals = df.values()
    doc = {"sch": True, "type": "integer", "minimum": {"k": "num", "n": 1, "d": 1, "f": False}}
    sj = codec.schema_to_json(doc)
    kind, el = drive.parse_labelled(sj)
    assert kind == "ok"
    kinds = [drive.call(el, v)[0] for v in pyvals]
    # 1. corrupted observation
    events = []
    for i in range(6):
        k = kinds[i]
        if i == 3:
            k = "ok" if k != "ok" else "reject"          # the corrupted field
        events.append((i + 1, '[id |-> %d, p |-> "C01", doc |-> %s, v |-> %s, kind |-> %s]'
                       % (i + 1, tlajson_to_tla(doc), tlajson_to_tla(tagged_values[i]), codec.tla_str(k))))
    rejected, _ = df.adjudicate(events, parallel=1)
    results["corrupted_observation_rejected"] = sorted(rejected) == [4]
    # 2. corrupted prediction
    pred_kind = kinds[4]
    wrong = {"kind": "ok" if pred_kind != "ok" else "reject", "out": {"k": "np"}}
    real = {"kind": pred_kind, "out": None}
    drifted = not df.same_call(real, wrong)
    ev = [(1, '[id |-> 1, p |-> "C01", doc |-> %s, v |-> %s, kind |-> %s]'
           % (tlajson_to_tla(doc), tlajson_to_tla(tagged_values[4]), codec.tla_str(pred_kind)))]
    rej2, _ = df.adjudicate(ev, parallel=1)
    results["corrupted_prediction_is_drift_not_violation"] = drifted and not rej2
    # 3. malformed trace
    try:
        df.adjudicate([(1, '[id |-> 1, p |-> "C01", doc |-> 5, v |-> 5, kind |-> "ok"]')], parallel=1)
        results["malformed_trace_is_machinery_failure"] = False
    except MachineryError:
        results["malformed_trace_is_machinery_failure"] = True
    # 4. switch flipped back: TLC re-finds the design-level counter-example
    tmp = tempfile.mkdtemp(prefix="verif-selftest-")
    try:
        for fn in os.listdir(common.SPEC):
            if fn.endswith(".tla"):
                shutil.copy(os.path.join(common.SPEC, fn), tmp)
        p = os.path.join(tmp, "Elements.tla")
        text = open(p).read()
        text2 = re.sub(r"DeepBool\s*==\s*TRUE", "DeepBool == FALSE", text)
        assert text2 != text
        open(p, "w").write(text2)
        old = common.SPEC
        common.SPEC = tmp
        try:
            res = run_tlc("MC_Doc", df._cfg(dict(MaxSize=1, MaxDepth=0, Rich="FALSE"), False), coverage=False,
                          workers=4)
        finally:
            common.SPEC = old
        flagged = [l for l in res.lines if l.get("m01")]
        results["switch_back_refinds_counterexample"] = bool(res.ok and flagged)
        results["switch_back_example"] = codec.schema_to_json(flagged[0]["doc"]) if flagged else None
    finally:
        shutil.rmtree(tmp, ignore_errors=True)
    ok = all(v for k, v in results.items() if k != "switch_back_example")
    path = os.path.join(common.VERIF, "evidence", "selftest.json")
    json.dump(dict(results=results, wall_s=round(time.time() - t0, 1), ok=ok), open(path, "w"), indent=1)
    for k, v in results.items():
        print(f"selftest {k}: {v}")
    print("SELFTEST", "PASS" if ok else "FAIL")
    return 0 if ok else 2
