"""Access monitor and thread gate for the thread family (C14).  No edits to the repository:
everything is installed from the harness process.

Monitor
    * `__getattribute__` / `__setattr__` / `__delattr__` of `Element` (all element classes),
      `ObjectMeta` (model classes), `_Property` and `_FormatString` are wrapped;
    * `_PropertyDict` methods are wrapped; plain list / dict / set values held by the watched
      objects, shared payload containers and module-level containers of `statham.*` are replaced
      by traced subclasses (`traced()`), so that reading or mutating them is an access too;
    * writes that bypass `__setattr__` (``vars(x)[...] = ...``, in-place growth of a list that is
      only reachable through ``vars``) are found by a cheap signature of ``vars(x)`` taken at
      every access to `x` and reported as synthetic writes (kind "W").
    Only accesses to WATCHED objects (those that existed before the call) by ENROLLED threads are
    recorded; everything else passes straight through.

Gate
    An enrolled thread blocks inside the monitor BEFORE each of its accesses (a gate point) until
    the scheduler lets it proceed, so exactly one thread runs at a time and a schedule (a sequence
    of (thread, number-of-gate-points)) is reproduced deterministically on real threads.
"""
import sys
import threading
import types

from common import MachineryError

_BIGINT = 1 << 32


class Monitor:
    def __init__(self):
        self.active = False
        self.installed = False
        self.tls = threading.local()
        self.labels = {}        # id(obj) -> label
        self.keep = []          # strong references (ids stay valid)
        self.sig = {}           # id(obj) -> cheap signature of vars(obj)
        self.snap = {}          # id(obj) -> {attr: fingerprint}
        self.gate = None
        self.diff = True        # look for writes that bypass __setattr__
        self.log_reads = True
        self.trace_calls = None  # directory prefix: library function entries are gate points
        self.globals_saved = []
        self.NotPassed = None
        self.seq = None

    # ------------------------------------------------------------------ registration
    def reset(self):
        self.labels.clear()
        self.keep.clear()
        self.sig.clear()
        self.snap.clear()
        self.gate = None

    def watch(self, label, obj):
        if id(obj) in self.labels:
            return
        self.labels[id(obj)] = label
        self.keep.append(obj)

    def prime(self):
        """Take the initial signature of every watched object (before any call)."""
        for obj in self.keep:
            d = _vars_of(obj)
            if d is not None:
                self.sig[id(obj)] = _cheap_sig(d)
                self.snap[id(obj)] = self._snap(d)

    # ------------------------------------------------------------------ enrolment
    def enrol(self, tid, log=None):
        tl = self.tls
        tl.tid = tid
        tl.log = [] if log is None else log
        tl.n = 0
        tl.busy = False
        if self.trace_calls:
            sys.settrace(self._tracer)
        return tl.log

    def leave(self):
        if self.trace_calls:
            sys.settrace(None)
        self.tls.busy = True

    def _tracer(self, frame, event, _arg):
        if event == "call" and frame.f_code.co_filename.startswith(self.trace_calls):
            tl = self.tls
            if not getattr(tl, "busy", True) and self.active:
                tl.busy = True
                try:
                    if self.gate is not None:
                        self.gate.point(tl.tid)
                    tl.log.append(("c", "fn", frame.f_code.co_name))
                finally:
                    tl.busy = False
        return None

    # ------------------------------------------------------------------ fingerprints
    def fp(self, v, depth=3):
        if v is None or v is True or v is False:
            return repr(v)
        t = type(v)
        if t is str:
            return repr(v)
        if t is int:
            if v >= _BIGINT:
                lab = self.labels.get(v)
                return "id@" + lab if lab is not None else "id?"
            return repr(v)
        if t is float:
            return repr(v)
        lab = self.labels.get(id(v))
        if lab is not None:
            return "@" + lab
        if t is self.NotPassed:
            return "NP"
        if isinstance(v, (list, tuple)):
            if depth <= 0:
                return "[..%d]" % list.__len__(v) if isinstance(v, list) else "(..)"
            it = list.copy(v) if isinstance(v, list) else tuple(v)
            return "[" + ",".join(self.fp(x, depth - 1) for x in it) + "]"
        if isinstance(v, dict):
            if depth <= 0:
                return "{..%d}" % dict.__len__(v)
            return "{" + ",".join("%s:%s" % (self.fp(k, 0), self.fp(x, depth - 1))
                                  for k, x in list(dict.items(v))) + "}"
        if isinstance(v, (set, frozenset)):
            it = set.copy(v) if isinstance(v, set) else v
            return "{" + ",".join(sorted(self.fp(x, depth - 1) for x in it)) + "}"
        if t is types.MethodType:
            return "m:" + getattr(v.__func__, "__name__", "?")
        if t is types.FunctionType or t is types.BuiltinFunctionType:
            return "f:" + getattr(v, "__name__", "?")
        if isinstance(v, type):
            return "cls:" + type.__getattribute__(v, "__name__")
        params = None
        try:
            params = object.__getattribute__(v, "__dict__").get("params")
        except Exception:
            pass
        if isinstance(params, dict) and depth > 0:     # a validator: its configuration matters
            return "new:%s%s" % (t.__name__, self.fp(params, depth - 1))
        return "new:" + t.__name__

    def content_fp(self, c):
        # snapshots are taken by ONE C-level call (atomic under the GIL): other threads may be
        # mutating the container while the monitor looks at it
        if isinstance(c, list):
            return "[" + ",".join(self.fp(x, 2) for x in list.copy(c)) + "]"
        if isinstance(c, dict):
            return "{" + ",".join("%s:%s" % (self.fp(k, 0), self.fp(v, 2))
                                  for k, v in list(dict.items(c))) + "}"
        return "{" + ",".join(sorted(self.fp(x, 2) for x in set.copy(c))) + "}"

    def _snap(self, d):
        return {k: self.fp(v, 2) for k, v in list(d.items()) if _is_state_attr(k, v)}

    # ------------------------------------------------------------------ the hooks' common part
    def before(self, lab, obj):
        """Called (busy) before every access to a watched object: gate point, then look for
        writes to vars(obj) that did not go through __setattr__."""
        tl = self.tls
        if self.gate is not None:
            self.gate.point(tl.tid)
        tl.n += 1
        if self.diff and obj is not None:
            self.resync(lab, obj, tl, "W")

    def resync(self, lab, obj, tl, kind):
        d = _vars_of(obj)
        if d is None:
            return
        sig = _cheap_sig(d)
        if self.sig.get(id(obj)) == sig:
            return
        self.sig[id(obj)] = sig
        old = self.snap.get(id(obj), {})
        new = self._snap(d)
        self.snap[id(obj)] = new
        changed = False
        for k in new:
            if old.get(k) != new[k]:
                changed = True
                if kind:
                    tl.log.append((kind, lab + "." + k, new[k], old.get(k, "<absent>")))
        for k in old:
            if k not in new:
                changed = True
                if kind:
                    tl.log.append((kind, lab + "." + k, "<absent>", old[k]))
        if changed and kind:
            tl.log.append((kind, lab + ".__dict__", _agg(new), _agg(old)))

    def read_event(self, lab, obj, name, val):
        if name == "__dict__":
            d = _vars_of(obj)
            return ("r", lab + ".__dict__", _agg(self._snap(d)) if d is not None else "?")
        return ("r", lab + "." + name, self.fp(val, 2))

    def after_write(self, lab, obj, name):
        """after the primary event of a __setattr__ gate point: what else changed in vars(obj)"""
        tl = self.tls
        d = _vars_of(obj)
        if d is not None and self.diff:
            oldsnap = self.snap.get(id(obj), {})
            newsnap = self._snap(d)
            self.sig[id(obj)] = _cheap_sig(d)
            self.snap[id(obj)] = newsnap
            for k in newsnap:
                if k != name and oldsnap.get(k) != newsnap[k]:
                    tl.log.append(("W", lab + "." + k, newsnap[k], oldsnap.get(k, "<absent>")))
            if _agg(oldsnap) != _agg(newsnap):
                tl.log.append(("W", lab + ".__dict__", _agg(newsnap), _agg(oldsnap)))

    # ------------------------------------------------------------------ installation
    def install(self, repo_dir=None):
        if self.installed:
            return
        from statham.schema.constants import NotPassed
        from statham.schema.elements.base import Element
        from statham.schema.elements.meta import ObjectMeta
        from statham.schema.property import _Property, _PropertyDict
        from statham.schema.validation.format import _FormatString
        self.NotPassed = NotPassed
        for cls, base in ((Element, object), (ObjectMeta, type), (_Property, object),
                          (_FormatString, object)):
            setattr(cls, "__getattribute__", _mk_get(self, base.__getattribute__))
            setattr(cls, "__setattr__", _mk_set(self, base.__setattr__, base.__getattribute__))
            setattr(cls, "__delattr__", _mk_del(self, base.__delattr__, base.__getattribute__))
        for name in _DICT_READS:
            setattr(_PropertyDict, name, _wrap_container(self, getattr(_PropertyDict, name), False))
        for name in _DICT_WRITES:
            setattr(_PropertyDict, name, _wrap_container(self, getattr(_PropertyDict, name), True))
        self.TList = _traced_class(self, list, _LIST_READS, _LIST_WRITES)
        self.TDict = _traced_class(self, dict, _DICT_READS, _DICT_WRITES)
        self.TSet = _traced_class(self, set, _SET_READS, _SET_WRITES)
        self.installed = True

    def traced(self, c):
        """A traced equal copy of a plain list / dict / set (other values are returned as is)."""
        t = type(c)
        if t is list:
            return self.TList(c)
        if t is dict:
            return self.TDict(c)
        if t is set:
            return self.TSet(c)
        return c

    def wrap_module_globals(self):
        """Replace the plain module-level containers of statham.* by traced copies (restored by
        unwrap_module_globals) and watch them."""
        done = {}
        for name, mod in sorted(sys.modules.items()):
            if not name.startswith("statham.") or name.endswith("__main__") or mod is None:
                continue
            for k, v in list(vars(mod).items()):
                if k.startswith("__") or type(v) not in (list, dict, set):
                    continue
                if id(v) not in done:
                    done[id(v)] = (v, self.traced(v), "g:%s.%s" % (name.replace("statham.", ""), k))
                orig, new, lab = done[id(v)]
                setattr(mod, k, new)
                self.globals_saved.append((mod, k, orig))
        return [(lab, new) for _o, new, lab in done.values()]

    def unwrap_module_globals(self):
        for mod, k, orig in self.globals_saved:
            setattr(mod, k, orig)
        self.globals_saved = []


MON = Monitor()


def _vars_of(obj):
    try:
        if isinstance(obj, type):
            return type.__getattribute__(obj, "__dict__")
        return object.__getattribute__(obj, "__dict__")
    except AttributeError:
        return None


def _is_state_attr(k, v):
    if k.startswith("__"):
        return False
    t = type(v)
    return not (t is types.FunctionType or t is property or t is staticmethod or t is classmethod)


def _cheap_sig(d):
    return tuple([(k, id(v), len(v) if type(v) in (list, dict, set) else 0)
                  for k, v in list(d.items()) if k[:2] != "__"])


def _agg(snap):
    return "|".join("%s=%s" % kv for kv in sorted(snap.items()))


def _mk_get(mon, base_get):
    def __getattribute__(self, name):
        if not mon.active:
            return base_get(self, name)
        tl = mon.tls
        if getattr(tl, "busy", True):
            return base_get(self, name)
        lab = mon.labels.get(id(self))
        if lab is None:
            return base_get(self, name)
        # the event is logged AT the gate point (a slot is reserved and filled in afterwards):
        # reading a computed attribute (validators, __properties__) runs nested accesses, and the
        # position in the log must be the position in the sequence of gate points
        slot = -1
        tl.busy = True
        try:
            mon.before(lab, self)
            if mon.log_reads:
                slot = len(tl.log)
                tl.log.append(("r", lab + "." + name, "<raised>"))
        finally:
            tl.busy = False
        try:
            val = base_get(self, name)
        except AttributeError:
            if slot >= 0:
                tl.log[slot] = ("r", lab + "." + name, "<absent>")
            raise
        if slot >= 0:
            tl.busy = True
            try:
                tl.log[slot] = mon.read_event(lab, self, name, val)
            finally:
                tl.busy = False
        return val
    return __getattribute__


def _mk_set(mon, base_set, base_get):
    def __setattr__(self, name, value):
        if not mon.active:
            return base_set(self, name, value)
        tl = mon.tls
        if getattr(tl, "busy", True):
            return base_set(self, name, value)
        lab = mon.labels.get(id(self))
        if lab is None:
            return base_set(self, name, value)
        tl.busy = True
        try:
            mon.before(lab, self)
            d = _vars_of(self)
            old = mon.fp(d[name], 2) if d is not None and name in d else "<absent>"
            slot = len(tl.log)
            tl.log.append(("w", lab + "." + name, "<raised>", old))
        finally:
            tl.busy = False
        base_set(self, name, value)        # may run a property setter (monitored itself)
        tl.busy = True
        try:
            d = _vars_of(self)
            new = d[name] if d is not None and name in d else value
            tl.log[slot] = ("w", lab + "." + name, mon.fp(new, 2), old)
            mon.after_write(lab, self, name)
        finally:
            tl.busy = False
    return __setattr__


def _mk_del(mon, base_del, base_get):
    def __delattr__(self, name):
        if not mon.active:
            return base_del(self, name)
        tl = mon.tls
        if getattr(tl, "busy", True):
            return base_del(self, name)
        lab = mon.labels.get(id(self))
        if lab is None:
            return base_del(self, name)
        tl.busy = True
        try:
            mon.before(lab, self)
            d = _vars_of(self)
            old = mon.fp(d[name], 2) if d is not None and name in d else "<absent>"
            slot = len(tl.log)
            tl.log.append(("w", lab + "." + name, "<raised>", old))
        finally:
            tl.busy = False
        base_del(self, name)
        tl.busy = True
        try:
            tl.log[slot] = ("w", lab + "." + name, "<absent>", old)
            mon.after_write(lab, self, name)
        finally:
            tl.busy = False
    return __delattr__


_LIST_READS = ("__getitem__", "__iter__", "__len__", "__contains__", "__eq__", "__ne__", "index",
               "count", "copy", "__add__", "__mul__", "__rmul__", "__reversed__", "__repr__",
               "__lt__", "__le__", "__gt__", "__ge__")
_LIST_WRITES = ("append", "extend", "insert", "remove", "pop", "clear", "sort", "reverse",
                "__setitem__", "__delitem__", "__iadd__", "__imul__")
_DICT_READS = ("__getitem__", "__iter__", "__len__", "__contains__", "__eq__", "__ne__", "get",
               "keys", "values", "items", "copy", "__repr__", "__or__", "__ror__", "__reversed__")
_DICT_WRITES = ("__setitem__", "__delitem__", "pop", "popitem", "clear", "update", "setdefault",
                "__ior__")
_SET_READS = ("__contains__", "__iter__", "__len__", "__eq__", "__ne__", "__le__", "__lt__", "__ge__",
              "__gt__", "__and__", "__or__", "__sub__", "__xor__", "__rand__", "__ror__", "__rsub__",
              "__rxor__", "copy", "isdisjoint", "issubset", "issuperset", "union", "intersection",
              "difference", "symmetric_difference", "__repr__")
_SET_WRITES = ("add", "discard", "remove", "pop", "clear", "update", "intersection_update",
               "difference_update", "symmetric_difference_update", "__ior__", "__iand__", "__isub__",
               "__ixor__")


def _wrap_container(mon, f, is_write):
    def method(self, *a, **k):
        if not mon.active:
            return f(self, *a, **k)
        tl = mon.tls
        if getattr(tl, "busy", True):
            return f(self, *a, **k)
        lab = mon.labels.get(id(self))
        if lab is None:
            return f(self, *a, **k)
        slot = -1
        tl.busy = True
        try:
            mon.before(lab, None)
            if is_write:
                old = mon.content_fp(self)
                slot = len(tl.log)
                tl.log.append(("w", lab + ".*", old, old))
            elif mon.log_reads:
                slot = len(tl.log)
                tl.log.append(("r", lab + ".*", mon.content_fp(self)))
        finally:
            tl.busy = False
        if not is_write:
            return f(self, *a, **k)
        try:
            return f(self, *a, **k)
        finally:
            tl.busy = True
            try:
                tl.log[slot] = ("w", lab + ".*", mon.content_fp(self), old)
            finally:
                tl.busy = False
    method.__name__ = getattr(f, "__name__", "method")
    return method


def _traced_class(mon, base, reads, writes):
    ns = {"__slots__": ()}
    for name in reads:
        if hasattr(base, name):
            ns[name] = _wrap_container(mon, getattr(base, name), False)
    for name in writes:
        if hasattr(base, name):
            ns[name] = _wrap_container(mon, getattr(base, name), True)
    ns["__hash__"] = None
    ns["__reduce_ex__"] = lambda self, proto: (base, (base(self),))
    return type("Traced" + base.__name__.capitalize(), (base,), ns)


# ---------------------------------------------------------------------- the gate
class Gate:
    """Hand-off between a scheduler and enrolled threads: one thread runs at a time.

    A thread that does not reach its next gate point within STALL seconds is taken to be blocked
    on something a suspended thread holds (a lock added by a perfectly good refactor) or to be in
    a long computation: the scheduler then goes on with the schedule and picks the thread up again
    when it arrives.  That only makes the replay less exact, never unsound: whatever interleaving
    really happened is judged by R_C14 on its outcomes."""

    TIMEOUT = 60.0
    STALL = 0.2

    def __init__(self, tids):
        self.go = {t: threading.Semaphore(0) for t in tids}
        self.arr = {t: threading.Semaphore(0) for t in tids}
        self.done = {t: False for t in tids}
        self.running = {t: False for t in tids}     # released and not yet arrived again
        self.free = False       # when True, points do not block any more
        self.steps = {t: 0 for t in tids}   # gate points executed (passed) per thread
        self.stalls = 0

    # --- thread side
    def point(self, tid):
        if self.free:
            return
        self.arr[tid].release()
        if not self.go[tid].acquire(timeout=self.TIMEOUT):
            if self.free:
                return
            raise MachineryError("gate: thread %s was never released" % tid)

    def finished(self, tid):
        self.done[tid] = True
        self.arr[tid].release()

    # --- scheduler side
    def wait_arrival(self, tid, timeout):
        """True when tid is at a gate point (or over)"""
        if self.arr[tid].acquire(timeout=timeout):
            self.running[tid] = False
            return True
        return False

    def _pass_one(self, tid, patience):
        """let tid pass one gate point; False if it stalled (it stays released: the next call
        just waits for it to arrive)"""
        if not self.running[tid]:
            self.go[tid].release()
            self.running[tid] = True
        if not self.wait_arrival(tid, patience):
            self.stalls += 1
            return False
        self.steps[tid] += 1
        return True

    def step(self, tid, n=1):
        """Let thread `tid` pass n gate points (fewer if it finishes or stalls)."""
        k = 0
        while k < n and not self.done[tid]:
            if not self._pass_one(tid, self.STALL):
                break
            k += 1
        return k

    def finish(self, tid):
        while not self.done[tid]:
            if not self._pass_one(tid, self.STALL):
                return False
        return True

    def finish_all(self, order):
        """complete every thread; stalled threads are revisited until nothing moves for TIMEOUT"""
        import time
        last = time.time()
        while not all(self.done.values()):
            moved = False
            for t in order:
                if self.done[t]:
                    continue
                before = self.steps[t]
                self.finish(t)
                moved = moved or self.steps[t] != before or self.done[t]
            if moved:
                last = time.time()
            elif time.time() - last > self.TIMEOUT:
                raise MachineryError("gate: no thread makes progress (deadlock?)")


def run_gated(mon, calls, schedule, tail_order=None):
    """calls: list of zero-argument callables (one per thread, tid = 1..n).
    schedule: list of (tid, n) -- let tid pass n gate points; ("F", tid) -- run tid to its end.
    Afterwards the remaining threads are completed one at a time (tail_order, default 1..n).
    Returns (results, logs, steps) with results[tid-1] = value returned by the callable."""
    n = len(calls)
    tids = list(range(1, n + 1))
    gate = Gate(tids)
    mon.gate = gate
    results = [None] * n
    logs = [[] for _ in tids]
    errors = []

    def body(tid):
        try:
            mon.enrol(tid, logs[tid - 1])
            try:
                gate.point(tid)          # start line: blocked before doing anything
                results[tid - 1] = calls[tid - 1]()
            finally:
                mon.leave()
        except BaseException as exc:     # the callable reports library exceptions itself
            errors.append((tid, exc))
        finally:
            gate.finished(tid)

    threads = [threading.Thread(target=body, args=(t,), daemon=True) for t in tids]
    try:
        for th in threads:
            th.start()
        for t in tids:
            if not gate.wait_arrival(t, Gate.TIMEOUT):      # everybody at the start line
                raise MachineryError("gate: thread %s never reached the start line" % t)
        for t in tids:
            gate.step(t, 1)              # pass the start line: now blocked before 1st access
            gate.steps[t] = 0
        for item in schedule:
            if item[0] == "F":
                gate.finish(item[1])
            else:
                gate.step(item[0], item[1])
        order = list(tail_order or tids) + [t for t in tids if t not in (tail_order or tids)]
        gate.finish_all(order)
        for th in threads:
            th.join(timeout=Gate.TIMEOUT)
            if th.is_alive():
                raise MachineryError("gated thread did not terminate")
    finally:
        gate.free = True
        for t in tids:
            for _ in range(4):
                gate.go[t].release()
        mon.gate = None
    if errors:
        tid, exc = errors[0]
        if isinstance(exc, MachineryError):
            raise exc
        raise MachineryError("thread %s died outside the call wrapper: %r" % (tid, exc))
    mon.last_stalls = gate.stalls
    return results, logs, dict(gate.steps)
