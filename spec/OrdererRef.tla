----------------------------- MODULE OrdererRef -----------------------------
(***************************************************************************)
(* REFERENCE layer of property C11 (class declaration order).              *)
(*                                                                         *)
(* Written independently of the algorithm in statham/serializers/          *)
(* orderer.py: it talks only about the ELEMENT GRAPH and about an OBSERVED *)
(* OUTCOME (made on the model or on the real code).                        *)
(*                                                                         *)
(* Element graph ("heap"): a sequence of element records, id = index       *)
(*    [cls  |-> "Object" | "Element" | "Array" | "AnyOf" | ... ,           *)
(*     name |-> class name ("" for non-object elements),                   *)
(*     kids |-> << [pos |-> keyword position, to |-> element id], ... >>]  *)
(* `kids` is in insertion order (dict / list order of the real object).    *)
(* The reference ignores `pos` and the order: an element depends on        *)
(* whatever it holds in ANY keyword position.                              *)
(*                                                                         *)
(* Outcome: kind \in {"done", "SchemaParseError", "timeout", "other:.."},  *)
(*          out = sequence of the class names yielded before the end.      *)
(***************************************************************************)
EXTENDS Naturals, Sequences, FiniteSets

Ids(h) == 1..Len(h)
IsClass(h, e) == h[e].cls = "Object"
Succ(h, e) == {h[e].kids[i].to : i \in 1..Len(h[e].kids)}

(* least fixpoint: everything reachable from the set X in zero or more steps *)
RECURSIVE Closure(_, _)
Closure(h, X) ==
  LET T == X \cup UNION {Succ(h, e) : e \in X}
  IN IF T = X THEN X ELSE Closure(h, T)

(* reachable in ONE or more steps: what e (transitively) depends on *)
Below(h, e) == Closure(h, Succ(h, e))

SeqRange(q) == {q[i] : i \in 1..Len(q)}
NoDup(q) == \A i, j \in 1..Len(q) : q[i] = q[j] => i = j

(* object classes reachable from the roots (roots included) *)
ReachClasses(h, roots) == {e \in Closure(h, SeqRange(roots)) : IsClass(h, e)}
NamesOf(h, X) == {h[e].name : e \in X}
ClassNamed(h, nm) == CHOOSE e \in Ids(h) : IsClass(h, e) /\ h[e].name = nm

(* classes depend on each other cyclically: some reachable class reaches itself *)
Cyclic(h, roots) == \E a \in ReachClasses(h, roots) : a \in Below(h, a)

(***************************************************************************)
(* What may have been yielded so far, whatever happens next: only          *)
(* reachable classes, none twice, each one after EVERY class it depends    *)
(* on.  (A class on or above a cycle can therefore never be yielded.)      *)
(***************************************************************************)
PrefixOK(h, roots, out) ==
  LET rc == ReachClasses(h, roots)
  IN /\ NoDup(out)
     /\ SeqRange(out) \subseteq NamesOf(h, rc)
     /\ \A j \in 1..Len(out) :
          \A c \in Below(h, ClassNamed(h, out[j])) :
             IsClass(h, c) => \E i \in 1..(j - 1) : out[i] = h[c].name

(***************************************************************************)
(* R_C11.  ANY valid topological order is accepted.                        *)
(*   acyclic: finished normally, every reachable class exactly once,       *)
(*            dependencies first;                                          *)
(*   cyclic : the schema-parse error and nothing else ("raises ... instead *)
(*            of yielding a partial or wrong order");                      *)
(*   a hang ("timeout") or any other exception is never acceptable.        *)
(***************************************************************************)
R_C11(h, roots, kind, out) ==
  IF Cyclic(h, roots)
  THEN kind = "SchemaParseError" /\ out = <<>>      \* refused INSTEAD of a partial order: nothing came out
  ELSE /\ kind = "done"
       /\ PrefixOK(h, roots, out)
       /\ SeqRange(out) = NamesOf(h, ReachClasses(h, roots))

(* first failing clause, for messages only (the verdict is R_C11) *)
R_C11_clause(h, roots, kind, out) ==
  IF Cyclic(h, roots)
  THEN IF kind # "SchemaParseError" THEN "cycle-not-refused"
       ELSE IF out # <<>> THEN "partial-order-before-refusal" ELSE "ok"
  ELSE IF kind = "SchemaParseError" THEN "acyclic-refused"
       ELSE IF kind # "done" THEN "abnormal-end"
       ELSE IF ~NoDup(out) THEN "duplicate"
       ELSE IF ~(SeqRange(out) \subseteq NamesOf(h, ReachClasses(h, roots))) THEN "unreachable-class"
       ELSE IF SeqRange(out) # NamesOf(h, ReachClasses(h, roots)) THEN "incomplete"
       ELSE IF ~PrefixOK(h, roots, out) THEN "dependency-after-dependent" ELSE "ok"
=============================================================================
