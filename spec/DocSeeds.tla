------------------------------ MODULE DocSeeds ------------------------------
EXTENDS DocBuilder
(***************************************************************************)
(* Interaction-rich seed documents: the same builder actions are also      *)
(* explored from these (INIT InitSeeds, bounded by TLCGet("level")), so    *)
(* that the neighbourhoods where several keywords interact (declared x     *)
(* pattern x additional properties, tuple items x additionalItems x        *)
(* contains, composition with siblings, objects under anyOf) are covered   *)
(* exhaustively one or two insertions deep even in the quick tier.         *)
(***************************************************************************)
LOCAL Sch(r) == [sch |-> TRUE] @@ r
LOCAL Ty(t) == [sch |-> TRUE, type |-> t]
Seeds == {
  Sch([properties |-> << <<"a", Sch([default |-> JInt(1)])>>, <<"class", Ty("string")>> >>,
       patternProperties |-> << <<"^a", Ty("integer")>>, <<"^c", Empty>> >>,
       additionalProperties |-> FalseS]),
  Sch([type |-> "object", title |-> "T",
       properties |-> << <<"a", Ty("integer")>>, <<"b", Sch([default |-> JStr("")])>> >>,
       required |-> <<"a", "b">>, minProperties |-> 0, description |-> " d  x",
       patternProperties |-> << <<"^b", Empty>> >>]),
  Sch([itemsT |-> << Ty("integer"), Ty("string") >>, additionalItems |-> FalseS,
       contains |-> Sch([const |-> JInt(1)])]),
  Sch([type |-> "integer",
       oneOf |-> << Sch([minimum |-> JInt(1)]), Sch([maximum |-> JInt(2)]) >>,
       anyOf |-> << Sch([multipleOf |-> JInt(2)]), Sch([const |-> JInt(3)]) >>])
    @@ ("not" :> Sch([const |-> JInt(4)])),
  Sch([anyOf |-> <<
         Sch([type |-> "object", properties |-> << <<"a", Ty("string")>> >>, required |-> <<"a">>]),
         Sch([type |-> "object",
              properties |-> << <<"a", Ty("integer")>>, <<"b", Empty>> >>]) >>]),
  Sch([types |-> <<"object", "null">>,
       properties |-> << <<"a", Sch([types |-> <<"integer", "number">>])>> >>,
       depsL |-> << <<"a", <<"b">> >>, <<"class", <<"a">> >> >>,
       depsS |-> << <<"b", Sch([required |-> <<"a">>])>> >>]),
  Sch([type |-> "array", items |-> Sch([type |-> "number", default |-> JInt(0)]),
       uniqueItems |-> TRUE, default |-> JArr(<<JInt(1)>>)]),
  Sch([properties |-> << <<"a", Sch([type |-> "object", title |-> "T",
                                     properties |-> << <<"class", Sch([default |-> JBool(FALSE)])>> >>])>> >>,
       propertyNames |-> Sch([pattern |-> "^a"])]),
  (* equally titled, structurally different objects at many positions of one schema
     (class-name de-duplication depends on the order in which positions are parsed) *)
  Sch([anyOf |-> << Sch([type |-> "object", title |-> "Thing", minProperties |-> 1]) >>,
       oneOf |-> << Sch([type |-> "object", title |-> "Thing", minProperties |-> 2]) >>,
       allOf |-> << Sch([type |-> "object", title |-> "Thing"]) >>,
       properties |-> << <<"a", Sch([type |-> "object", title |-> "Thing", maxProperties |-> 2])>> >>,
       patternProperties |-> << <<"^a", Sch([type |-> "object", title |-> "Thing", maxProperties |-> 1])>> >>,
       itemsT |-> << Sch([type |-> "object", title |-> "Thing", minProperties |-> 3]) >>,
       additionalItems |-> Sch([type |-> "object", title |-> "Thing", minProperties |-> 4]),
       contains |-> Sch([type |-> "object", title |-> "Thing", minProperties |-> 5]),
       additionalProperties |-> Sch([type |-> "object", title |-> "Thing", minProperties |-> 6]),
       propertyNames |-> Sch([type |-> "object", title |-> "Thing", minProperties |-> 7]),
       depsS |-> << <<"a", Sch([type |-> "object", title |-> "Thing", minProperties |-> 8])>> >>])
    @@ ("not" :> Sch([type |-> "object", title |-> "Thing", minProperties |-> 9])),
  (* defaults on a composition and on its only member; on a type list; nested *)
  Sch([default |-> JInt(2), allOf |-> << Sch([default |-> JInt(3)]) >>,
       properties |-> << <<"a", Sch([types |-> <<"string", "null">>, default |-> JStr("")])>> >>]),
  (* the empty tuple (annotated bare List), a class default that is invalid one level down *)
  Sch([type |-> "object", title |-> "T",
       properties |-> << <<"a", Sch([type |-> "array", itemsT |-> <<>>, additionalItems |-> FalseS])>>,
                         <<"b", Ty("string")>> >>,
       default |-> JObj(<< <<"b", JInt(1)>> >>)]),
  (* an untyped array first and an array of objects later in one allOf *)
  Sch([type |-> "array", minItems |-> 1,
       allOf |-> << Sch([type |-> "array",
                         items |-> Sch([type |-> "object", properties |-> << <<"a", Ty("integer")>> >>])]) >>]),
  (* numeric types meeting in compositions (which member builds the value?) *)
  Sch([type |-> "number", allOf |-> << Ty("integer") >>,
       anyOf |-> << Ty("integer"), Ty("number") >>]),
  (* overlapping anyOf members that build different results: the FIRST accepting member builds *)
  Sch([anyOf |-> << Ty("integer"), Ty("number") >>]),
  Sch([types |-> <<"number", "integer">>]),
  Sch([anyOf |-> << Sch([type |-> "object", properties |-> << <<"a", Sch([default |-> JInt(1)])>> >>]),
                    Sch([type |-> "object", properties |-> << <<"b", Sch([default |-> JInt(2)])>>,
                                                               <<"class", Ty("integer")>> >>]) >>]),
  (* a required name without a declared property next to additionalProperties / patterns *)
  Sch([type |-> "object", title |-> "T", required |-> <<"a", "b">>, additionalProperties |-> FalseS,
       patternProperties |-> << <<"^b", Ty("integer")>> >>]),
  (* two differently named object classes of identical shape in one tree *)
  Sch([type |-> "object", title |-> "T",
       properties |-> << <<"a", Sch([type |-> "object", properties |-> << <<"b", Ty("string")>> >>])>>,
                         <<"b", Sch([type |-> "object", properties |-> << <<"b", Ty("string")>> >>])>> >>])
}

(* Seeds for the runs with unsupported keywords only (C20): two property names that map to *)
(* one Python name -- the later declaration wins, the earlier one is still part of the     *)
(* document, and an unsupported keyword inside it must be refused.  (Kept out of the other *)
(* runs: what an attribute stands for when names collide is the subject of C12.)           *)
SeedsUns == { Sch([properties |-> << <<"a-b", Empty>>, <<"a_b", Ty("string")>> >>]) }

(***************************************************************************)
(* Seeds explored as they are (no further insertion): each pins one        *)
(* interaction that needs four or more specific keywords at once.          *)
(***************************************************************************)
LOCAL O(pairs) == JObj(pairs)
LOCAL Acc == Sch([type |-> "object", title |-> "Acc", properties |-> << <<"class", Ty("string")>> >>,
                  required |-> <<"class">>])
LOCAL Addr(d) == Sch([type |-> "object", title |-> "Addr", description |-> d,
                      properties |-> << <<"a", Ty("string")>> >>])
Seeds0 == {
  (* oneOf directly inside oneOf: "ab" matches both inner members (so not the inner oneOf) and the pattern *)
  Sch([oneOf |-> << Sch([oneOf |-> << Sch([minLength |-> 2]), Sch([maxLength |-> 3]) >>]),
                    Sch([pattern |-> "^a"]) >>]),
  (* a list default that is invalid only after an item that converts (its raw form must come back) *)
  Sch([type |-> "array",
       items |-> Sch([type |-> "object", properties |-> << <<"a", Ty("integer")>> >>, required |-> <<"a">>]),
       default |-> JArr(<< O(<< <<"a", JInt(1)>> >>), O(<< <<"b", JInt(1)>> >>) >>)]),
  (* one class (renamed required property) reached twice: de-duplicated to one definition, whose *)
  (* shared dictionary is visited twice when the serialized document is parsed again            *)
  Sch([type |-> "object", title |-> "T", properties |-> << <<"a", Acc>>, <<"b", Acc>> >>]),
  (* two different classes with one title, the second (renamed by de-duplication) declared twice *)
  Sch([type |-> "object", title |-> "T",
       properties |-> << <<"a", Acc>>,
                         <<"b", Sch([type |-> "object", title |-> "Acc", properties |-> << <<"b", Ty("integer")>> >>])>>,
                         <<"c", Sch([type |-> "object", title |-> "Acc", properties |-> << <<"b", Ty("integer")>> >>])>> >>]),
  (* an object-valued default next to a composition keyword (every dictionary is labelled) *)
  Sch([anyOf |-> << Ty("string"), Ty("null") >>,
       default |-> O(<< <<"a", O(<< <<"b", JInt(1)>> >>)>> >>)]),
  (* two classes that differ in their description only *)
  Sch([type |-> "object", title |-> "T", properties |-> << <<"a", Addr("one")>>, <<"b", Addr("two")>> >>]),
  (* allOf whose FIRST member is a `not` (its construction is the caller's own value) *)
  Sch([allOf |-> << ([sch |-> TRUE] @@ ("not" :> Ty("string"))),
                    Sch([properties |-> << <<"a", Sch([default |-> JInt(1)])>>, <<"b", Empty>> >>]) >>]),
  (* object literals with several keys (their order is the document's) *)
  Sch([const |-> O(<< <<"b", JInt(1)>>, <<"a", JInt(2)>>, <<"ab", JInt(3)>> >>)]),
  Sch([type |-> "object", title |-> "T",
       default |-> O(<< <<"class", JInt(1)>>, <<"b", JInt(2)>>, <<"a", JInt(3)>> >>),
       enum |-> << O(<< <<"b", JInt(1)>>, <<"a", JStr("x")>> >>), JNull >>]),
  (* literals that Python's == cannot tell apart (0 / false, 1 / true / 1.0), side by side *)
  Sch([enum |-> << JInt(0), JBool(FALSE), JInt(1), JFlt(1, 1) >>]),
  Sch([enum |-> << JArr(<<JInt(0)>>), JArr(<<JBool(FALSE)>>), O(<< <<"a", JInt(1)>> >>), O(<< <<"a", JBool(TRUE)>> >>) >>,
       uniqueItems |-> TRUE]),
  (* one member name matched by several patterns: every matching pattern governs it *)
  Sch([patternProperties |-> << <<"^a", Ty("integer")>>, <<"a", Sch([minimum |-> JInt(2)])>>, <<"b$", FalseS>> >>]),
  (* a required name without a declaration, matched by a pattern that is not anchored at the start *)
  Sch([type |-> "object", title |-> "T", required |-> <<"ab">>, additionalProperties |-> FalseS,
       patternProperties |-> << <<"b$", Ty("integer")>> >>]),
  (* a required name without a declaration, built by the additionalProperties schema *)
  Sch([type |-> "object", title |-> "T", required |-> <<"a">>, additionalProperties |-> Ty("number")]),
  Sch([type |-> "object", title |-> "T", required |-> <<"a">>,
       additionalProperties |-> Sch([type |-> "object", properties |-> << <<"b", Sch([default |-> JInt(1)])>> >>])]),
  (* allOf whose first member is a oneOf of classes, followed by a plain member *)
  Sch([allOf |-> << Sch([oneOf |-> << Sch([type |-> "object", properties |-> << <<"a", Ty("string")>> >>, required |-> <<"a">>]),
                                       Sch([type |-> "object", properties |-> << <<"b", Ty("integer")>> >>, required |-> <<"b">>]) >>]),
                    Sch([minProperties |-> 1]) >>]),
  (* a default declared by a member of an allOf, none on the allOf itself *)
  Sch([allOf |-> << Sch([type |-> "string", default |-> JStr("a")]), Sch([minLength |-> 1]) >>]),
  (* an empty tuple whose further items are objects of a class *)
  Sch([type |-> "object", title |-> "T",
       properties |-> << <<"a", Sch([type |-> "array", itemsT |-> <<>>,
                                     additionalItems |-> Sch([type |-> "object",
                                                              properties |-> << <<"a", Ty("integer")>> >>])])>> >>])
}
=============================================================================
