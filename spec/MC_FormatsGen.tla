---------------------------- MODULE MC_FormatsGen ----------------------------
(***************************************************************************)
(* Builder for the built-in formats (C16): the state is the sequence f of  *)
(* field choices made so far (date-fullyear, date-month, ... for           *)
(* "date-time"; the five groups with the version and variant nibbles for   *)
(* "uuid"); ChooseField appends one field allowed by the grammar.          *)
(*                                                                         *)
(* Bound: only strings within MaxDev field substitutions of one of the     *)
(* base strings are built (MaxDev >= number of fields = the whole product  *)
(* of the boundary sets).  The bases put every boundary combination that   *)
(* needs several coordinated fields (leap second, leap day, maximal        *)
(* everything, nil / max UUID) at distance 0.                              *)
(*                                                                         *)
(* One JSON line per COMPLETE string with the model's prediction (the      *)
(* built-in checker accepts it).                                           *)
(***************************************************************************)
EXTENDS FormatsGen, Json

CONSTANTS Fmt, MaxDev, Year0

VARIABLE f

DTBases == {
  <<"1970", "01", "01", "T", "00", "00", "00", "", "Z">>,
  <<"1990", "12", "31", "T", "23", "59", "60", "", "Z">>,
  <<"1990", "12", "31", "T", "15", "59", "60", "", "-08:00">>,
  <<"1972", "06", "30", "t", "23", "59", "60", ".123", "z">>,
  <<"2000", "02", "29", "T", "23", "59", "59", ".1", "+05:30">>,
  <<"9999", "12", "31", "t", "23", "59", "59", ".999999999", "+23:59">>,
  <<"0001", "01", "01", "T", "00", "00", "00", ".000", "-23:59">> }
  \cup (IF Year0 THEN {<<"0000", "01", "01", "T", "00", "00", "00", "", "Z">>} ELSE {})
UUBases == {
  <<"00000000", "0000", "0", "000", "0", "000", "000000000000">>,
  <<"ffffffff", "ffff", "f", "fff", "f", "fff", "ffffffffffff">>,
  <<"FFFFFFFF", "FFFF", "F", "FFF", "F", "FFF", "FFFFFFFFFFFF">>,
  <<"AbCdEf01", "1a2B", "4", "c3D", "a", "456", "0123456789aB">>,
  <<"12345678", "9876", "1", "456", "8", "000", "987654321012">> }
Bases == IF Fmt = "date-time" THEN DTBases ELSE UUBases
ASSUME \A b \in Bases : InLanguage(Fmt, b, Year0)

Dist(g, b) == Cardinality({i \in 1..Len(g) : g[i] # b[i]})
Near(g) == \E b \in Bases : Dist(g, b) <= MaxDev

Init == f = <<>>
ChooseField == /\ ~Complete(Fmt, f)
               /\ f' \in {g \in {Append(f, c) : c \in Choices(Fmt, f, Year0)} : Near(g)}
Next == ChooseField
Spec == Init /\ [][Next]_f

Export == PrintT(ToJson([fmt |-> Fmt, names |-> Fields(Fmt), fields |-> f, text |-> Text(Fmt, f),
                         pred |-> "ok",
                         m16 |-> ~R_C16_builtin(Fmt, f, Text(Fmt, f), "ok", Year0)]))
Inv == ~Complete(Fmt, f) \/ Export
=============================================================================
