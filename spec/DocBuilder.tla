----------------------------- MODULE DocBuilder -----------------------------
(***************************************************************************)
(* Builder state machine for schema documents.  The state is the document  *)
(* under construction; each step inserts exactly one thing (a leaf         *)
(* keyword, a fresh sub-schema, an element of a schema list, a pair of a   *)
(* schema map) somewhere in the document, so BFS depth = document size     *)
(* and "differs in one keyword" is an ordinary transition.                 *)
(*                                                                         *)
(* Bounds are on the artefact: DocSize(doc) <= MaxSize and                 *)
(* SchemaDepth(doc) <= MaxDepth.                                           *)
(***************************************************************************)
EXTENDS Draft6, TLC

CONSTANTS MaxSize, MaxDepth, Rich

Empty == [sch |-> TRUE]
TrueS == [bs |-> TRUE]
FalseS == [bs |-> FALSE]

LOCAL O1(k1, v1) == JObj(<< <<k1, v1>> >>)

(***************************************************************************)
(* Leaf keyword atoms.  Rich = TRUE adds the less central arguments.       *)
(***************************************************************************)
LeafKws == {"type", "types", "const", "enum",
            "minimum", "maximum", "exclusiveMinimum", "exclusiveMaximum", "multipleOf",
            "minLength", "maxLength", "pattern", "format",
            "minItems", "maxItems", "uniqueItems",
            "minProperties", "maxProperties", "required", "depsL",
            "default", "description", "title"}

DefaultLits == {JBool(FALSE), JInt(0), JFlt(0, 1), JStr(""), JArr(<<>>), JObj(<<>>),
                JNull, JBool(TRUE), JInt(1), JStr("a"), JArr(<<JInt(0)>>),
                O1("a", JNull), O1("a", JInt(1))}

LeafArgs(kw) ==
  CASE kw = "type"  -> {"string", "integer", "number", "boolean", "null", "array", "object"}
    [] kw = "types" -> {<<"string">>, <<"string", "integer">>, <<"integer", "number">>,
                        <<"object", "null">>, <<"array", "string">>}
                       \cup (IF Rich THEN {<<"object">>, <<"number", "boolean">>} ELSE {})
    [] kw = "const" -> {JInt(1), JBool(TRUE), JStr("a"), JArr(<<JBool(TRUE)>>),
                        O1("a", JInt(1)), JNull}
                       \cup (IF Rich THEN {JFlt(1, 1), JInt(0), JBool(FALSE), JArr(<<JInt(1)>>),
                                           O1("a", JBool(TRUE))} ELSE {})
    [] kw = "enum"  -> {<<JInt(1), JStr("a")>>, <<JArr(<<JInt(1)>>)>>, <<JBool(FALSE)>>}
                       \cup (IF Rich THEN {<<JInt(0), JNull>>, <<O1("a", JInt(1)), JBool(TRUE)>>,
                                           <<JInt(0), JBool(FALSE), JInt(1), JFlt(1, 1)>>}
                             ELSE {})
    [] kw \in {"minimum", "maximum", "exclusiveMinimum", "exclusiveMaximum"}
                    -> {JInt(1), JFlt(3, 2)}
    [] kw = "multipleOf" -> {JInt(2), JFlt(1, 2), JFlt(3, 2)}
    [] kw \in {"minLength", "maxLength", "minItems", "maxItems",
               "minProperties", "maxProperties"} -> {1, 2} \cup (IF Rich THEN {0} ELSE {})
    [] kw = "pattern" -> {"^a", "b$"}
    [] kw = "format"  -> {"date-time", "unknown"}
    [] kw = "uniqueItems" -> BOOLEAN
    [] kw = "required" -> {<<"a">>, <<"a", "b">>, <<"class">>}
    [] kw = "depsL" -> {<< <<"a", <<"b">> >> >>}
    [] kw = "default" -> DefaultLits
    [] kw = "description" -> {"d"} \cup (IF Rich THEN {" d  x"} ELSE {})    \* leading / inner layout whitespace
    [] kw = "title" -> {"T"}

PropNames == {"a", "b", "class"}
PatNames  == {"^a"} \cup (IF Rich THEN {"b$", "^c"} ELSE {})
DepNames  == {"a", "b"}

InitSubs == {Empty, TrueS, FalseS}

(* keywords that spell the same JSON keyword in two shapes exclude each other *)
Conflicts(S, kw) ==
  \/ kw = "type"   /\ Has(S, "types")
  \/ kw = "types"  /\ Has(S, "type")
  \/ kw = "items"  /\ Has(S, "itemsT")
  \/ kw = "itemsT" /\ Has(S, "items")

(***************************************************************************)
(* One-step extensions of a schema at its own level.                       *)
(***************************************************************************)
With(S, kw, a) == [x \in DOMAIN S \cup {kw} |-> IF x = kw THEN a ELSE S[x]]

LeafExt(S) ==
  UNION {{With(S, kw, a) : a \in LeafArgs(kw)} :
           kw \in {k \in LeafKws : ~Has(S, k) /\ ~Conflicts(S, k)}}

NewSubExt(S) ==
     (IF ~Has(S, "itemsT") /\ ~Conflicts(S, "itemsT") THEN {With(S, "itemsT", <<>>)} ELSE {})  \* "items": []
  \cup UNION {{With(S, kw, s0) : s0 \in InitSubs} :
              kw \in {k \in SingleKws : ~Has(S, k) /\ ~Conflicts(S, k)}}
  \cup UNION {{With(S, kw, (IF Has(S, kw) THEN S[kw] ELSE <<>>) \o <<s0>>) : s0 \in InitSubs} :
              kw \in {k \in SeqKws : ~Conflicts(S, k)}}
  \cup {With(S, "properties",
             (IF Has(S, "properties") THEN S.properties ELSE <<>>) \o << <<nm, s0>> >>) :
          nm \in {n \in PropNames : ~(Has(S, "properties") /\ PairsHasKey(S.properties, n))},
          s0 \in InitSubs}
  \cup {With(S, "patternProperties",
             (IF Has(S, "patternProperties") THEN S.patternProperties ELSE <<>>)
               \o << <<nm, s0>> >>) :
          nm \in {n \in PatNames :
                    ~(Has(S, "patternProperties") /\ PairsHasKey(S.patternProperties, n))},
          s0 \in InitSubs}
  \cup {With(S, "depsS",
             (IF Has(S, "depsS") THEN S.depsS ELSE <<>>) \o << <<nm, s0>> >>) :
          nm \in {n \in DepNames :
                    /\ ~(Has(S, "depsS") /\ PairsHasKey(S.depsS, n))
                    /\ ~(Has(S, "depsL") /\ PairsHasKey(S.depsL, n))},
          s0 \in InitSubs}

(* depsL and depsS share the JSON object "dependencies": keys must differ   *)
LeafOK(S) == ~(Has(S, "depsL") /\ Has(S, "depsS") /\
               \E i \in 1..Len(S.depsL) : PairsHasKey(S.depsS, S.depsL[i][1]))

(***************************************************************************)
(* Ext(S, d): all documents obtained from S by one insertion at nesting    *)
(* depth <= d below S.                                                     *)
(***************************************************************************)
RECURSIVE Ext(_, _)
Ext(S, d) ==
  IF IsBoolSchema(S) THEN {}
  ELSE
    {T \in LeafExt(S) : LeafOK(T)}
    \cup (IF d > 0 THEN
       NewSubExt(S)
       \cup UNION {{With(S, kw, T) : T \in Ext(S[kw], d - 1)} :
                     kw \in {k \in SingleKws : Has(S, k)}}
       \cup UNION {UNION {{With(S, kw, [S[kw] EXCEPT ![i] = T]) : T \in Ext(S[kw][i], d - 1)} :
                            i \in 1..Len(S[kw])} :
                     kw \in {k \in SeqKws : Has(S, k)}}
       \cup UNION {UNION {{With(S, kw, [S[kw] EXCEPT ![i] = <<S[kw][i][1], T>>]) :
                              T \in Ext(S[kw][i][2], d - 1)} :
                            i \in 1..Len(S[kw])} :
                     kw \in {k \in PairKws \ {"definitions"} : Has(S, k)}}
     ELSE {})

(***************************************************************************)
(* C20: insertion of an unsupported keyword at any schema position.        *)
(***************************************************************************)
UnsArgs(kw) == IF kw = "$defs" THEN {<< <<"d", Empty>> >>} ELSE {Empty, TrueS}
UnsLeafExt(S) ==
  UNION {{With(S, kw, a) : a \in UnsArgs(kw)} : kw \in {k \in UnsupportedKws : ~Has(S, k)}}
RECURSIVE UnsExt(_, _)
UnsExt(S, d) ==
  IF IsBoolSchema(S) THEN {}
  ELSE UnsLeafExt(S)
    \cup (IF d > 0 THEN
       UNION {{With(S, kw, T) : T \in UnsExt(S[kw], d - 1)} :
                     kw \in {k \in SingleKws : Has(S, k)}}
       \cup UNION {UNION {{With(S, kw, [S[kw] EXCEPT ![i] = T]) : T \in UnsExt(S[kw][i], d - 1)} :
                            i \in 1..Len(S[kw])} :
                     kw \in {k \in SeqKws : Has(S, k)}}
       \cup UNION {UNION {{With(S, kw, [S[kw] EXCEPT ![i] = <<S[kw][i][1], T>>]) :
                              T \in UnsExt(S[kw][i][2], d - 1)} :
                            i \in 1..Len(S[kw])} :
                     kw \in {k \in PairKws \ {"definitions"} : Has(S, k)}}
     ELSE {})


(***************************************************************************)
(* Path-directed extension, used by -simulate: pick one schema position at *)
(* random, then extend only there (successor sets of ~10^2 instead of the  *)
(* ~10^4 of Ext, so deep random documents are cheap to generate).          *)
(***************************************************************************)
RECURSIVE Paths(_, _)
Paths(S, d) ==
  IF IsBoolSchema(S) THEN {}
  ELSE {<<>>} \cup (IF d = 0 THEN {} ELSE
     UNION {{<< <<kw, 0>> >> \o q : q \in Paths(S[kw], d - 1)} :
               kw \in {k \in SingleKws : Has(S, k)}}
     \cup UNION {UNION {{<< <<kw, i>> >> \o q : q \in Paths(S[kw][i], d - 1)} :
                      i \in 1..Len(S[kw])} : kw \in {k \in SeqKws : Has(S, k)}}
     \cup UNION {UNION {{<< <<kw, i>> >> \o q : q \in Paths(S[kw][i][2], d - 1)} :
                      i \in 1..Len(S[kw])} :
                 kw \in {k \in PairKws \ {"definitions"} : Has(S, k)}})

RECURSIVE SubAt(_, _)
SubAt(S, p) ==
  IF Len(p) = 0 THEN S
  ELSE LET kw == p[1][1]  i == p[1][2] IN
       IF kw \in SingleKws THEN SubAt(S[kw], Tail(p))
       ELSE IF kw \in SeqKws THEN SubAt(S[kw][i], Tail(p))
       ELSE SubAt(S[kw][i][2], Tail(p))

RECURSIVE ApplyAt(_, _, _)
ApplyAt(S, p, T) ==
  IF Len(p) = 0 THEN T
  ELSE LET kw == p[1][1]  i == p[1][2] IN
       IF kw \in SingleKws THEN With(S, kw, ApplyAt(S[kw], Tail(p), T))
       ELSE IF kw \in SeqKws
            THEN With(S, kw, [S[kw] EXCEPT ![i] = ApplyAt(S[kw][i], Tail(p), T)])
       ELSE With(S, kw, [S[kw] EXCEPT ![i] = <<S[kw][i][1], ApplyAt(S[kw][i][2], Tail(p), T)>>])

ExtAt(S, p, d) ==
  LET sub == SubAt(S, p)
      exts == {T \in LeafExt(sub) : LeafOK(T)}
              \cup (IF Len(p) < d THEN NewSubExt(sub) ELSE {})
  IN {ApplyAt(S, p, T) : T \in exts}

(* Size: number of insertion steps that built the document                 *)
RECURSIVE DocSize(_)
RECURSIVE SumDoc(_)
SumDoc(subs) == IF Len(subs) = 0 THEN 0 ELSE DocSize(Head(subs)) + SumDoc(Tail(subs))
DocSize(S) ==
  IF IsBoolSchema(S) THEN 0
  ELSE LET ks == DOMAIN S \ {"sch"}
           own == Cardinality({k \in ks : k \notin SeqKws \cup PairKws})
           RECURSIVE lens(_)
           lens(K) == IF K = {} THEN 0
                      ELSE LET k == CHOOSE x \in K : TRUE IN Len(S[k]) + lens(K \ {k})
       IN own + lens(ks \cap (SeqKws \cup PairKws)) + SumDoc(SubSchemas(S))
=============================================================================
