------------------------------- MODULE Parser -------------------------------
(***************************************************************************)
(* IMPLEMENTATION MODEL of statham/schema/parser.py (parse_element and its *)
(* helpers), in the shape of the code.  The parser's normal form:          *)
(*   composition + siblings -> AllOf(base, allOf..., OneOf, AnyOf, Not)    *)
(*   with trivial Element() members filtered; type lists -> AnyOf;         *)
(*   "type": "object" -> class with synthetic required properties.         *)
(* Every schema carries the autotitle the labeller derives from its JSON   *)
(* pointer (Titles.tla); an object class is named TitleFormat(title or     *)
(* autotitle).  De-duplication suffixes (_ParseState.dedupe) are assigned  *)
(* over the creation order of classes in Naming.tla.                       *)
(***************************************************************************)
EXTENDS Elements, Titles

KeepFalsyDefault      == TRUE   \* _parse_composition: `default or element.default`
SingleTypeKeepsDefault == TRUE  \* _parse_multi_typed, one-element type list
NothingDefaultWrapped == TRUE   \* _parse_composition: AllOf(Nothing(), default=d)
InnerDefaultKept == TRUE           \* _parse_composition: outer default does not overwrite the only member's
SyntheticFollowsAdditional == TRUE  \* _parse_object: undeclared required names get the additional element

CompKws == {"anyOf", "oneOf", "allOf", "not"}

(* keyword filters = parameter names of each class's __init__ (in kw spelling) *)
CommonKws == {"default", "const", "enum", "description"}
ClassKws(cls) ==
  CASE cls = "String"  -> CommonKws \cup {"format", "pattern", "minLength", "maxLength"}
    [] cls \in {"Integer", "Number"} ->
         CommonKws \cup {"minimum", "maximum", "exclusiveMinimum", "exclusiveMaximum", "multipleOf"}
    [] cls \in {"Boolean", "Null"} -> CommonKws
    [] cls = "Array" -> CommonKws \cup {"items", "itemsT", "additionalItems", "additionalItemsB",
                                        "minItems", "maxItems", "uniqueItems", "contains"}
    [] cls = "Object" -> CommonKws \cup {"properties", "additionalProperties",
                                         "additionalPropertiesB", "patternProperties",
                                         "minProperties", "maxProperties", "propertyNames",
                                         "depsL", "depsS"}
Restrict(P, keys) == [k \in DOMAIN P \cap keys |-> P[k]]
Without(P, keys)  == [k \in DOMAIN P \ keys |-> P[k]]
TypeClass(t) ==
  CASE t = "string" -> "String" [] t = "integer" -> "Integer" [] t = "number" -> "Number"
    [] t = "boolean" -> "Boolean" [] t = "null" -> "Null" [] t = "array" -> "Array"
    [] t = "object" -> "Object"

Compose(cls, es) ==
  IF Len(es) = 0 THEN ElementE ELSE IF Len(es) = 1 THEN es[1] ELSE MkComp(cls, es, EmptyKw)

IsTrivial(e) == e.cls = "Element" /\ DOMAIN e.kw = {} /\ Len(e.elems) = 0

RECURSIVE ParseT(_, _)      \* schema, autotitle of the schema

ParseSeqOf(ss, t, kind) ==
  [i \in 1..Len(ss) |-> ParseT(ss[i], AutoChild(t, kind, ToString(i - 1)))]
ParsePairsOf(ps, t, kind) ==
  [i \in 1..Len(ps) |-> << ps[i][1], ParseT(ps[i][2], AutoChild(t, kind, ps[i][1])) >>]

(* _parse_properties *)
(* a dict comprehension keyed by the Python name: when two JSON names map to one Python name *)
(* the key keeps the position of the FIRST and the value of the LAST declaration (every      *)
(* declaration is parsed all the same)                                                       *)
ParseProps(S, t) ==
  LET req == IF Has(S, "required") THEN SeqRange(S.required) ELSE {}
      all == [i \in 1..Len(S.properties) |->
                [attr |-> AttrName(S.properties[i][1]), source |-> S.properties[i][1],
                 required |-> S.properties[i][1] \in req,
                 elem |-> ParseT(S.properties[i][2], AutoChild(t, "properties", S.properties[i][1]))]]
      isFirst(i) == \A j \in 1..(i - 1) : all[j].attr # all[i].attr
      last(i) == CHOOSE j \in i..Len(all) : all[j].attr = all[i].attr
                                             /\ \A k \in (j + 1)..Len(all) : all[k].attr # all[i].attr
      firsts == SelectSeq([i \in 1..Len(all) |-> i], isFirst)
  IN [k \in 1..Len(firsts) |-> all[last(firsts[k])]]

(* the schema dict after parse_element has rewritten it in place, as kw record *)
SimpleKws == {"default", "const", "enum", "minimum", "maximum", "exclusiveMinimum",
              "exclusiveMaximum", "multipleOf", "minLength", "maxLength", "pattern", "format",
              "minItems", "maxItems", "minProperties", "maxProperties", "required", "depsL",
              "description"}
Parsed(S, t) ==
  LET simple == [k \in DOMAIN S \cap SimpleKws |-> S[k]]
      uniq == IF Has(S, "uniqueItems") /\ S.uniqueItems THEN [uniqueItems |-> TRUE] ELSE EmptyKw
      one(kw) == IF Has(S, kw) THEN (kw :> ParseT(S[kw], AutoChild(t, kw, ""))) ELSE EmptyKw
      addl(kw, kwB) ==
        IF ~Has(S, kw) THEN EmptyKw
        ELSE IF IsBoolSchema(S[kw]) THEN (IF S[kw].bs THEN EmptyKw ELSE (kwB :> FALSE))
        ELSE (kw :> ParseT(S[kw], AutoChild(t, kw, "")))
      itT == IF Has(S, "itemsT") THEN [itemsT |-> ParseSeqOf(S.itemsT, t, "itemsT")] ELSE EmptyKw
      pats == IF Has(S, "patternProperties")
              THEN [patternProperties |-> ParsePairsOf(S.patternProperties, t, "patternProperties")]
              ELSE EmptyKw
      deps == IF Has(S, "depsS") THEN [depsS |-> ParsePairsOf(S.depsS, t, "depsS")] ELSE EmptyKw
      props == IF Has(S, "properties") THEN [properties |-> ParseProps(S, t)] ELSE EmptyKw
  IN simple @@ uniq @@ one("items") @@ one("contains") @@ one("propertyNames")
       @@ addl("additionalItems", "additionalItemsB")
       @@ addl("additionalProperties", "additionalPropertiesB")
       @@ itT @@ pats @@ deps @@ props

(* every element directly held by a kw record *)
KwElems(P) ==
  LET one(kw) == IF kw \in DOMAIN P THEN <<P[kw]>> ELSE <<>>
      sq(kw)  == IF kw \in DOMAIN P THEN P[kw] ELSE <<>>
      pr(kw)  == IF kw \in DOMAIN P THEN [i \in 1..Len(P[kw]) |-> P[kw][i][2]] ELSE <<>>
      pp      == IF "properties" \in DOMAIN P
                 THEN [i \in 1..Len(P.properties) |-> P.properties[i].elem] ELSE <<>>
  IN one("items") \o one("contains") \o one("propertyNames") \o one("additionalItems")
     \o one("additionalProperties") \o sq("itemsT") \o pr("patternProperties")
     \o pr("depsS") \o pp

FirstErr(es) ==
  LET bad == {i \in 1..Len(es) : IsErr(es[i])}
  IN IF bad = {} THEN ElementE ELSE es[CHOOSE i \in bad : \A j \in bad : i <= j]

(* _parse_object (class name before de-duplication; see Naming.tla) *)
ParseObject(S, P, t) ==
  LET props0 == IF "properties" \in DOMAIN P THEN P.properties ELSE <<>>
      req == IF Has(S, "required") THEN S.required ELSE <<>>
      attrs0 == {props0[i].attr : i \in 1..Len(props0)}
      (* _undeclared_property_element: a required name without a property is still an additional
         property unless a pattern matches it *)
      pats == IF "patternProperties" \in DOMAIN P THEN P.patternProperties ELSE <<>>
      Undeclared(key) ==
        IF ~SyntheticFollowsAdditional \/ (\E j \in 1..Len(pats) : Match(pats[j][1], key)) THEN ElementE
        ELSE IF "additionalProperties" \in DOMAIN P THEN P.additionalProperties
        ELSE IF "additionalPropertiesB" \in DOMAIN P /\ ~P.additionalPropertiesB THEN NothingE
        ELSE ElementE
      RECURSIVE synth(_, _)
      synth(i, seen) ==
        IF i > Len(req) THEN <<>>
        ELSE LET a == AttrName(req[i]) IN
             IF a \in seen THEN synth(i + 1, seen)
             ELSE << [attr |-> a, source |-> req[i], required |-> TRUE, elem |-> Undeclared(req[i])] >>
                  \o synth(i + 1, seen \cup {a})
      kw == Restrict(P, ClassKws("Object")) @@ [properties |-> props0 \o synth(1, attrs0)]
  IN MkObj(TitleFormat(IF Has(S, "title") THEN S.title ELSE t),
           [kw EXCEPT !.properties = props0 \o synth(1, attrs0)])

ParseTypedOne(ty, S, P, t) ==
  IF ty = "object" THEN ParseObject(S, P, t)
  ELSE IF ty = "array" THEN
     LET kw == Restrict(P, ClassKws("Array"))
     IN Mk("Array", IF "items" \in DOMAIN kw \/ "itemsT" \in DOMAIN kw THEN kw
                    ELSE kw @@ [items |-> ElementE])
  ELSE Mk(TypeClass(ty), Restrict(P, ClassKws(TypeClass(ty))))

(* schema without composition keywords: untyped, typed, or multi-typed *)
ParseNoComp(S, P, t) ==
  IF Has(S, "type") THEN ParseTypedOne(S.type, S, P, t)
  ELSE IF Has(S, "types") THEN
     LET P0 == Without(P, {"default"})
         d  == IF "default" \in DOMAIN P THEN [default |-> P.default] ELSE EmptyKw
     IN IF Len(S.types) = 1
        THEN ParseTypedOne(S.types[1], S, IF SingleTypeKeepsDefault THEN P ELSE P0, t)
        ELSE MkComp("AnyOf", [i \in 1..Len(S.types) |-> ParseTypedOne(S.types[i], S, P0, t)], d)
  ELSE Mk("Element", P)

(* _parse_composition *)
ParseComposition(S, P, t) ==
  LET base == ParseNoComp(S, Without(P, {"default"}), t)
      lst(kw) == IF Has(S, kw) THEN ParseSeqOf(S[kw], t, kw) ELSE <<>>
      notE == ParseT(S["not"], AutoChild(t, "not", ""))
      nots == IF Has(S, "not") THEN << MkComp("Not", <<notE>>, EmptyKw) >> ELSE <<>>
      allOf == <<base>> \o lst("allOf") \o <<Compose("OneOf", lst("oneOf"))>>
                 \o <<Compose("AnyOf", lst("anyOf"))>> \o nots
      errs == FirstErr(lst("allOf") \o lst("oneOf") \o lst("anyOf")
                       \o (IF Has(S, "not") THEN <<notE>> ELSE <<>>))
      kept == SelectSeq(allOf, LAMBDA e : ~IsTrivial(e))
      element == Compose("AllOf", kept)
      hasD == "default" \in DOMAIN P
  IN IF IsErr(errs) THEN errs
     ELSE IF element.cls = "Object"
          THEN MkComp("AllOf", <<element>>, IF hasD THEN [default |-> P.default] ELSE EmptyKw)
     ELSE IF NothingDefaultWrapped /\ element.cls = "Nothing" /\ hasD
          THEN MkComp("AllOf", <<element>>, [default |-> P.default])
     ELSE IF InnerDefaultKept /\ hasD /\ K(element, "default")
          THEN MkComp("AllOf", <<element>>, [default |-> P.default])
     ELSE IF hasD /\ (KeepFalsyDefault \/ Truthy(P.default))
          THEN [element EXCEPT !.kw = [k \in DOMAIN element.kw \cup {"default"} |->
                                         IF k = "default" THEN P.default ELSE element.kw[k]]]
     ELSE element

ParseT(S, t) ==
  IF IsBoolSchema(S) THEN (IF S.bs THEN ElementE ELSE NothingE)
  ELSE IF DOMAIN S \cap UnsupportedKws # {} THEN ErrE("notimpl")
  ELSE LET P == Parsed(S, t)
           err == FirstErr(KwElems(P))
       IN IF IsErr(err) THEN err
          ELSE IF DOMAIN S \cap CompKws # {} THEN ParseComposition(S, P, t)
          ELSE ParseNoComp(S, P, t)

RootTitle == "doc"          \* the document is served as doc.json
Parse(S) == ParseT(S, RootTitle)
=============================================================================
