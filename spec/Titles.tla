------------------------------- MODULE Titles -------------------------------
(***************************************************************************)
(* Class titles (IMPLEMENTATION MODEL of statham/titles.py and of          *)
(* parser._title_format) on printable-ASCII strings.                       *)
(*                                                                         *)
(* AutoChild(parent, kind, key): the "_x_autotitle" the labeller gives to  *)
(* the schema one step below a schema whose autotitle is `parent`          *)
(* (titles._get_title_from_reference applied to the JSON pointer):         *)
(*   properties / patternProperties / dependencies / definitions member    *)
(*        -> the member's key                                              *)
(*   items (single)            -> parent \o "Item"                         *)
(*   tuple item i (0-based)    -> parent \o "Item" \o i                    *)
(*   anyOf/oneOf/allOf member i-> parent \o i       ("/anyOf" -> parent)   *)
(*   not                       -> parent                                   *)
(*   other single keywords     -> the keyword itself                       *)
(***************************************************************************)
EXTENDS Names, TLC

AutoChild(parent, kind, key) ==
  CASE kind \in {"properties", "patternProperties", "depsS", "definitions"} -> key
    [] kind = "items"  -> parent \o "Item"
    [] kind = "itemsT" -> parent \o "Item" \o key          \* key = ToString(index - 1)
    [] kind \in {"anyOf", "oneOf", "allOf"} -> parent \o key
    [] kind = "not" -> parent
    [] OTHER -> kind

UpperOf(c) == IF InStr(c, Lower)
              THEN Ch(Upper, CHOOSE i \in 1..26 : Ch(Lower, i) = c) ELSE c
LowerOf(c) == IF InStr(c, Upper)
              THEN Ch(Lower, CHOOSE i \in 1..26 : Ch(Upper, i) = c) ELSE c
IsUpperC(c) == InStr(c, Upper)

(* str.title() of a segment: a letter is upper-cased when it follows a non-letter *)
(* (or starts the string) and lower-cased otherwise                               *)
PyTitle(s) ==
  LET RECURSIVE go(_)
      go(i) == IF i > Len(s) THEN ""
               ELSE LET c == Ch(s, i)
                        afterLetter == i > 1 /\ IsAsciiLetter(Ch(s, i - 1))
                    IN (IF IsAsciiLetter(c) THEN (IF afterLetter THEN LowerOf(c) ELSE UpperOf(c))
                        ELSE c) \o go(i + 1)
  IN go(1)

(* re.findall("[A-Z][^A-Z]*", w): maximal segments starting at each upper-case letter; *)
(* anything before the first upper-case letter is dropped                              *)
CapSegmentsTitled(w) ==
  LET RECURSIVE go(_, _)
      (* i: position; cur: current segment ("" = none open yet) *)
      go(i, cur) ==
        IF i > Len(w) THEN (IF cur = "" THEN "" ELSE PyTitle(cur))
        ELSE LET c == Ch(w, i) IN
             IF IsUpperC(c) THEN (IF cur = "" THEN "" ELSE PyTitle(cur)) \o go(i + 1, c)
             ELSE IF cur = "" THEN go(i + 1, "")
             ELSE go(i + 1, cur \o c)
  IN go(1, "")

(* _title_format: split on non-alphanumerics, capitalise each word's first character, *)
(* cut into capital-led segments, title-case and join                                 *)
TitleFormat(name) ==
  LET RECURSIVE words(_, _)
      words(i, cur) ==
        IF i > Len(name) THEN (IF cur = "" THEN "" ELSE CapSegmentsTitled(UpperOf(Ch(cur, 1)) \o SubSeq(cur, 2, Len(cur))))
        ELSE LET c == Ch(name, i) IN
             IF IsAsciiAlnum(c) THEN words(i + 1, cur \o c)
             ELSE (IF cur = "" THEN "" ELSE CapSegmentsTitled(UpperOf(Ch(cur, 1)) \o SubSeq(cur, 2, Len(cur))))
                  \o words(i + 1, "")
  IN words(1, "")
=============================================================================
