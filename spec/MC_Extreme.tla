------------------------------ MODULE MC_Extreme ------------------------------
(* every (schema atom, value class) pair is one initial state; no transitions *)
EXTENDS Extreme, Json

(* TLC orders record fields by the order in which their names were first seen: the tag
   field k of JSON values must be met before v (heterogeneous values are told apart by k) *)
LOCAL InternOrderKV == [k |-> 0, v |-> 0]
VARIABLE c
NumNames == {n.name : n \in NumClasses}
Cases ==
       {[kind |-> "num", atom |-> a, arg |-> "", val |-> n.name] : a \in SchemaAtoms \ {"multipleOf"}, n \in NumClasses}
  \cup {[kind |-> "mult", atom |-> "multipleOf", arg |-> m.name, val |-> n.name] : m \in MultClasses, n \in NumClasses}
  \cup {[kind |-> "str", atom |-> a, arg |-> "", val |-> s] : a \in SchemaAtoms \ {"multipleOf"}, s \in StrClasses}
  \cup {[kind |-> "shape", atom |-> a, arg |-> s, val |-> sh] :
          a \in SchemaAtoms \ {"multipleOf"}, s \in {"bigint", "nul", "paren"}, sh \in ShapeClasses}
  \cup {[kind |-> "name", atom |-> a, arg |-> nm, val |-> "obj_with_name"] :
          a \in {"property_named", "required_named", "dependencies_named", "object_class"}, nm \in NameClasses}
Init == c \in Cases
Next == UNCHANGED c
Spec == Init /\ [][Next]_c
Predicted ==
  IF c.kind = "mult" THEN
     LET v == CHOOSE n \in NumClasses : n.name = c.val
         m == CHOOSE x \in MultClasses : x.name = c.arg
     IN IF MultipleOfRaises(v, m) THEN "other:OverflowError"
        ELSE IF StrDigitsLimit /\ v.exp > 14284 /\ c.val \notin MultiplesOf(c.arg) /\ c.arg # "m_tiny"
             THEN "other:ValueError"            \* the rejection message cannot be formatted
        ELSE "fine"
  ELSE IF c.kind = "num" THEN
     LET v == CHOOSE n \in NumClasses : n.name = c.val
     IN IF NumberConstructRaises(v) /\ c.atom = "type_number" THEN "other:OverflowError"
        ELSE IF MessageRaises(c.atom, v) THEN "other:ValueError"
        ELSE "fine"
  ELSE IF c.kind = "str" /\ FormatRaises(c.atom, c.val) THEN "other:OverflowError"
  ELSE "fine"
Inv == PrintT(ToJson([case |-> c, predicted |-> Predicted, m10 |-> Predicted # "fine",
                      expected |-> ExpectedAccept(c)]))
=============================================================================
