------------------------------- MODULE Naming -------------------------------
(***************************************************************************)
(* IMPLEMENTATION MODEL of class naming: _ParseState.dedupe over the order *)
(* in which parse_element creates object classes.                          *)
(*                                                                         *)
(* Created(S, t, ord): the object-class records in CREATION order for a    *)
(* schema S with autotitle t.  parse_element parses the sub-schema         *)
(* keywords in the fixed order properties, items, patternProperties,       *)
(* propertyNames, contains, dependencies, additionalProperties,            *)
(* additionalItems; then (composition) the base schema, the list keywords  *)
(* in the order `ord` (a permutation of <<"anyOf","oneOf","allOf">>: the   *)
(* code iterated a SET here, see C09), then "not".  An object class is     *)
(* created after everything below it.                                      *)
(*                                                                         *)
(* Dedupe(created): _ParseState.seen -- a class equal (ElemEq) to an       *)
(* earlier one with the same formatted title is that class; otherwise it   *)
(* is named title, title_1, title_2, ... in creation order.                *)
(***************************************************************************)
EXTENDS Parser

FixedCompOrder == TRUE        \* _parse_composition iterates the tuple, not a set
DefaultOrder == <<"anyOf", "oneOf", "allOf">>
Orders == {<<"anyOf", "oneOf", "allOf">>, <<"anyOf", "allOf", "oneOf">>, <<"oneOf", "anyOf", "allOf">>,
           <<"oneOf", "allOf", "anyOf">>, <<"allOf", "anyOf", "oneOf">>, <<"allOf", "oneOf", "anyOf">>}

RECURSIVE Created(_, _, _)
RECURSIVE CreatedSeq(_, _, _, _, _)
CreatedSeq(ss, t, kind, ord, i) ==
  IF i > Len(ss) THEN <<>>
  ELSE Created(ss[i], AutoChild(t, kind, ToString(i - 1)), ord) \o CreatedSeq(ss, t, kind, ord, i + 1)
RECURSIVE CreatedPairs(_, _, _, _, _)
CreatedPairs(ps, t, kind, ord, i) ==
  IF i > Len(ps) THEN <<>>
  ELSE Created(ps[i][2], AutoChild(t, kind, ps[i][1]), ord) \o CreatedPairs(ps, t, kind, ord, i + 1)

Created(S, t, ord) ==
  IF IsBoolSchema(S) \/ DOMAIN S \cap UnsupportedKws # {} THEN <<>>
  ELSE
  LET one(kw) == IF Has(S, kw) /\ ~IsBoolSchema(S[kw]) THEN Created(S[kw], AutoChild(t, kw, ""), ord)
                 ELSE <<>>
      below == (IF Has(S, "properties") THEN CreatedPairs(S.properties, t, "properties", ord, 1) ELSE <<>>)
               \o one("items")
               \o (IF Has(S, "itemsT") THEN CreatedSeq(S.itemsT, t, "itemsT", ord, 1) ELSE <<>>)
               \o (IF Has(S, "patternProperties")
                   THEN CreatedPairs(S.patternProperties, t, "patternProperties", ord, 1) ELSE <<>>)
               \o one("propertyNames") \o one("contains")
               \o (IF Has(S, "depsS") THEN CreatedPairs(S.depsS, t, "depsS", ord, 1) ELSE <<>>)
               \o one("additionalProperties") \o one("additionalItems")
      P == Parsed(S, t)
      P0 == Without(P, {"default"})
      (* classes created for this schema itself (typed "object", or once per "object" in a type
         list); the default stays on the class only when nothing splits it off first *)
      hasComp == DOMAIN S \cap CompKws # {}
      Pobj == IF hasComp THEN P0 ELSE P
      own == IF Has(S, "type") THEN (IF S.type = "object" THEN << ParseObject(S, Pobj, t) >> ELSE <<>>)
             ELSE IF Has(S, "types")
                  THEN SelectSeq([i \in 1..Len(S.types) |->
                                    IF S.types[i] = "object"
                                    THEN ParseObject(S, IF Len(S.types) = 1 /\ SingleTypeKeepsDefault
                                                        THEN Pobj ELSE P0, t)
                                    ELSE ElementE],
                                 LAMBDA e : e.cls = "Object")
             ELSE <<>>
      comp(kw) == IF Has(S, kw) THEN CreatedSeq(S[kw], t, kw, ord, 1) ELSE <<>>
      lists == comp(ord[1]) \o comp(ord[2]) \o comp(ord[3])
      nots == IF Has(S, "not") THEN Created(S["not"], AutoChild(t, "not", ""), ord) ELSE <<>>
  IN below \o own \o lists \o nots


RECURSIVE DedupeFrom(_, _, _)
DedupeFrom(created, i, st) ==
  IF i > Len(created) THEN st
  ELSE LET e == created[i]
           same == {j \in 1..Len(st) : st[j].fname = e.name /\ ElemEq(st[j].elem, e)}
           count == Cardinality({j \in 1..Len(st) : st[j].fname = e.name})
       IN DedupeFrom(created, i + 1,
            IF same # {} THEN st
            ELSE Append(st, [fname |-> e.name, elem |-> e,
                             name |-> IF count = 0 THEN e.name ELSE e.name \o "_" \o ToString(count)]))
Dedupe(created) == DedupeFrom(created, 1, <<>>)

ClassNames(S, ord) ==
  LET st == Dedupe(Created(S, RootTitle, ord)) IN [i \in 1..Len(st) |-> st[i].name]
ClassTable(S) ==      \* <<name, class record>> in creation order, under the order the code uses
  LET st == Dedupe(Created(S, RootTitle, DefaultOrder))
  IN [i \in 1..Len(st) |-> << st[i].name, st[i].elem >>]

(* C09 at design level: names must not depend on a set iteration order *)
NamesOrderIndependent(S) ==
  FixedCompOrder \/ \A o \in Orders : ClassNames(S, o) = ClassNames(S, DefaultOrder)
=============================================================================
