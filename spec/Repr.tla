-------------------------------- MODULE Repr --------------------------------
(***************************************************************************)
(* IMPLEMENTATION MODEL of the textual representation of elements          *)
(*   helpers.py   custom_repr_args / custom_repr / Args.__repr__           *)
(*   property.py  _Property.__repr__  (source dropped when it is the       *)
(*                bound name; `required` shown only when True)             *)
(*   meta.py      ObjectMeta.__repr__ (the class name)                     *)
(* and of what evaluating that text builds (the constructors of            *)
(* elements/*.py applied to the arguments shown).                          *)
(*                                                                         *)
(* A representation is a TERM (the harness reads the real text back with   *)
(* Python's ast into the same shape):                                      *)
(*   [hd, pos, kws, lit]                                                   *)
(*     hd  = "String" | ... | "AllOf" | "Not" | "Nothing" | "Property"     *)
(*           | "ref" (an object class, by name; name in lit)               *)
(*           | "lit" (a JSON literal in lit) | "list" (terms in pos)       *)
(*           | "dict" (<<key, term>> pairs in kws)                         *)
(*     pos = positional arguments, kws = keyword arguments in the order    *)
(*           of the constructor's signature (custom_repr_args walks        *)
(*           inspect.signature and skips every parameter whose attribute   *)
(*           == the parameter default: element records hold exactly the    *)
(*           non-default attributes).                                      *)
(***************************************************************************)
EXTENDS Serializers

Term(h, p, k, l) == [hd |-> h, pos |-> p, kws |-> k, lit |-> l]
Lit(v)  == Term("lit", <<>>, <<>>, v)
ListT(s) == Term("list", s, <<>>, JNull)
DictT(s) == Term("dict", <<>>, s, JNull)

(* keyword-only parameters of Element.__init__ in signature order; the typed classes take a *)
(* sub-sequence of it in the same order (Array's `items` is positional)                      *)
SigOrder == << "default", "const", "enum", "items", "additionalItems", "minItems", "maxItems",
               "uniqueItems", "contains", "minimum", "maximum", "exclusiveMinimum",
               "exclusiveMaximum", "multipleOf", "format", "pattern", "minLength", "maxLength",
               "required", "properties", "patternProperties", "additionalProperties",
               "minProperties", "maxProperties", "propertyNames", "dependencies", "description" >>

RECURSIVE ReprOf(_, _)
PropTerm(p, tbl) ==
  Term("Property", << ReprOf(p.elem, tbl) >>,
       (IF p.required THEN << <<"required", Lit(JBool(TRUE))>> >> ELSE <<>>)
       \o (IF p.source # p.attr THEN << <<"source", Lit(JStr(p.source))>> >> ELSE <<>>), JNull)

ReprOf(e, tbl) ==
  IF e.cls = "Object" THEN Term("ref", <<>>, <<>>, JStr(NameIn(tbl, e)))
  ELSE
  LET kw == e.kw
      has(k) == k \in DOMAIN kw
      sub(x) == ReprOf(x, tbl)
      strs(s) == Lit(JArr([i \in 1..Len(s) |-> JStr(s[i])]))
      pairsEl(s) == DictT([i \in 1..Len(s) |-> << s[i][1], sub(s[i][2]) >>])
      itemsTerm == IF has("itemsT") THEN ListT([i \in 1..Len(kw.itemsT) |-> sub(kw.itemsT[i])])
                   ELSE sub(kw.items)
      (* the term of signature parameter k, or <<>> when the attribute is the default *)
      arg(k) ==
        CASE k \in {"default", "const", "minimum", "maximum", "exclusiveMinimum", "exclusiveMaximum",
                    "multipleOf"} -> IF has(k) THEN << <<k, Lit(kw[k])>> >> ELSE <<>>
          [] k = "enum" -> IF has(k) THEN << <<k, Lit(JArr(kw.enum))>> >> ELSE <<>>
          [] k = "items" -> IF e.cls # "Array" /\ (has("items") \/ has("itemsT"))
                            THEN << <<k, itemsTerm>> >> ELSE <<>>
          [] k = "additionalItems" ->
               IF has(k) THEN << <<k, sub(kw[k])>> >>
               ELSE IF has("additionalItemsB") THEN << <<k, Lit(JBool(kw.additionalItemsB))>> >> ELSE <<>>
          [] k = "additionalProperties" ->
               IF has(k) THEN << <<k, sub(kw[k])>> >>
               ELSE IF has("additionalPropertiesB") THEN << <<k, Lit(JBool(kw.additionalPropertiesB))>> >> ELSE <<>>
          [] k \in {"minItems", "maxItems", "minLength", "maxLength", "minProperties", "maxProperties"} ->
               IF has(k) THEN << <<k, Lit(JInt(kw[k]))>> >> ELSE <<>>
          [] k = "uniqueItems" -> IF has(k) THEN << <<k, Lit(JBool(kw[k]))>> >> ELSE <<>>
          [] k \in {"contains", "propertyNames"} -> IF has(k) THEN << <<k, sub(kw[k])>> >> ELSE <<>>
          [] k \in {"format", "pattern", "description"} -> IF has(k) THEN << <<k, Lit(JStr(kw[k]))>> >> ELSE <<>>
          [] k = "required" -> IF has(k) THEN << <<k, strs(kw.required)>> >> ELSE <<>>
          [] k = "properties" ->
               IF has(k) THEN << <<k, DictT([i \in 1..Len(kw.properties) |->
                                              << kw.properties[i].attr, PropTerm(kw.properties[i], tbl) >>])>> >>
               ELSE <<>>
          [] k = "patternProperties" -> IF has(k) THEN << <<k, pairsEl(kw[k])>> >> ELSE <<>>
          [] k = "dependencies" ->
               IF has("depsL") \/ has("depsS")
               THEN << <<k, DictT((IF has("depsL") THEN [i \in 1..Len(kw.depsL) |->
                                                      << kw.depsL[i][1], strs(kw.depsL[i][2]) >>] ELSE <<>>)
                                   \o (IF has("depsS") THEN pairsEl(kw.depsS).kws ELSE <<>>))>> >>
               ELSE <<>>
          [] OTHER -> <<>>
      RECURSIVE allArgs(_)
      allArgs(i) == IF i > Len(SigOrder) THEN <<>> ELSE arg(SigOrder[i]) \o allArgs(i + 1)
      positional == CASE e.cls = "Array" -> << itemsTerm >>
                      [] e.cls \in {"AnyOf", "OneOf", "AllOf"} -> [i \in 1..Len(e.elems) |-> sub(e.elems[i])]
                      [] e.cls = "Not" -> << sub(e.elems[1]) >>
                      [] OTHER -> <<>>
  IN Term(e.cls, positional, allArgs(1), JNull)

(***************************************************************************)
(* Evaluating a term: what the constructors build from the arguments shown *)
(* ns: <<name, class record>> pairs in scope (object classes are rebuilt   *)
(* by looking their name up, as eval() does in the caller's namespace).    *)
(***************************************************************************)
KwGet(t, k) == LET hit == {i \in 1..Len(t.kws) : t.kws[i][1] = k} IN t.kws[CHOOSE i \in hit : TRUE][2]
KwHas(t, k) == \E i \in 1..Len(t.kws) : t.kws[i][1] = k
StrsOf(l) == [i \in 1..Len(l.lit.v) |-> l.lit.v[i].v]

RECURSIVE EvalTerm(_, _)
EvalTerm(t, ns) ==
  IF t.hd = "ref" THEN
     LET hit == {i \in 1..Len(ns) : ns[i][1] = t.lit.v}
     IN IF hit = {} THEN ErrE("NameError") ELSE ns[CHOOSE i \in hit : \A j \in hit : i <= j][2]
  ELSE
  LET ev(x) == EvalTerm(x, ns)
      pairsEl(d) == [i \in 1..Len(d.kws) |-> << d.kws[i][1], ev(d.kws[i][2]) >>]
      names == {t.kws[i][1] : i \in 1..Len(t.kws)}
      g(k) == KwGet(t, k)
      isEl(x) == x.hd \notin {"lit", "list", "dict"}
      itemsSrc == IF t.hd = "Array" THEN << t.pos[1] >> ELSE IF KwHas(t, "items") THEN << g("items") >> ELSE <<>>
      (* keyword name in the element record for each argument shown *)
      recKeys ==
        (names \ {"items", "additionalItems", "additionalProperties", "dependencies"})
        \cup (IF itemsSrc # <<>> THEN {IF itemsSrc[1].hd = "list" THEN "itemsT" ELSE "items"} ELSE {})
        \cup (IF "additionalItems" \in names
              THEN {IF isEl(g("additionalItems")) THEN "additionalItems" ELSE "additionalItemsB"} ELSE {})
        \cup (IF "additionalProperties" \in names
              THEN {IF isEl(g("additionalProperties")) THEN "additionalProperties" ELSE "additionalPropertiesB"} ELSE {})
        \cup (IF "dependencies" \in names
              THEN (IF \E i \in 1..Len(g("dependencies").kws) : ~isEl(g("dependencies").kws[i][2]) THEN {"depsL"} ELSE {})
                   \cup (IF \E i \in 1..Len(g("dependencies").kws) : isEl(g("dependencies").kws[i][2]) THEN {"depsS"} ELSE {})
              ELSE {})
      val(k) ==
        CASE k \in {"default", "const", "minimum", "maximum", "exclusiveMinimum", "exclusiveMaximum",
                    "multipleOf"} -> g(k).lit
          [] k = "enum" -> g(k).lit.v
          [] k = "items" -> ev(itemsSrc[1])
          [] k = "itemsT" -> [i \in 1..Len(itemsSrc[1].pos) |-> ev(itemsSrc[1].pos[i])]
          [] k = "additionalItems" -> ev(g(k))
          [] k = "additionalItemsB" -> g("additionalItems").lit.v
          [] k = "additionalProperties" -> ev(g(k))
          [] k = "additionalPropertiesB" -> g("additionalProperties").lit.v
          [] k \in {"minItems", "maxItems", "minLength", "maxLength", "minProperties", "maxProperties"} -> g(k).lit.n
          [] k = "uniqueItems" -> g(k).lit.v
          [] k \in {"contains", "propertyNames"} -> ev(g(k))
          [] k \in {"format", "pattern", "description"} -> g(k).lit.v
          [] k = "required" -> StrsOf(g(k))
          [] k = "properties" ->
               LET d == g(k).kws IN
               [i \in 1..Len(d) |->
                  LET p == d[i][2] IN
                  [attr |-> d[i][1],
                   source |-> IF KwHas(p, "source") THEN KwGet(p, "source").lit.v ELSE d[i][1],
                   required |-> KwHas(p, "required") /\ KwGet(p, "required").lit.v,
                   elem |-> ev(p.pos[1])]]
          [] k = "patternProperties" -> pairsEl(g(k))
          [] k = "depsL" -> LET d == SelectSeq(g("dependencies").kws, LAMBDA q : ~isEl(q[2]))
                            IN [i \in 1..Len(d) |-> << d[i][1], StrsOf(d[i][2]) >>]
          [] k = "depsS" -> LET d == SelectSeq(g("dependencies").kws, LAMBDA q : isEl(q[2]))
                            IN [i \in 1..Len(d) |-> << d[i][1], ev(d[i][2]) >>]
          [] OTHER -> JNull
      kwrec == [k \in recKeys |-> val(k)]
  IN CASE t.hd \in {"AnyOf", "OneOf", "AllOf"} -> MkComp(t.hd, [i \in 1..Len(t.pos) |-> ev(t.pos[i])], kwrec)
       [] t.hd = "Not" -> MkComp("Not", << ev(t.pos[1]) >>, kwrec)
       [] OTHER -> Mk(t.hd, kwrec)

(* object classes in scope for the evaluation: every class of the tree, by its table name *)
Namespace(e, tbl) ==
  LET cs == (IF e.cls = "Object" THEN <<e>> ELSE <<>>) \o ClassesBelow(e, 12)
  IN [i \in 1..Len(cs) |-> << NameIn(tbl, cs[i]), cs[i] >>]

(* design-level C18: evaluating the representation rebuilds the element *)
ReprRebuilds(e, tbl) == EvalTerm(ReprOf(e, tbl), Namespace(e, tbl)) = e

(* a term never shows a keyword twice and shows keywords in signature order *)
RECURSIVE TermWellFormed(_)
TermWellFormed(t) ==
  /\ \A i, j \in 1..Len(t.kws) : i # j => t.kws[i][1] # t.kws[j][1]
  /\ \A i \in 1..Len(t.pos) : TermWellFormed(t.pos[i])
  /\ \A i \in 1..Len(t.kws) : TermWellFormed(t.kws[i][2])
=============================================================================
