------------------------------ MODULE Universe ------------------------------
(***************************************************************************)
(* The value universe every document state is evaluated against.  It is    *)
(* built from the same atoms as the keyword arguments of DocBuilder so     *)
(* that each keyword's boundary is hit from both sides, with bool/number   *)
(* look-alikes at depth 0, 1 and 2.                                        *)
(***************************************************************************)
EXTENDS JsonValue

LOCAL O1(k1, v1)         == JObj(<< <<k1, v1>> >>)
LOCAL O2(k1, v1, k2, v2) == JObj(<< <<k1, v1>>, <<k2, v2>> >>)
LOCAL A1(x)       == JArr(<<x>>)
LOCAL A2(x, y)    == JArr(<<x, y>>)
LOCAL A3(x, y, z) == JArr(<<x, y, z>>)

Values == <<
  JNull, JBool(TRUE), JBool(FALSE),
  JInt(0), JInt(1), JInt(2), JInt(3), JInt(-1), JFlt(1, 1), JFlt(3, 2), JFlt(0, 1),
  JFlt(1, 2), JInt(4),
  JStr(""), JStr("a"), JStr("ab"), JStr("b"), JStr("abc"),
  JStr("1990-12-31T15:59:59Z"),
  JArr(<<>>), A1(JInt(1)), A2(JInt(1), JInt(1)), A2(JInt(1), JFlt(1, 1)),
  A2(JInt(1), JBool(TRUE)), A2(JInt(0), JBool(FALSE)), A2(JInt(1), JStr("a")),
  A3(JInt(1), JInt(2), JInt(3)), A1(JBool(TRUE)), A1(JStr("a")),
  A2(A1(JInt(1)), A1(JBool(TRUE))),
  A2(O1("a", JInt(1)), O1("a", JBool(TRUE))),
  A1(O1("a", JInt(1))), A2(JStr("a"), JStr("a")), A1(JNull),
  (* containers that a careless canonical form confuses: {} / [], an object / its list of pairs *)
  A2(JObj(<<>>), JArr(<<>>)), A2(O1("a", JInt(1)), A1(A2(JStr("a"), JInt(1)))),
  (* the empty string as a member name, holding an array *)
  O1("", A1(JInt(1))),
  JObj(<<>>), O1("a", JInt(1)), O1("a", JStr("x")), O1("a", JBool(TRUE)),
  O2("a", JInt(1), "b", JInt(2)), O1("b", JInt(1)), O1("ab", JInt(1)),
  O1("a", O1("a", JInt(1))), O1("class", JInt(1)), O2("a", JStr("a"), "class", JStr("b")),
  O1("a", A1(JBool(TRUE))), O1("a", JNull), O2("b", JInt(2), "a", JInt(1)),
  O1("c", JInt(1))
>>

NValues == Len(Values)
=============================================================================
