------------------------------- MODULE Formats -------------------------------
(***************************************************************************)
(* C16 -- format checking consults exactly the registered checker.         *)
(*                                                                         *)
(* Three parts:                                                            *)
(*  1. IMPLEMENTATION MODEL, in the shape of the code                      *)
(*       statham/schema/validation/format.py   _FormatString               *)
(*           .register(name)(checker)   -> Register(n, c)   (replaces)     *)
(*           .__call__(name, value)     -> Lookup(reg, n, s)               *)
(*       statham/schema/validation/string.py   Format                      *)
(*           types = (str,) guard       -> FormatValidator(reg, n, v)      *)
(*       Element.__call__ (type validator first, then the others)          *)
(*                                      -> Call(reg, cls, n, v)            *)
(*     as a state machine over `registry` with a history variable `hist`   *)
(*     kept only for the export.                                           *)
(*  2. REFERENCE PREDICATE R_C16 over histories, stated declaratively (the *)
(*     checker in force at step i is the one of the LAST register event of *)
(*     that name before i) -- it never mentions the model's `registry`.    *)
(*  3. (module FormatsGen) GENERATORS for the built-in formats and the     *)
(*     requirement R_C16_builtin: every generated string is accepted.      *)
(***************************************************************************)
EXTENDS FormatsGen

(***************************************************************************)
(* Values.  One record shape [k, s]: k is the JSON kind, s the text of a   *)
(* string value (for the other kinds s only names the concrete value the   *)
(* harness uses: 1, None, ["ab"], {"ab": 1}, True, 1.5).                   *)
(***************************************************************************)
StrV(s) == [k |-> "str", s |-> s]
IntV    == [k |-> "int",  s |-> "1"]
NullV   == [k |-> "null", s |-> ""]
ArrV    == [k |-> "arr",  s |-> "ab"]
ObjV    == [k |-> "obj",  s |-> "ab"]
BoolV   == [k |-> "bool", s |-> "true"]
NumV    == [k |-> "num",  s |-> "1.5"]
NoValue == [k |-> "none", s |-> ""]
IsStr(v) == v.k = "str"

NilUuid == "00000000-0000-0000-0000-000000000000"

(***************************************************************************)
(* Checkers: abstract predicates with known truth tables on strings.       *)
(*             ""   "a"  "ab"  "abc"  NilUuid                              *)
(* AlwaysTrue   T    T    T     T      T                                   *)
(* AlwaysFalse  F    F    F     F      F                                   *)
(* IsAB         F    F    T     F      F                                   *)
(* EvenLen      T    F    T     F      T                                   *)
(* IsUuid       F    F    F     F      T     (the built-in, on this set)   *)
(***************************************************************************)
AllCheckers == <<"AlwaysTrue", "AlwaysFalse", "IsAB", "EvenLen">>
Truth(c, s) ==
  CASE c = "AlwaysTrue"  -> TRUE
    [] c = "AlwaysFalse" -> FALSE
    [] c = "IsAB"        -> s = "ab"
    [] c = "EvenLen"     -> Len(s) % 2 = 0
    [] c = "IsUuid"      -> s = NilUuid

(***************************************************************************)
(* 1. Implementation model                                                 *)
(***************************************************************************)
EmptyReg == [x \in {} |-> "-"]
Put(reg, n, c) == [x \in (DOMAIN reg) \cup {n} |-> IF x = n THEN c ELSE reg[x]]
RegOf(pairs) == [x \in {pairs[j][1] : j \in 1..Len(pairs)} |->
                   LET j == CHOOSE j \in 1..Len(pairs) : pairs[j][1] = x IN pairs[j][2]]

(* _FormatString.__call__(format_string, value) *)
Lookup(reg, n, s) ==
  IF n \notin DOMAIN reg
  THEN [verdict |-> TRUE, warned |-> TRUE]                 \* warn and accept
  ELSE [verdict |-> Truth(reg[n], s), warned |-> FALSE]

(* Format.__call__: `types = (str,)`: other values return before any lookup *)
FormatValidator(reg, n, v) ==
  IF ~IsStr(v) THEN [verdict |-> TRUE, warned |-> FALSE] ELSE Lookup(reg, n, v.s)

(* Element.__call__ of String(format=n) / Element(format=n): the type      *)
(* validator runs first and its failure ends the call                      *)
Classes == <<"String", "Element">>
TypeOK(cls, v) == cls = "Element" \/ IsStr(v)
Base(cls, v) == IF TypeOK(cls, v) THEN "ok" ELSE "reject"      \* same class without format=
Call(reg, cls, n, v) ==
  IF ~TypeOK(cls, v) THEN [kind |-> "reject", warned |-> FALSE]
  ELSE LET f == FormatValidator(reg, n, v)
       IN [kind |-> IF f.verdict THEN "ok" ELSE "reject", warned |-> f.warned]

(* events of the history (one record shape) *)
RegEv(n, c) == [op |-> "register", n |-> n, c |-> c, v |-> NoValue, obs |-> <<>>]
ObsOf(reg, cls, n, v) ==
  LET o == Call(reg, cls, n, v)
  IN [cls |-> cls, base |-> Base(cls, v), kind |-> o.kind, warned |-> o.warned]
ChkEv(reg, n, v) ==
  [op |-> "check", n |-> n, c |-> "-", v |-> v,
   obs |-> [j \in 1..Len(Classes) |-> ObsOf(reg, Classes[j], n, v)]]

(* the state machine: registry = format name -> checker id; hist = the     *)
(* events so far with the outcomes (history variable, for the export only).*)
(* A Check step is the pair of calls String(format=n)(v),                  *)
(* Element(format=n)(v) made in the same registry state.                   *)
VARIABLES registry, hist
Register(n, c) == registry' = Put(registry, n, c) /\ hist' = Append(hist, RegEv(n, c))
Check(n, v)    == registry' = registry /\ hist' = Append(hist, ChkEv(registry, n, v))

(***************************************************************************)
(* 2. Reference predicate                                                  *)
(***************************************************************************)
Max(S) == CHOOSE x \in S : \A y \in S : y <= x

(* the checker in force for name n just before position i of history h     *)
(* started from registry `init`: <<registered?, checker>>                  *)
InForce(init, h, i, n) ==
  LET regs == {j \in 1..(i - 1) : h[j].op = "register" /\ h[j].n = n}
  IN IF regs # {} THEN <<TRUE, h[Max(regs)].c>>
     ELSE IF n \in DOMAIN init THEN <<TRUE, init[n]>>
     ELSE <<FALSE, "-">>

(* one observed call: cur = <<registered?, checker>> in force,             *)
(* base = verdict of the same element class WITHOUT format=                *)
(*  - a string is rejected on account of the format exactly when a checker *)
(*    is registered and returns false; everything else keeps the verdict   *)
(*    it has without the format (so non-strings and unregistered names     *)
(*    never reject);                                                       *)
(*  - a string checked under an unregistered name produces a warning;      *)
(*  - a warning is produced only for an unregistered name.                 *)
FormatRejects(cur, v) == IsStr(v) /\ cur[1] /\ ~Truth(cur[2], v.s)
C16Verdict(cur, v, base, kind) ==
  base \in {"ok", "reject"} =>
    kind = IF base = "ok" /\ ~FormatRejects(cur, v) THEN "ok" ELSE "reject"
C16WarnDue(cur, v, base, warned) == (IsStr(v) /\ ~cur[1] /\ base = "ok") => warned
C16WarnOnly(cur, warned) == warned => ~cur[1]
R_C16_obs(cur, v, o) ==
  /\ C16Verdict(cur, v, o.base, o.kind)
  /\ C16WarnDue(cur, v, o.base, o.warned)
  /\ C16WarnOnly(cur, o.warned)
FailedClause(cur, v, o) ==
  IF ~C16Verdict(cur, v, o.base, o.kind) THEN "verdict"
  ELSE IF ~C16WarnDue(cur, v, o.base, o.warned) THEN "warning-missing"
  ELSE "warning-spurious"

R_C16_step(init, h, i) ==
  h[i].op = "check" =>
    \A j \in 1..Len(h[i].obs) : R_C16_obs(InForce(init, h, i, h[i].n), h[i].v, h[i].obs[j])
R_C16(init, h) == \A i \in 1..Len(h) : R_C16_step(init, h, i)
=============================================================================
