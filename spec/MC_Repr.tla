-------------------------------- MODULE MC_Repr --------------------------------
(***************************************************************************)
(* Bounded instance for the representation model (C18 at design level):    *)
(* the same document builder as MC_Doc / MC_Ser; in every state TLC        *)
(* evaluates, on the MODEL,                                                *)
(*   T = ReprOf(Parse(doc))          the text repr() is specified to show  *)
(*   ReprRebuilds: EvalTerm(T) = Parse(doc)                                *)
(* for the root and for every element below it, and exports T so that the  *)
(* real repr() text (read back with Python's ast) can be compared with it. *)
(***************************************************************************)
EXTENDS DocSeeds, Repr, Json

LOCAL InternOrderKV == [k |-> 0, v |-> 0]

CONSTANTS WithUnsupported, SeedLevels
VARIABLES doc, budget
vars == <<doc, budget>>
Init == doc = Empty /\ budget = MaxSize
Spend == budget > 0 /\ budget' = budget - 1
AddLeaf == Spend /\ doc' \in {T \in LeafExt(doc) : LeafOK(T)}
AddSub  == Spend /\ MaxDepth > 0 /\ doc' \in NewSubExt(doc)
AddDeep == Spend /\ MaxDepth > 0 /\ doc' \in Ext(doc, MaxDepth) \ (LeafExt(doc) \cup NewSubExt(doc))
Next == AddLeaf \/ AddSub \/ AddDeep
Spec == Init /\ [][Next]_vars
InitSeeds == (doc \in Seeds \cup (IF WithUnsupported THEN SeedsUns ELSE {}) /\ budget = SeedLevels)
             \/ (doc \in Seeds0 /\ budget = 0)
SeedSpec == InitSeeds /\ [][Next]_vars

(* every element of the tree (the root first), as the harness walks the real tree *)
RECURSIVE AllBelow(_, _)
AllBelow(e, fuel) ==
  IF fuel = 0 THEN <<>>
  ELSE LET kids == KwElems(e.kw) \o e.elems
           RECURSIVE each(_)
           each(i) == IF i > Len(kids) THEN <<>>
                      ELSE <<kids[i]>> \o AllBelow(kids[i], fuel - 1) \o each(i + 1)
       IN each(1)

Export ==
  LET e == Parse(doc)
      ok == ~IsErr(e)
      tbl == ClassTable(doc)
      t == IF ok THEN ReprOf(e, tbl) ELSE Lit(JNull)
      all == IF ok THEN <<e>> \o AllBelow(e, 12) ELSE <<>>
      m18 == ok /\ \E i \in 1..Len(all) :
                     \/ ~TermWellFormed(ReprOf(all[i], tbl))
                     \/ EvalTerm(ReprOf(all[i], tbl), Namespace(e, tbl)) # all[i]
      ns == IF ok THEN Namespace(e, tbl) ELSE <<>>
      (* the declared properties of every class in scope, as repr(dict(cls.properties)) shows them *)
      classes == [i \in 1..Len(ns) |->
                    << ns[i][1],
                       DictT(IF "properties" \in DOMAIN ns[i][2].kw
                             THEN [j \in 1..Len(ns[i][2].kw.properties) |->
                                     << ns[i][2].kw.properties[j].attr, PropTerm(ns[i][2].kw.properties[j], tbl) >>]
                             ELSE <<>>) >>]
  IN PrintT(ToJson([doc |-> doc, ok |-> ok, term |-> t, classes |-> classes, m18 |-> m18, n |-> Len(all)]))
Inv == Export
=============================================================================
