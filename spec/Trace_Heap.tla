------------------------------ MODULE Trace_Heap ------------------------------
(***************************************************************************)
(* Trace validation for the heap family (C08, C13, C15).  Each event is    *)
(* the LAST step of one history executed on real objects:                  *)
(*   [id, op, x, arg, pre, post,            heap projections before/after  *)
(*    out, fresh, again,                    outcome; outcome on a freshly  *)
(*                                          built object with the same     *)
(*                                          configuration; outcome of the  *)
(*                                          repeated call                  *)
(*    flags]                                observables compared by the    *)
(*                                          recorder (repr/JSON/Python     *)
(*                                          text, input value, ==)         *)
(* The step must be a step of Lifecycle: reconfiguration steps change the  *)
(* projected heap exactly as the specification's action does; validation   *)
(* steps change nothing and agree with a fresh object.                     *)
(***************************************************************************)
EXTENDS Lifecycle, PropsElem, TraceData, Json

(* TLC orders record fields by the order in which their names were first seen: the tag
   field k of JSON values must be met before v (heterogeneous values are told apart by k) *)
LOCAL InternOrderKV == [k |-> 0, v |-> 0]

VARIABLE i
Init == i = 0
Next == i < Len(Events) /\ i' = i + 1
Spec == Init /\ [][Next]_i

HeapSame(h1, h2) == \A x \in DOMAIN h1 : ElemSame(h1[x], h2[x])
SameOutcome(a, b) == a.kind = b.kind /\ (a.kind = "ok" => ResEq(a.out, b.out))

Expected(e) ==      \* the specification's action applied to the recorded pre-state
  CASE e.op = "set"       -> [e.pre EXCEPT ![e.x] = SetKw(@, e.arg[1], e.arg[2])]
    [] e.op = "clear"     -> [e.pre EXCEPT ![e.x] = DelKw(@, e.arg[1])]
    [] e.op \in {"putprop", "updateprop"} -> [e.pre EXCEPT ![e.x] = PutProp(@, e.arg)]
    [] e.op = "delprop"   -> [e.pre EXCEPT ![e.x] = RemoveProp(@, e.arg[1])]
    [] e.op = "togglereq" -> [e.pre EXCEPT ![e.x] = ToggleRequired(@, e.arg[1])]
    [] e.op = "moveprop"  -> [e.pre EXCEPT ![e.x] = MoveProp(@, e.arg[1], e.arg[2])]
    [] e.op = "setpropdefault" -> [e.pre EXCEPT ![e.x] = SetPropDefault(@, e.arg[1], e.arg[2])]
    [] e.op = "setelems"  -> [e.pre EXCEPT ![e.x] = [@ EXCEPT !.elems = e.arg]]
    [] OTHER -> e.pre

(* one clause name per failed part; "ok" otherwise.  Prefix = property.     *)
Clauses(e) ==
  LET val == e.op = "validate"
      f == e.flags
  IN  (IF val /\ ~HeapSame(e.pre, e.post) THEN {"C08:tree-changed"} ELSE {})
 \cup (IF val /\ ~f.inputSame THEN {"C08:input-changed"} ELSE {})
 \cup (IF val /\ ~(f.reprSame /\ f.jsonSame /\ f.pySame) THEN {"C08:serialization-changed"} ELSE {})
 \cup (IF val /\ ~(f.eqFreshBefore => f.eqFreshAfter) THEN {"C08:no-longer-equals-fresh-copy"} ELSE {})
 \cup (IF val /\ ~SameOutcome(e.out, e.again) THEN {"C08:not-repeatable"} ELSE {})
 (* nothing but validation calls came before: the outcome must be that of untouched objects *)
 \cup (IF val /\ e.pure /\ ~SameOutcome(e.out, e.freshspec)
       THEN {"C08:outcome-depends-on-earlier-validations"} ELSE {})
 \cup (IF val /\ ~SameOutcome(e.out, e.fresh) THEN {"C13:differs-from-fresh-element"} ELSE {})
 \cup (IF val /\ ~SameOutcome(e.out, e.freshspec)
       THEN {"C13:differs-from-fresh-element-of-the-specified-configuration"} ELSE {})
 \cup (IF ~val /\ ~HeapSame(Expected(e), e.post) THEN {"C13:reconfiguration-not-applied"} ELSE {})
 \cup (IF e.x \in {"D", "F"} /\ ~ElemSame(e.pre["C"], e.post["C"]) THEN {"C15:parent-changed"} ELSE {})
 \cup (IF e.x \in {"D", "F"} /\ ~f.parentObsSame THEN {"C15:parent-behaviour-changed"} ELSE {})
 \cup (IF e.x \in {"D", "F"} /\ val /\ ~f.instanceOfParent THEN {"C15:not-instance-of-parent"} ELSE {})
 \cup (IF e.x \in {"D", "F"} /\ val /\ ~SameOutcome(e.out, e.flat) THEN {"C15:child-differs-from-flat-class"} ELSE {})
 \cup (IF e.x \in {"D", "F"} /\ val /\ ~f.flatJsonSame THEN {"C15:child-serializes-unlike-flat-class"} ELSE {})

(* the subclass event: the child's configuration is the merge *)
SubclassOK(e) == ElemSame(e.child, Merge(e.parent, e.child.name, e.dkw, e.dprops))

(* a whole batch of validation calls (the value universe, each value twice) on one   *)
(* parsed document of the document family: the element tree must be unchanged        *)
Sweep(e) ==
      (IF ~ElemSame(e.pre, e.post) THEN {"C08:tree-changed"} ELSE {})
 \cup (IF ~(e.flags.reprSame /\ e.flags.jsonSame /\ e.flags.pySame) THEN {"C08:serialization-changed"} ELSE {})
 \cup (IF ~e.flags.snapSame THEN {"C08:attributes-rewritten"} ELSE {})
 \cup (IF ~e.flags.inputSame THEN {"C08:input-changed"} ELSE {})
 \cup (IF ~e.flags.repeatSame THEN {"C08:not-repeatable"} ELSE {})
 \cup (IF ~(e.flags.eqFreshBefore => e.flags.eqFreshAfter) THEN {"C08:no-longer-equals-fresh-copy"} ELSE {})

Judge(e) == IF e.op = "subclass" THEN (IF SubclassOK(e) THEN {} ELSE {"C15:merge-wrong"})
            ELSE IF e.op = "sweep" THEN Sweep(e)
            ELSE Clauses(e)
Inv == i = 0 \/ Judge(Events[i]) = {}
         \/ PrintT(ToJson([reject |-> Events[i].id, clauses |-> Judge(Events[i])]))
Consumed == TLCGet("stats").diameter = Len(Events) + 1
=============================================================================
