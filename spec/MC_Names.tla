------------------------------- MODULE MC_Names -------------------------------
(***************************************************************************)
(* Bounded instance of the name family (C12).  One builder state machine,  *)
(* four kinds of artefact, each grown one step at a time from the empty    *)
(* state:                                                                  *)
(*   name   a property name = sequence of atoms (AppendChar), every        *)
(*          sequence over NameAlphabet up to WideLen and every sequence    *)
(*          of class representatives up to MaxLen, plus the seeds;         *)
(*   sib    a set of sibling property names of one object (MakeSibs):      *)
(*          from a name n, every name m of the pair universe that the      *)
(*          model maps to the same attribute and that is a MINIMAL such    *)
(*          pair (not decomposable into shorter colliding/equal parts),    *)
(*          as properties [n, m], as property n + required m, and both;    *)
(*          plus all pairs of names of length <= 1, plus the seeds;        *)
(*   title  an object title = sequence of title tokens (AppendTok) put on  *)
(*          an object that sits next to a property whose schema makes the  *)
(*          generated module use a given library name (SetUse);            *)
(*   doc    a document of titled objects at up to MaxSlots positions       *)
(*          (AddSlot), titles chosen to share or not share a class name.   *)
(* In every state both layers are evaluated: the implementation model      *)
(* (NameClasses) predicts what the code produces, the reference predicate  *)
(* (PropsNames) judges the prediction; one JSON line per state is printed  *)
(* for the replay on the real code.  Injectivity is decided by TLC on all  *)
(* pairs of the pair universe: `coll` lists every other name with the same *)
(* mapped attribute.                                                       *)
(***************************************************************************)
EXTENDS PropsNames, Json, SequencesExt

CONSTANTS MaxLen,        \* names: atoms per name (over one representative atom per class)
          WideLen,       \* names: atoms per name over the wide alphabet (members, words)
          PairLen,       \* pair universe: atoms per name
          Rich,          \* larger alphabets
          MaxTitle,      \* titles: tokens per title
          UseLen,        \* titles of up to UseLen tokens are combined with every library name
          MaxSlots       \* documents: objects besides the root

(* The variables are called v...: an operator PARAMETER that has the name   *)
(* of a variable (NameClasses uses name, slots, ...) makes TLC treat every  *)
(* constant definition built on that operator as state-dependent, and the  *)
(* tables below would be recomputed in every state.                        *)
VARIABLES vName, vSib, vTitle, vUse, vRoot, vSlots
vars == <<vName, vSib, vTitle, vUse, vRoot, vSlots>>

None == [names |-> <<>>, req |-> <<>>]

(***************************************************************************)
(* alphabets                                                               *)
(***************************************************************************)
W(s) == At("al", s)
ClassReps == {Rep(c) : c \in ClassIds}
PairAlphabet ==
  {Rep("al"), Rep("dg"), US, HY, SP, Rep("ows"), At("ows", "nl"), Rep("sym"), Rep("hsym"),
   Rep("un"), At("un", "u2"), Rep("nal"), Rep("nx"),
   W("dollar"), W("sign"), W("unknown"), W("class"), W("blank")}
  \cup (IF Rich THEN {Rep("cm"), Rep("nd"), W("dict")} ELSE {})
(* every name of the pair universe is also explored as a name              *)
NameAlphabet ==
  ClassReps \cup PairAlphabet
  \cup (IF Rich THEN {W("dict"), W("init"), W("None"), At("sym", ","), At("hsym", "plusminus"),
                      At("cm", "middot")}
        ELSE {})

(* names longer than MaxLen that reach the reserved words                  *)
SeedNames ==
  { <<US, US, W("init"), US, US>>, <<SP, SP, W("init"), SP, HY>>, <<US, US, W("init")>>,
    <<US, W("dict")>>, <<SP, W("dict")>>, <<Rep("ows"), W("dict")>>,
    <<US, US, W("dict"), US, US>>, <<US, W("dict"), US>>,
    <<W("class"), US>>, <<W("None")>>, <<W("none")>>, <<W("blank")>>, <<W("unknown")>>,
    <<Rep("al"), Rep("sym"), US, Rep("al")>>, <<Rep("al"), US, Rep("sym"), Rep("al")>>,
    <<Rep("al"), Rep("hsym"), Rep("dg"), Rep("un"), Rep("nal"), Rep("cm"), SP, Rep("nx")>>,
    <<At("hsym", "nbsp")>>, <<At("hsym", "laquo"), Rep("al")>>, <<At("sym", "euro"), Rep("dg")>>,
    <<At("hcm", "vs17")>>, <<Rep("al"), At("hcm", "vs17")>> }

RECURSIVE SeqsUpTo(_, _)
SeqsUpTo(A, k) ==
  IF k = 0 THEN {<<>>}
  ELSE LET P == SeqsUpTo(A, k - 1)
       IN P \cup {Append(p, a) : p \in {q \in P : Len(q) = k - 1}, a \in A}

PairNames == SeqsUpTo(PairAlphabet, PairLen)
(* explicit tables (TLCEval forces TLC to tabulate the lazy functions once) *)
PairSeq == TLCEval(SetToSeq(PairNames))
NPairs  == Len(PairSeq)
PairOutSeq == TLCEval([i \in 1..NPairs |-> FlatAttr(PairSeq[i])])
PairOut == TLCEval([n \in PairNames |-> FlatAttr(n)])

Colliders(n) ==
  LET f == FlatAttr(n)
  IN {PairSeq[i] : i \in {j \in 1..NPairs : PairOutSeq[j] = f /\ PairSeq[j] # n}}
Collide(a, b) == a # b /\ PairOut[a] = PairOut[b]
(* a colliding pair is DECOMPOSABLE when both names can be cut in two so   *)
(* that the left parts and the right parts each are equal or collide: it   *)
(* then follows from shorter collisions of the universe.  The minimal      *)
(* (atomic) pairs are the witnesses reported as vRoot causes.               *)
SameOrCollide(a, b) == a = b \/ PairOut[a] = PairOut[b]
Decomposable(a, b) ==
  \E i \in 0..Len(a), j \in 0..Len(b) :
     /\ i + j > 0 /\ i + j < Len(a) + Len(b)
     /\ SameOrCollide(SubSeq(a, 1, i), SubSeq(b, 1, j))
     /\ SameOrCollide(SubSeq(a, i + 1, Len(a)), SubSeq(b, j + 1, Len(b)))
MinColliders(n) == {m \in Colliders(n) : ~Decomposable(n, m)}

(***************************************************************************)
(* vTitle tokens; lower-case spellings format to the library's names        *)
(***************************************************************************)
TitleAlphabet ==
  {W("a"), W("B"), At("dg", "1"), SP, US, Rep("nal"), Rep("sym"),
   Rep("nx"), Rep("nd"),     \* alphanumeric for str.isalnum / \w, yet no identifier characters (superscripts, other digits)
   W("none"), W("true"), W("string"), W("String"), W("anyOf"), W("object"), W("any"),
   W("property"), W("not")}
  \cup (IF Rich THEN {W("false"), W("list"), W("union"), W("maybe"), W("element"), W("nothing"),
                      W("integer"), W("number"), W("boolean"), W("null"), W("array"),
                      W("oneOf"), W("allOf"), W("all"), W("of"), HY, W("outer")} ELSE {})

(* "A" and "a" format to the same class name; "A_1" is what the de-duplication *)
(* suffix looks like (the formatter drops the "_1": it must never survive)    *)
BaseTitles == {<<W("A")>>, <<W("a")>>, <<W("A"), US, At("dg", "1")>>}
SlotTitles == BaseTitles \cup (IF Rich THEN {<<W("B")>>, <<W("A"), SP, At("dg", "1")>>} ELSE {})
RootTitles == {<<W("T")>>, <<W("A")>>}
OuterTitle == <<W("Outer")>>

(***************************************************************************)
(* state machine                                                           *)
(***************************************************************************)
(* sibling sets outside the pair universe: letters that differ as strings   *)
(* but are the same identifier for the Python compiler (NFKC)               *)
SibSeeds ==
  { [names |-> << <<At("nal", "micro")>>, <<At("nal", "mu")>> >>, req |-> <<>>],
    [names |-> << <<Rep("al"), At("nal", "micro")>>, <<Rep("al"), At("nal", "mu")>> >>,
     req |-> << <<Rep("al"), At("nal", "mu")>> >>] }

Init == /\ \/ vName \in {<<>>} \cup SeedNames /\ vSib = None
           \/ vName = <<>> /\ vSib \in SibSeeds
        /\ vTitle = <<>> /\ vUse = "none" /\ vRoot = <<>> /\ vSlots = <<>>

InNames  == vSib = None /\ vTitle = <<>> /\ vUse = "none" /\ vSlots = <<>>
InTitles == vName = <<>> /\ vSib = None /\ vSlots = <<>>
InDocs   == vName = <<>> /\ vSib = None /\ vTitle = <<>> /\ vUse = "none"

AppendChar ==
  /\ InNames /\ Len(vName) < MaxLen
  /\ \E a \in (IF Len(vName) < WideLen THEN NameAlphabet
               ELSE IF \A i \in 1..Len(vName) : vName[i] \in ClassReps THEN ClassReps ELSE {}) :
        vName' = Append(vName, a)
  /\ UNCHANGED <<vSib, vTitle, vUse, vRoot, vSlots>>

SibCases(n) ==
  LET ms == (IF Len(n) <= 2 THEN MinColliders(n) ELSE {})
            \cup {m \in PairNames : Len(m) <= 1 /\ Len(n) <= 1 /\ m # n}
  IN UNION {{ [names |-> <<n, m>>, req |-> <<>>],
              [names |-> <<n>>, req |-> <<m>>],
              [names |-> <<n, m>>, req |-> <<n, m>>] } : m \in ms}
MakeSibs ==
  /\ InNames /\ vName \in PairNames
  /\ vSib' \in SibCases(vName)
  /\ UNCHANGED <<vName, vTitle, vUse, vRoot, vSlots>>

AppendTok ==
  /\ InTitles /\ vUse = "none" /\ Len(vTitle) < MaxTitle
  /\ \E a \in TitleAlphabet : vTitle' = Append(vTitle, a)
  /\ UNCHANGED <<vName, vSib, vUse, vRoot, vSlots>>
SetUse ==
  /\ InTitles /\ Len(vTitle) > 0 /\ Len(vTitle) <= UseLen /\ vUse = "none"
  /\ vUse' \in UseKinds
  /\ UNCHANGED <<vName, vSib, vTitle, vRoot, vSlots>>

SlotChoices == [pos : Positions, title : SlotTitles, shape : {1, 2}]
AddSlot ==
  /\ InDocs /\ Len(vSlots) < MaxSlots
  /\ vRoot' \in (IF vSlots = <<>> THEN RootTitles ELSE {vRoot})
  /\ \E sl \in SlotChoices :
        /\ sl.pos = "addl" => \A j \in 1..Len(vSlots) : vSlots[j].pos # "addl"
        /\ vSlots = <<>> => sl.shape = 1          \* the two shapes are symmetric
        /\ Len(vSlots) = 2 =>                     \* a third object always shares the title
              sl.title = <<W("A")>> /\ \A j \in 1..2 : vSlots[j].title \in BaseTitles
        /\ vSlots' = Append(vSlots, sl)
  /\ UNCHANGED <<vName, vSib, vTitle, vUse>>

Next == AppendChar \/ MakeSibs \/ AppendTok \/ SetUse \/ AddSlot
Spec == Init /\ [][Next]_vars

(***************************************************************************)
(* exports                                                                 *)
(***************************************************************************)
AsciiVocab(n) == \A i \in 1..Len(n) : IsAsciiAtom(n[i])

ExportName ==
  LET items == AttrNameC(vName)
      atoms == ItemAtoms(items)
      cs    == [j \in 1..Len(items) |-> items[j].c]
      flat  == FlatItems(items)
      text  == IF \A j \in 1..Len(atoms) : IsAsciiAtom(atoms[j]) THEN flat ELSE ""
      paired == vName \in PairNames
  IN [t |-> "name", name |-> vName, out |-> items, flat |-> flat, cs |-> cs, text |-> text,
      srcok |-> Len(vName) > 0,     \* an empty JSON name is replaced by the attribute name
      ok |-> R_C12_attr(cs, text, Len(vName) > 0), clause |-> AttrClause(cs, text, Len(vName) > 0),
      bad |-> BadClasses(cs),
      xcheck |-> (AsciiVocab(vName) => AttrName(FlatSeq(vName)) = flat),
      paired |-> paired,
      coll |-> IF paired THEN {[m |-> m, sig |-> Sig(vName, m)] : m \in Colliders(vName)} ELSE {}]

ExportSib ==
  LET props == ObjectPropsC(vSib.names, vSib.req)
      first  == vSib.names[1]
      second == IF Len(vSib.names) > 1 THEN vSib.names[2] ELSE vSib.req[1]
  IN [t |-> "sib", names |-> vSib.names, req |-> vSib.req,
      sig |-> IF FlatAttr(first) = FlatAttr(second) THEN Sig(first, second) ELSE {},
      props |-> [j \in 1..Len(props) |->
                   [attr |-> props[j].attr, source |-> props[j].source,
                    required |-> props[j].required]],
      ok |-> R_C12_sib(vSib.names, vSib.req, props)]

ClassRec(cls) == [name |-> cls.name, cs |-> ClassesOfAscii(cls.name), uid |-> cls.uid]

ExportTitle ==
  LET sl  == [pos |-> "prop", title |-> vTitle, shape |-> 1]
      d   == ParseDocC(OuterTitle, <<sl>>)
      cls == << ClassRec(d.cls[1][2]), ClassRec(d.root) >>
      used == ImportedNames({"Object", "Property", "Maybe", "String"} \cup UsesOf(vUse),
                            {cls[1].name, cls[2].name})
  IN [t |-> "title", title |-> vTitle, use |-> vUse, flat |-> FlatTitle(vTitle),
      cname |-> d.cls[1][2].name, rname |-> d.root.name,
      clash |-> {cls[i].name : i \in {j \in 1..2 : cls[j].name \in used}},
      clause |-> ClassClause(cls[1], used),
      ok |-> R_C12_classes(cls, used)]

ExportDoc ==
  LET d == ParseDocC(vRoot, vSlots)
      reach == {d.cls[j][2].uid : j \in 1..Len(d.cls)} \cup {d.mid[j][2].uid : j \in 1..Len(d.mid)}
                 \cup {d.root.uid}
      kept == SelectSeq(d.seen, LAMBDA c : c.uid \in reach)   \* a class registered but replaced
      all == [j \in 1..Len(kept) |-> ClassRec(kept[j])]       \* by an equal one is unreachable
  IN [t |-> "doc", root |-> vRoot, slots |-> vSlots,
      cls |-> [j \in 1..Len(d.cls) |-> [slot |-> d.cls[j][1], name |-> d.cls[j][2].name,
                                        uid |-> d.cls[j][2].uid]],
      mid |-> [j \in 1..Len(d.mid) |-> [slot |-> d.mid[j][1], name |-> d.mid[j][2].name,
                                        uid |-> d.mid[j][2].uid]],
      rootcls |-> [slot |-> 0, name |-> d.root.name, uid |-> d.root.uid],
      names |-> [j \in 1..Len(all) |-> all[j].name],
      ok |-> R_C12_classes(all, GenNames)]

Export ==
  IF vSib # None THEN ExportSib
  ELSE IF vSlots # <<>> THEN ExportDoc
  ELSE IF vTitle # <<>> THEN ExportTitle
  ELSE ExportName

(* the tables of the model, printed once (empty state) so that the harness  *)
(* can validate them against the running interpreter                       *)
SeqAtoms(q) == {q[i] : i \in 1..Len(q)}
AllAtoms == NameAlphabet \cup PairAlphabet \cup TitleAlphabet \cup UNION {SeqAtoms(q) : q \in SeedNames}
            \cup {At("nal", "micro"), At("nal", "mu")}
Table ==
  [t |-> "table", classattr |-> ClassAttr, reserved |-> Reserved, keywords |-> PyKeywords,
   objdir |-> ObjectDir, gen |-> GenNames, uses |-> [k \in UseKinds |-> UsesOf(k)],
   reps |-> [c \in ClassIds |-> Rep(c)],
   atoms |-> AllAtoms,
   unames |-> {[a |-> a, uname |-> UniName(a)] :
                 a \in {b \in AllAtoms : ClassAttr[b.c].named \in {"words", "hyph", "none"}}}]
IsEmptyState == vName = <<>> /\ vSib = None /\ vTitle = <<>> /\ vSlots = <<>>

Inv == PrintT(ToJson(Export)) /\ (IsEmptyState => PrintT(ToJson(Table)))
=============================================================================
