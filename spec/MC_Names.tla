------------------------------- MODULE MC_Names -------------------------------
(***************************************************************************)
(* Bounded instance of the name family (C12).  One builder state machine,  *)
(* four kinds of artefact, each grown one step at a time from the empty    *)
(* state:                                                                  *)
(*   name   a property name = sequence of atoms (AppendChar), every        *)
(*          sequence over NameAlphabet up to MaxLen, plus the seeds;       *)
(*   sib    a set of sibling property names of one object (MakeSibs):      *)
(*          from a name n, every name m of the pair universe that the      *)
(*          model maps to the same attribute and that is a MINIMAL such    *)
(*          pair (no common first/last atom can be dropped), as            *)
(*          properties [n, m], as property n + required m, and both;       *)
(*          plus all pairs of names of length <= 1;                        *)
(*   title  an object title = sequence of title tokens (AppendTok) put on  *)
(*          an object that sits next to a property whose schema makes the  *)
(*          generated module use a given library name (SetUse);            *)
(*   doc    a document of titled objects at up to MaxSlots positions       *)
(*          (AddSlot), titles chosen to share or not share a class name.   *)
(* In every state both layers are evaluated: the implementation model      *)
(* (NameClasses) predicts what the code produces, the reference predicate  *)
(* (PropsNames) judges the prediction; one JSON line per state is printed  *)
(* for the replay on the real code.  Injectivity is decided by TLC on all  *)
(* pairs of the pair universe: `coll` lists every other name with the same *)
(* mapped attribute.                                                       *)
(***************************************************************************)
EXTENDS PropsNames, Json, SequencesExt

CONSTANTS MaxLen,        \* names: atoms per name
          PairLen,       \* pair universe: atoms per name
          Rich,          \* larger alphabets
          MaxTitle,      \* titles: tokens per title
          MaxSlots       \* documents: objects besides the root

VARIABLES name, sib, title, use, root, slots
vars == <<name, sib, title, use, root, slots>>

None == [names |-> <<>>, req |-> <<>>]

(***************************************************************************)
(* alphabets                                                               *)
(***************************************************************************)
W(s) == At("al", s)
ClassReps == {Rep(c) : c \in ClassIds}
NameAlphabet ==
  ClassReps \cup {W("class"), W("dict"), W("init")}
  \cup (IF Rich THEN {At("ows", "nl"), At("un", "u2"), W("None"), At("sym", ","),
                      At("hsym", "plusminus"), At("cm", "middot")} ELSE {})
PairAlphabet ==
  {Rep("al"), Rep("dg"), US, HY, SP, Rep("ows"), At("ows", "nl"), Rep("sym"), Rep("hsym"),
   Rep("un"), At("un", "u2"), Rep("nal"), Rep("nx"),
   W("dollar"), W("sign"), W("unknown"), W("class")}
  \cup (IF Rich THEN {W("blank"), Rep("cm"), Rep("nd"), W("dict")} ELSE {})

(* names longer than MaxLen that reach the reserved words                  *)
SeedNames ==
  { <<US, US, W("init"), US, US>>, <<SP, SP, W("init"), SP, HY>>, <<US, US, W("init")>>,
    <<US, W("dict")>>, <<SP, W("dict")>>, <<Rep("ows"), W("dict")>>,
    <<US, US, W("dict"), US, US>>, <<US, W("dict"), US>>,
    <<W("class"), US>>, <<W("None")>>, <<W("none")>>, <<W("blank")>>, <<W("unknown")>>,
    <<Rep("al"), Rep("sym"), US, Rep("al")>>, <<Rep("al"), US, Rep("sym"), Rep("al")>>,
    <<Rep("al"), Rep("hsym"), Rep("dg"), Rep("un"), Rep("nal"), Rep("cm"), SP, Rep("nx")>>,
    <<At("hsym", "nbsp")>>, <<At("hsym", "laquo"), Rep("al")>>, <<At("sym", "euro"), Rep("dg")>>,
    <<At("hcm", "vs17")>>, <<Rep("al"), At("hcm", "vs17")>> }

RECURSIVE SeqsUpTo(_, _)
SeqsUpTo(A, k) ==
  IF k = 0 THEN {<<>>}
  ELSE LET P == SeqsUpTo(A, k - 1)
       IN P \cup {Append(p, a) : p \in {q \in P : Len(q) = k - 1}, a \in A}

PairNames == SeqsUpTo(PairAlphabet, PairLen)
(* explicit tables (TLCEval forces TLC to tabulate the lazy functions once) *)
PairSeq == TLCEval(SetToSeq(PairNames))
NPairs  == Len(PairSeq)
PairOutSeq == TLCEval([i \in 1..NPairs |-> FlatAttr(PairSeq[i])])
PairOut == TLCEval([n \in PairNames |-> FlatAttr(n)])

Colliders(n) ==
  LET f == FlatAttr(n)
  IN {PairSeq[i] : i \in {j \in 1..NPairs : PairOutSeq[j] = f /\ PairSeq[j] # n}}
Collide(a, b) == a # b /\ PairOut[a] = PairOut[b]
(* a colliding pair is DECOMPOSABLE when both names can be cut in two so   *)
(* that the left parts and the right parts each are equal or collide: it   *)
(* then follows from shorter collisions of the universe.  The minimal      *)
(* (atomic) pairs are the witnesses reported as root causes.               *)
SameOrCollide(a, b) == a = b \/ PairOut[a] = PairOut[b]
Decomposable(a, b) ==
  \E i \in 0..Len(a), j \in 0..Len(b) :
     /\ i + j > 0 /\ i + j < Len(a) + Len(b)
     /\ SameOrCollide(SubSeq(a, 1, i), SubSeq(b, 1, j))
     /\ SameOrCollide(SubSeq(a, i + 1, Len(a)), SubSeq(b, j + 1, Len(b)))
MinColliders(n) == {m \in Colliders(n) : ~Decomposable(n, m)}

(***************************************************************************)
(* title tokens; lower-case spellings format to the library's names        *)
(***************************************************************************)
TitleAlphabet ==
  {W("a"), W("B"), At("dg", "1"), SP, US, Rep("nal"), Rep("sym"),
   W("none"), W("true"), W("string"), W("String"), W("anyOf"), W("object"), W("any"),
   W("property"), W("not")}
  \cup (IF Rich THEN {W("false"), W("list"), W("union"), W("maybe"), W("element"), W("nothing"),
                      W("integer"), W("number"), W("boolean"), W("null"), W("array"),
                      W("oneOf"), W("allOf"), W("all"), W("of"), HY, W("outer")} ELSE {})

SlotTitles == {<<W("A")>>, <<W("a")>>, <<W("B")>>}
              \cup (IF Rich THEN {<<W("A"), SP, At("dg", "1")>>} ELSE {})
RootTitles == {<<W("T")>>, <<W("A")>>}
OuterTitle == <<W("Outer")>>

(***************************************************************************)
(* state machine                                                           *)
(***************************************************************************)
Init == /\ name \in {<<>>} \cup SeedNames
        /\ sib = None /\ title = <<>> /\ use = "none" /\ root = <<>> /\ slots = <<>>

InNames  == sib = None /\ title = <<>> /\ use = "none" /\ slots = <<>>
InTitles == name = <<>> /\ sib = None /\ slots = <<>>
InDocs   == name = <<>> /\ sib = None /\ title = <<>> /\ use = "none"

AppendChar ==
  /\ InNames /\ Len(name) < MaxLen
  /\ \E a \in NameAlphabet : name' = Append(name, a)
  /\ UNCHANGED <<sib, title, use, root, slots>>

SibCases(n) ==
  LET ms == MinColliders(n) \cup {m \in PairNames : Len(m) <= 1 /\ Len(n) <= 1 /\ m # n}
  IN UNION {{ [names |-> <<n, m>>, req |-> <<>>],
              [names |-> <<n>>, req |-> <<m>>],
              [names |-> <<n, m>>, req |-> <<n, m>>] } : m \in ms}
MakeSibs ==
  /\ InNames /\ name \in PairNames
  /\ sib' \in SibCases(name)
  /\ UNCHANGED <<name, title, use, root, slots>>

AppendTok ==
  /\ InTitles /\ Len(title) < MaxTitle
  /\ \E a \in TitleAlphabet : title' = Append(title, a)
  /\ UNCHANGED <<name, sib, use, root, slots>>
SetUse ==
  /\ InTitles /\ Len(title) > 0 /\ use = "none"
  /\ use' \in UseKinds
  /\ UNCHANGED <<name, sib, title, root, slots>>

SlotChoices == [pos : Positions, title : SlotTitles, shape : {1, 2}]
AddSlot ==
  /\ InDocs /\ Len(slots) < MaxSlots
  /\ root' \in (IF slots = <<>> THEN RootTitles ELSE {root})
  /\ \E sl \in SlotChoices :
        /\ sl.pos = "addl" => \A j \in 1..Len(slots) : slots[j].pos # "addl"
        /\ slots' = Append(slots, sl)
  /\ UNCHANGED <<name, sib, title, use>>

Next == AppendChar \/ MakeSibs \/ AppendTok \/ SetUse \/ AddSlot
Spec == Init /\ [][Next]_vars

(***************************************************************************)
(* exports                                                                 *)
(***************************************************************************)
AsciiVocab(n) == \A i \in 1..Len(n) : IsAsciiAtom(n[i])

ExportName ==
  LET items == AttrNameC(name)
      atoms == ItemAtoms(items)
      cs    == [j \in 1..Len(items) |-> items[j].c]
      flat  == FlatItems(items)
      text  == IF \A j \in 1..Len(atoms) : IsAsciiAtom(atoms[j]) THEN flat ELSE ""
      paired == name \in PairNames
  IN [t |-> "name", name |-> name, out |-> items, flat |-> flat, cs |-> cs, text |-> text,
      ok |-> R_C12_attr(cs, text, TRUE), clause |-> AttrClause(cs, text, TRUE),
      bad |-> BadClasses(cs),
      xcheck |-> (AsciiVocab(name) => AttrName(FlatSeq(name)) = flat),
      paired |-> paired,
      coll |-> IF paired THEN Colliders(name) ELSE {},
      mincoll |-> IF paired THEN MinColliders(name) ELSE {}]

ExportSib ==
  LET props == ObjectPropsC(sib.names, sib.req)
  IN [t |-> "sib", names |-> sib.names, req |-> sib.req,
      props |-> [j \in 1..Len(props) |->
                   [attr |-> props[j].attr, source |-> props[j].source,
                    required |-> props[j].required]],
      ok |-> R_C12_sib(sib.names, sib.req, props)]

ClassRec(cls) == [name |-> cls.name, cs |-> ClassesOfAscii(cls.name), uid |-> cls.uid]

ExportTitle ==
  LET sl  == [pos |-> "prop", title |-> title, shape |-> 1]
      d   == ParseDocC(OuterTitle, <<sl>>)
      cls == << ClassRec(d.cls[1][2]), ClassRec(d.root) >>
      used == {"Object", "Property", "Maybe", "String"} \cup UsesOf(use)
  IN [t |-> "title", title |-> title, use |-> use, flat |-> FlatTitle(title),
      cname |-> d.cls[1][2].name, rname |-> d.root.name,
      clash |-> {cls[i].name : i \in {j \in 1..2 : cls[j].name \in used}},
      clause |-> ClassClause(cls[1], used),
      ok |-> R_C12_classes(cls, used)]

ExportDoc ==
  LET d == ParseDocC(root, slots)
      all == [j \in 1..Len(d.seen) |-> ClassRec(d.seen[j])]
  IN [t |-> "doc", root |-> root, slots |-> slots,
      cls |-> [j \in 1..Len(d.cls) |-> [slot |-> d.cls[j][1], name |-> d.cls[j][2].name,
                                        uid |-> d.cls[j][2].uid]],
      mid |-> [j \in 1..Len(d.mid) |-> [slot |-> d.mid[j][1], name |-> d.mid[j][2].name,
                                        uid |-> d.mid[j][2].uid]],
      rootcls |-> [slot |-> 0, name |-> d.root.name, uid |-> d.root.uid],
      names |-> [j \in 1..Len(all) |-> all[j].name],
      ok |-> R_C12_classes(all, {"Object", "Property", "Maybe", "String", "Integer",
                                 "Array", "List", "AnyOf", "Union", "Any", "Element"})]

Export ==
  IF sib # None THEN ExportSib
  ELSE IF slots # <<>> THEN ExportDoc
  ELSE IF title # <<>> THEN ExportTitle
  ELSE ExportName

Inv == PrintT(ToJson(Export))
=============================================================================
