----------------------------- MODULE JsonValue -----------------------------
(***************************************************************************)
(* Tagged JSON values, shared by the reference layer (Draft6) and by the   *)
(* implementation model (Elements, Parser, Serializers).                   *)
(*                                                                         *)
(*   [k |-> "null"]                                                        *)
(*   [k |-> "bool", v |-> BOOLEAN]                                         *)
(*   [k |-> "num",  n |-> Int, d |-> {1,2,4}, f |-> BOOLEAN]   n/d;        *)
(*                       f = "is a Python float" (1 vs 1.0)                *)
(*   [k |-> "str",  v |-> STRING]                                          *)
(*   [k |-> "arr",  v |-> Seq(value)]                                      *)
(*   [k |-> "obj",  v |-> Seq(<<key, value>>)]   insertion ordered,        *)
(*                                               keys pairwise distinct    *)
(*                                                                         *)
(* The field k sorts before every other field of the two-field variants,   *)
(* so TLC can compare / normalise heterogeneous collections of values.     *)
(* Results of calls extend this with                                       *)
(*   [k |-> "np"]                       the NotPassed marker               *)
(*   [k |-> "model", cls, v]            instance of an object class        *)
(*   [k |-> "anon",  v]                 _AnonymousObject (untyped result)  *)
(***************************************************************************)
EXTENDS Integers, Sequences, FiniteSets

JNull      == [k |-> "null"]
JBool(b)   == [k |-> "bool", v |-> b]
JInt(i)    == [k |-> "num", n |-> i, d |-> 1, f |-> FALSE]
JFlt(i, j) == [k |-> "num", n |-> i, d |-> j, f |-> TRUE]
JStr(s)    == [k |-> "str", v |-> s]
JArr(s)    == [k |-> "arr", v |-> s]
JObj(s)    == [k |-> "obj", v |-> s]
NP         == [k |-> "np"]

IsNull(x) == x.k = "null"
IsBool(x) == x.k = "bool"
IsNum(x)  == x.k = "num"
IsStr(x)  == x.k = "str"
IsArr(x)  == x.k = "arr"
IsObj(x)  == x.k = "obj"
IsNP(x)   == x.k = "np"

(* Python type tests as the library uses them (bool is never a number).    *)
IsPyInt(x)   == x.k = "num" /\ ~x.f
IsPyFloat(x) == x.k = "num" /\ x.f

(* Rational arithmetic on "num" values.                                    *)
NumLt(a, b)  == a.n * b.d <  b.n * a.d
NumLe(a, b)  == a.n * b.d <= b.n * a.d
NumEq(a, b)  == a.n * b.d =  b.n * a.d
IsWhole(a)   == a.n % a.d = 0
(* a is an integral multiple of m (m > 0)                                  *)
NumMultiple(a, m) == (a.n * m.d) % (m.n * a.d) = 0

(* Object helpers.                                                         *)
Keys(o)      == {o.v[i][1] : i \in 1..Len(o.v)}
KeySeq(o)    == [i \in 1..Len(o.v) |-> o.v[i][1]]
HasKey(o, key) == \E i \in 1..Len(o.v) : o.v[i][1] = key
Get(o, key)  == o.v[CHOOSE i \in 1..Len(o.v) : o.v[i][1] = key][2]
PairsHasKey(ps, key) == \E i \in 1..Len(ps) : ps[i][1] = key
PairsGet(ps, key)    == ps[CHOOSE i \in 1..Len(ps) : ps[i][1] = key][2]
PairsIdx(ps, key)    == CHOOSE i \in 1..Len(ps) : ps[i][1] = key
SeqRange(s)  == {s[i] : i \in 1..Len(s)}

(***************************************************************************)
(* JEq: equality of JSON values as Draft 6 defines it: 1 = 1.0, true # 1,  *)
(* deep, objects unordered.                                                *)
(***************************************************************************)
RECURSIVE JEq(_, _)
JEq(a, b) ==
  IF a.k # b.k THEN FALSE
  ELSE CASE a.k = "null" -> TRUE
         [] a.k = "np"   -> TRUE
         [] a.k = "bool" -> a.v = b.v
         [] a.k = "num"  -> NumEq(a, b)
         [] a.k = "str"  -> a.v = b.v
         [] a.k = "arr"  -> /\ Len(a.v) = Len(b.v)
                            /\ \A i \in 1..Len(a.v) : JEq(a.v[i], b.v[i])
         [] a.k = "obj"  -> /\ Len(a.v) = Len(b.v)
                            /\ \A i \in 1..Len(a.v) :
                                 \E j \in 1..Len(b.v) :
                                    /\ a.v[i][1] = b.v[j][1]
                                    /\ JEq(a.v[i][2], b.v[j][2])

(***************************************************************************)
(* JSame: JEq and additionally the same Python type at every depth         *)
(* (1 and 1.0 differ).  "Unaltered" in C04/C07 means JSame.                *)
(***************************************************************************)
RECURSIVE JSame(_, _)
JSame(a, b) ==
  IF a.k # b.k THEN FALSE
  ELSE CASE a.k = "null" -> TRUE
         [] a.k = "np"   -> TRUE
         [] a.k = "bool" -> a.v = b.v
         [] a.k = "num"  -> NumEq(a, b) /\ a.f = b.f
         [] a.k = "str"  -> a.v = b.v
         [] a.k = "arr"  -> /\ Len(a.v) = Len(b.v)
                            /\ \A i \in 1..Len(a.v) : JSame(a.v[i], b.v[i])
         [] a.k = "obj"  -> /\ Len(a.v) = Len(b.v)
                            /\ \A i \in 1..Len(a.v) :
                                 \E j \in 1..Len(b.v) :
                                    /\ a.v[i][1] = b.v[j][1]
                                    /\ JSame(a.v[i][2], b.v[j][2])

(***************************************************************************)
(* PyEq: Python's == on the same values: True == 1 == 1.0, False == 0.     *)
(* Only the implementation model uses it.                                  *)
(***************************************************************************)
AsNum(x) == IF x.k = "bool" THEN JInt(IF x.v THEN 1 ELSE 0) ELSE x
IsNumLike(x) == x.k \in {"bool", "num"}

RECURSIVE PyEq(_, _)
PyEq(a, b) ==
  IF IsNumLike(a) /\ IsNumLike(b) THEN NumEq(AsNum(a), AsNum(b))
  ELSE IF a.k # b.k THEN FALSE
  ELSE CASE a.k = "null" -> TRUE
         [] a.k = "np"   -> TRUE
         [] a.k = "str"  -> a.v = b.v
         [] a.k = "arr"  -> /\ Len(a.v) = Len(b.v)
                            /\ \A i \in 1..Len(a.v) : PyEq(a.v[i], b.v[i])
         [] a.k = "obj"  -> /\ Len(a.v) = Len(b.v)
                            /\ \A i \in 1..Len(a.v) :
                                 \E j \in 1..Len(b.v) :
                                    /\ a.v[i][1] = b.v[j][1]
                                    /\ PyEq(a.v[i][2], b.v[j][2])
         [] OTHER -> FALSE

(* Python truthiness of a JSON value (used by `default or element.default`) *)
Truthy(x) ==
  CASE x.k = "null" -> FALSE
    [] x.k = "np"   -> FALSE
    [] x.k = "bool" -> x.v
    [] x.k = "num"  -> x.n # 0
    [] x.k = "str"  -> x.v # ""
    [] x.k = "arr"  -> Len(x.v) > 0
    [] x.k = "obj"  -> Len(x.v) > 0
    [] OTHER -> TRUE

(* Nesting depth of a value                                                *)
RECURSIVE JDepth(_)
JDepth(x) ==
  IF x.k = "arr" THEN
      IF Len(x.v) = 0 THEN 1
      ELSE 1 + (CHOOSE m \in {JDepth(x.v[i]) : i \in 1..Len(x.v)} :
                    \A i \in 1..Len(x.v) : JDepth(x.v[i]) <= m)
  ELSE IF x.k = "obj" THEN
      IF Len(x.v) = 0 THEN 1
      ELSE 1 + (CHOOSE m \in {JDepth(x.v[i][2]) : i \in 1..Len(x.v)} :
                    \A i \in 1..Len(x.v) : JDepth(x.v[i][2]) <= m)
  ELSE 0
=============================================================================
