------------------------------ MODULE PropsNames ------------------------------
(***************************************************************************)
(* REFERENCE PREDICATE R_C12: every JSON name maps to a usable,            *)
(* unambiguous Python name.  Stated over OBSERVATIONS (of the model or of  *)
(* the real code), never over the shape of the implementation model.       *)
(*                                                                         *)
(* An observed Python name is given as its sequence of character classes   *)
(* (ClassAttr carries what Python's lexer cares about: XID_Start /         *)
(* XID_Continue, as reported by str.isidentifier of the running            *)
(* interpreter) plus, when it is plain ASCII, the text itself, so that the *)
(* reserved-word test is decided here.                                     *)
(***************************************************************************)
EXTENDS NameClasses

(* is the sequence of classes a Python identifier                          *)
IsIdentClasses(cs) ==
  /\ Len(cs) > 0
  /\ ClassAttr[cs[1]].xs
  /\ \A i \in 1..Len(cs) : ClassAttr[cs[i]].xc

BadClasses(cs) ==   \* the classes that break it (for the witness signature)
  {cs[i] : i \in {j \in 1..Len(cs) : ~ClassAttr[cs[j]].xc}}

(***************************************************************************)
(* attribute of one property                                               *)
(*   cs      classes of the characters of the attribute name               *)
(*   text    the attribute name when it is plain ASCII, "" otherwise       *)
(*           (every reserved word is ASCII)                                *)
(*   srcok   the property records the JSON name as its source              *)
(***************************************************************************)
R_C12_attr(cs, text, srcok) ==
  /\ IsIdentClasses(cs)
  /\ text \notin Reserved          \* keywords, dir(object), "_dict"
  /\ srcok

AttrClause(cs, text, srcok) ==
  IF ~IsIdentClasses(cs) THEN "not-identifier"
  ELSE IF text \in PyKeywords THEN "keyword"
  ELSE IF text \in Reserved THEN "reserved"
  ELSE IF ~srcok THEN "source-lost" ELSE "ok"

(***************************************************************************)
(* sibling property names of one object                                    *)
(*   names   the JSON names under "properties" (pairwise different)        *)
(*   req     the JSON names under "required"                               *)
(*   props   what the class ended up with: sequence of                     *)
(*           [attr, source, required]; attr/source are compared only for   *)
(*           equality, so any injective encoding will do                   *)
(***************************************************************************)
R_C12_sib(names, req, props) ==
  LET P == 1..Len(props) IN
  /\ \A i, j \in P : i # j => props[i].attr # props[j].attr
  /\ \A i \in 1..Len(names) : \E j \in P : props[j].source = names[i]
  /\ \A i \in 1..Len(req) : \E j \in P : props[j].source = req[i] /\ props[j].required

(***************************************************************************)
(* class names of one generated module                                     *)
(*   classes  sequence of [name, uid]: every object class reachable from   *)
(*            the parsed document, uid = identity of the class             *)
(*   used     the names the generated module imports or refers to besides  *)
(*            its own classes                                              *)
(***************************************************************************)
(*   classes  sequence of [name, cs, uid]; name is compared for equality   *)
(*            and against the reserved words (ASCII text, or an injective   *)
(*            escape of a non-ASCII name), cs = its character classes       *)
ClassNameOK(c, used) ==
  /\ IsIdentClasses(c.cs)
  /\ c.name \notin PyKeywords
  /\ c.name \notin used

ClassClause(c, used) ==
  IF Len(c.cs) = 0 THEN "empty"
  ELSE IF ~IsIdentClasses(c.cs) THEN "not-identifier"
  ELSE IF c.name \in PyKeywords THEN "keyword"
  ELSE IF c.name \in used THEN "shadows" ELSE "ok"

R_C12_classes(classes, used) ==
  /\ \A i \in 1..Len(classes) : ClassNameOK(classes[i], used)
  /\ \A i, j \in 1..Len(classes) :
        classes[i].uid # classes[j].uid => classes[i].name # classes[j].name
=============================================================================
