------------------------------ MODULE Elements ------------------------------
(***************************************************************************)
(* IMPLEMENTATION MODEL of statham's element tree and of a validation      *)
(* call, written function by function in the shape of the code             *)
(* (see DESIGN.md Appendix A for the transcription map).                   *)
(*                                                                         *)
(* Element record (uniform shape):                                         *)
(*   [cls   |-> "Element"|"String"|"Integer"|"Number"|"Boolean"|"Null"     *)
(*              |"Array"|"Nothing"|"AnyOf"|"OneOf"|"AllOf"|"Not"|"Object", *)
(*    kw    |-> record: the keyword attributes that differ from the        *)
(*              constructor default (absent = NotPassed / default),        *)
(*    elems |-> Seq(element)  members of a composition, <<e>> for Not,     *)
(*    name  |-> STRING        class name of an Object class, else ""]      *)
(* kw arguments: literals as JSON values; sizes as Nat; sub-schemas as     *)
(* element records;                                                        *)
(*   properties: Seq([attr, source, required, elem])   (declaration order) *)
(*   patternProperties, depsS: Seq(<<STRING, element>>)                    *)
(*   depsL: Seq(<<STRING, Seq(STRING)>>)    itemsT: Seq(element)           *)
(*   additionalItemsB / additionalPropertiesB: BOOLEAN when the code keeps *)
(*   the boolean (only FALSE is stored, TRUE is the default)               *)
(***************************************************************************)
EXTENDS Draft6

(***************************************************************************)
(* Switches for behaviour that a repair flips (DESIGN Appendix C(4)).      *)
(* They describe the tree as it is NOW.                                    *)
(***************************************************************************)
DeepBool            == TRUE   \* replace_bool recurses into lists and dicts
PlaceholderBySource == TRUE   \* Properties.__call__ keys placeholders by source
EqBoolAware         == TRUE   \* Element.__eq__ aliases booleans before comparing literals
CompositeKeepsDefault == TRUE \* Properties.__getitem__: AllOf(prop, patterns) keeps prop's default

EmptyKw == [x \in {} |-> TRUE]
Mk(cls, kw)        == [cls |-> cls, kw |-> kw, elems |-> <<>>, name |-> ""]
MkComp(cls, es, kw) == [cls |-> cls, kw |-> kw, elems |-> es, name |-> ""]
MkObj(name, kw)    == [cls |-> "Object", kw |-> kw, elems |-> <<>>, name |-> name]
ElementE == Mk("Element", EmptyKw)
NothingE == Mk("Nothing", EmptyKw)
ErrE(kind) == [cls |-> "ERR", kw |-> EmptyKw, elems |-> <<>>, name |-> kind]
IsErr(e) == e.cls = "ERR"

K(e, kw) == kw \in DOMAIN e.kw
DefaultOf(e) == IF K(e, "default") THEN e.kw.default ELSE NP

Ok(out)  == [kind |-> "ok", out |-> out]
Reject   == [kind |-> "reject", out |-> NP]

(* result containers *)
RModel(cls, pairs) == [k |-> "model", cls |-> cls, v |-> pairs]
RAnon(pairs)       == [k |-> "anon", v |-> pairs]

(***************************************************************************)
(* validation/base.py: replace_bool, _is_instance, Const, Enum             *)
(***************************************************************************)
RECURSIVE BoolAwareEq(_, _)
(* equality after replace_bool at every depth: bools only equal bools      *)
BoolAwareEq(a, b) ==
  IF a.k = "bool" \/ b.k = "bool" THEN a.k = b.k /\ a.v = b.v
  ELSE IF a.k = "arr" /\ b.k = "arr" THEN
         /\ Len(a.v) = Len(b.v)
         /\ \A i \in 1..Len(a.v) : BoolAwareEq(a.v[i], b.v[i])
  ELSE IF a.k = "obj" /\ b.k = "obj" THEN
         /\ Len(a.v) = Len(b.v)
         /\ \A i \in 1..Len(a.v) : \E j \in 1..Len(b.v) :
               a.v[i][1] = b.v[j][1] /\ BoolAwareEq(a.v[i][2], b.v[j][2])
  ELSE PyEq(a, b)

(* aliased != const : top-level sentinels, Python == below                  *)
AliasedEq(a, b) ==
  IF DeepBool THEN BoolAwareEq(a, b)
  ELSE IF a.k = "bool" \/ b.k = "bool" THEN a.k = b.k /\ a.v = b.v
  ELSE PyEq(a, b)

IsInstance(v, types) ==     \* types: set of "str","int","float","bool","list","dict","none"
  \/ "str"   \in types /\ v.k = "str"
  \/ "int"   \in types /\ IsPyInt(v)
  \/ "float" \in types /\ IsPyFloat(v)
  \/ "bool"  \in types /\ v.k = "bool"
  \/ "list"  \in types /\ v.k = "arr"
  \/ "dict"  \in types /\ v.k = "obj"
  \/ "none"  \in types /\ v.k = "null"

TypeTypes(cls) ==
  CASE cls = "String"  -> {"str"}
    [] cls = "Integer" -> {"int"}
    [] cls = "Number"  -> {"float", "int"}
    [] cls = "Boolean" -> {"bool"}
    [] cls = "Null"    -> {"none"}
    [] cls = "Array"   -> {"list"}
    [] cls = "Object"  -> {"dict"}
    [] OTHER -> {}

NumLike(v) == v.k = "num"      \* _is_instance(value, (int, float)): bool excluded

(***************************************************************************)
(* Items / Properties helpers (elements/items.py, elements/properties.py)   *)
(***************************************************************************)
AddlItems(e) ==
  IF K(e, "additionalItems") THEN e.kw.additionalItems
  ELSE IF K(e, "additionalItemsB") /\ ~e.kw.additionalItemsB THEN NothingE
  ELSE ElementE
AddlProps(e) ==
  IF K(e, "additionalProperties") THEN e.kw.additionalProperties
  ELSE IF K(e, "additionalPropertiesB") /\ ~e.kw.additionalPropertiesB THEN NothingE
  ELSE ElementE
(* Python truthiness of the additional* attribute as AdditionalItems reads it *)
AddlItemsTruthy(e) ==
  IF K(e, "additionalItems") THEN e.kw.additionalItems.cls # "Nothing"
  ELSE ~(K(e, "additionalItemsB") /\ ~e.kw.additionalItemsB)

ItemsGetItem(e, i) ==       \* Items.__getitem__, i is 1-based
  IF K(e, "itemsT") THEN
      IF i <= Len(e.kw.itemsT) THEN e.kw.itemsT[i] ELSE AddlItems(e)
  ELSE IF K(e, "items") THEN e.kw.items
  ELSE ElementE

PropsOf(e) == IF K(e, "properties") THEN e.kw.properties ELSE <<>>
PatsOf(e)  == IF K(e, "patternProperties") THEN e.kw.patternProperties ELSE <<>>

MatchingPats(e, key) ==
  LET ps == PatsOf(e)
      idx == {i \in 1..Len(ps) : Match(ps[i][1], key)}
      RECURSIVE take(_)
      take(i) == IF i > Len(ps) THEN <<>>
                 ELSE (IF i \in idx THEN <<ps[i][2]>> ELSE <<>>) \o take(i + 1)
  IN take(1)

(* Properties.__getitem__: the element a member is validated/built with,   *)
(* and the key it is filed under (prop.name or key)                        *)
PropsGetItem(e, key) ==
  LET props == PropsOf(e)
      decl  == {i \in 1..Len(props) : props[i].source = key}
      pats  == MatchingPats(e, key)
  IN IF decl = {} /\ Len(pats) = 0 THEN [elem |-> AddlProps(e), name |-> key]
     ELSE IF decl = {} THEN
        [elem |-> IF Len(pats) = 1 THEN pats[1] ELSE MkComp("AllOf", pats, EmptyKw),
         name |-> key]
     ELSE LET p == props[CHOOSE i \in decl : \A j \in decl : j <= i]   \* last one wins
          IN IF Len(pats) = 0 THEN [elem |-> p.elem, name |-> p.attr]
             ELSE [elem |-> MkComp("AllOf", <<p.elem>> \o pats,
                                   IF CompositeKeepsDefault /\ K(p.elem, "default")
                                   THEN [default |-> p.elem.kw.default] ELSE EmptyKw),
                   name |-> p.attr]

PropsContains(e, key) == PropsGetItem(e, key).elem.cls # "Nothing"
   \* `self[key].element != Nothing()`: only a Nothing instance equals Nothing()

(* _PropertyDict.required: sources of required properties without default   *)
PropsRequired(e) ==
  LET props == PropsOf(e)
      RECURSIVE take(_)
      take(i) == IF i > Len(props) THEN <<>>
                 ELSE (IF props[i].required /\ IsNP(DefaultOf(props[i].elem))
                       THEN <<props[i].source>> ELSE <<>>) \o take(i + 1)
  IN take(1)

(* ordered-dict update: later assignment to an existing key overrides in place *)
RECURSIVE DictFromPairs(_)
DictFromPairs(ps) ==
  IF Len(ps) = 0 THEN <<>>
  ELSE LET init == DictFromPairs(SubSeq(ps, 1, Len(ps) - 1))
           last == ps[Len(ps)]
       IN IF PairsHasKey(init, last[1])
          THEN [init EXCEPT ![PairsIdx(init, last[1])] = last]
          ELSE Append(init, last)

(***************************************************************************)
(* Element.__call__ / Object.__new__ + __init__                             *)
(***************************************************************************)
RECURSIVE Call(_, _)
RECURSIVE Create(_, _)
RECURSIVE Validates(_, _)
RECURSIVE Construct(_, _)
RECURSIVE PropsCall(_, _)
RECURSIVE ItemsCall(_, _)
RECURSIVE Attempt(_, _)

Accepts(e, v) == Call(e, v).kind = "ok"

Call(e, v) ==
  IF ~IsNP(DefaultOf(e)) /\ IsNP(v) THEN
      LET r == Create(e, DefaultOf(e)) IN
      IF r.kind = "ok" THEN r ELSE Ok(DefaultOf(e))      \* raw default, never an error
  ELSE IF IsNP(v) THEN Ok(NP)
  ELSE Create(e, v)

Create(e, v) == IF Validates(e, v) THEN Construct(e, v) ELSE Reject

(* get_validators + type_validator: TRUE iff every applicable validator passes *)
Validates(e, v) ==
  IF e.cls = "Nothing" THEN IsNP(v)                                   \* NoMatch
  ELSE
  LET isObjCls == e.cls = "Object"
      tt == TypeTypes(e.cls)
      vType == tt = {} \/ IsNP(v) \/ IsInstance(v, tt)                \* InstanceOf
      vConst == K(e, "const") => AliasedEq(v, e.kw.const)
      vEnum  == K(e, "enum") => \E i \in 1..Len(e.kw.enum) : AliasedEq(v, e.kw.enum[i])
      (* numeric.py -- not on Object classes (ObjectMeta.validators is a fixed list) *)
      num == NumLike(v) /\ ~isObjCls
      vMin  == (num /\ K(e, "minimum")) => ~NumLt(v, e.kw.minimum)
      vMax  == (num /\ K(e, "maximum")) => ~NumLt(e.kw.maximum, v)
      vXMin == (num /\ K(e, "exclusiveMinimum")) => ~NumLe(v, e.kw.exclusiveMinimum)
      vXMax == (num /\ K(e, "exclusiveMaximum")) => ~NumLe(e.kw.exclusiveMaximum, v)
      vMult == (num /\ K(e, "multipleOf")) => NumMultiple(v, e.kw.multipleOf)
      (* string.py *)
      str == v.k = "str" /\ ~isObjCls
      vMinL == (str /\ K(e, "minLength")) => Len(v.v) >= e.kw.minLength
      vMaxL == (str /\ K(e, "maxLength")) => Len(v.v) <= e.kw.maxLength
      vPat  == (str /\ K(e, "pattern")) => Match(e.kw.pattern, v.v)
      vFmt  == (str /\ K(e, "format")) => FormatOK(e.kw.format, v.v)
      (* array.py *)
      arr == v.k = "arr" /\ ~isObjCls
      vMinI == (arr /\ K(e, "minItems")) => Len(v.v) >= e.kw.minItems
      vMaxI == (arr /\ K(e, "maxItems")) => Len(v.v) <= e.kw.maxItems
      vAddI == (arr /\ K(e, "itemsT") /\ e.cls \in {"Element", "Array"}) =>
                  (Len(v.v) <= Len(e.kw.itemsT) \/ AddlItemsTruthy(e))
      vUniq == (arr /\ K(e, "uniqueItems") /\ e.kw.uniqueItems) =>
                  \A i, j \in 1..Len(v.v) : i < j => ~AliasedEq(v.v[i], v.v[j])
      vCont == (arr /\ K(e, "contains")) =>
                  \E i \in 1..Len(v.v) : Accepts(e.kw.contains, v.v[i])
      (* object.py *)
      obj == v.k = "obj"
      req == (IF K(e, "required") THEN e.kw.required ELSE <<>>) \o PropsRequired(e)
      vReq  == obj => \A i \in 1..Len(req) : HasKey(v, req[i])
      vAddP == (obj /\ AddlProps(e).cls = "Nothing") =>
                  \A i \in 1..Len(v.v) : PropsContains(e, v.v[i][1])
      vMinP == (obj /\ K(e, "minProperties")) => Len(v.v) >= e.kw.minProperties
      vMaxP == (obj /\ K(e, "maxProperties")) => Len(v.v) <= e.kw.maxProperties
      vName == (obj /\ K(e, "propertyNames")) =>
                  \A i \in 1..Len(v.v) : Accepts(e.kw.propertyNames, JStr(v.v[i][1]))
      vDepL == (obj /\ K(e, "depsL")) =>
                  \A i \in 1..Len(e.kw.depsL) : HasKey(v, e.kw.depsL[i][1]) =>
                     \A j \in 1..Len(e.kw.depsL[i][2]) : HasKey(v, e.kw.depsL[i][2][j])
      vDepS == (obj /\ K(e, "depsS")) =>
                  \A i \in 1..Len(e.kw.depsS) : HasKey(v, e.kw.depsS[i][1]) =>
                     Accepts(e.kw.depsS[i][2], v)
  IN /\ vType /\ vConst /\ vEnum
     /\ vMin /\ vMax /\ vXMin /\ vXMax /\ vMult
     /\ vMinL /\ vMaxL /\ vPat /\ vFmt
     /\ vMinI /\ vMaxI /\ vAddI /\ vUniq /\ vCont
     /\ vReq /\ vAddP /\ vMinP /\ vMaxP /\ vName /\ vDepL /\ vDepS

Construct(e, v) ==
  CASE e.cls \in {"AnyOf", "OneOf", "AllOf"} -> Attempt(e, v)
    [] e.cls = "Not" ->
         IF Accepts(e.elems[1], v) THEN Reject ELSE Ok(v)        \* the raw input
    [] e.cls = "Number" -> Ok([v EXCEPT !.f = TRUE])             \* float(value)
    [] e.cls = "Object" ->
         LET r == PropsCall(e, v) IN
         IF r.kind = "ok" THEN Ok(RModel(e.name, r.out)) ELSE Reject
    [] OTHER ->
         IF v.k = "arr" THEN ItemsCall(e, v)
         ELSE IF v.k = "obj" THEN
              LET r == PropsCall(e, v) IN
              IF r.kind = "ok" THEN Ok(RAnon(r.out)) ELSE Reject
         ELSE Ok(v)

ItemsCall(e, v) ==
  LET rs == [i \in 1..Len(v.v) |-> Call(ItemsGetItem(e, i), v.v[i])]
  IN IF \E i \in 1..Len(v.v) : rs[i].kind # "ok" THEN Reject
     ELSE Ok(JArr([i \in 1..Len(v.v) |-> rs[i].out]))

(* Properties.__call__ : placeholders for declared properties, then one     *)
(* construction per key; returns the ordered member pairs                   *)
PropsCall(e, v) ==
  LET props == PropsOf(e)
      ph == [i \in 1..Len(props) |->
               << (IF PlaceholderBySource THEN props[i].source ELSE props[i].attr), NP >>]
      merged == DictFromPairs(ph \o v.v)
      gi(i) == PropsGetItem(e, merged[i][1])
      rs == [i \in 1..Len(merged) |-> Call(gi(i).elem, merged[i][2])]
  IN IF \E i \in 1..Len(merged) : rs[i].kind # "ok" THEN Reject
     ELSE Ok(DictFromPairs([i \in 1..Len(merged) |-> << gi(i).name, rs[i].out >>]))

(* composition.py _attempt_schemas                                          *)
Attempt(e, v) ==
  LET rs == [i \in 1..Len(e.elems) |-> Call(e.elems[i], v)]
      oks == {i \in 1..Len(e.elems) : rs[i].kind = "ok"}
      first == rs[CHOOSE i \in oks : \A j \in oks : i <= j]
  IN IF oks = {} THEN Reject
     ELSE CASE e.cls = "AnyOf" -> first
            [] e.cls = "OneOf" -> IF Cardinality(oks) > 1 THEN Reject ELSE first
            [] e.cls = "AllOf" -> IF Cardinality(oks) < Len(e.elems) THEN Reject ELSE first

(***************************************************************************)
(* Element.__eq__ / _Property.__eq__ : same class, equal public attributes *)
(* (Python ==, so True == 1); class names are not compared.                *)
(***************************************************************************)
ElemKws == {"items", "additionalItems", "contains", "additionalProperties", "propertyNames"}
LitEq(x, y) == IF EqBoolAware THEN BoolAwareEq(x, y) ELSE PyEq(x, y)
RECURSIVE ElemEq(_, _)
ElemEq(a, b) ==
  /\ a.cls = b.cls
  /\ DOMAIN a.kw = DOMAIN b.kw
  /\ Len(a.elems) = Len(b.elems)
  /\ \A i \in 1..Len(a.elems) : ElemEq(a.elems[i], b.elems[i])
  /\ \A kw \in DOMAIN a.kw :
       LET x == a.kw[kw]  y == b.kw[kw] IN
       CASE kw \in {"default", "const"} -> LitEq(x, y)
         [] kw = "enum" -> Len(x) = Len(y) /\ \A i \in 1..Len(x) : LitEq(x[i], y[i])
         [] kw \in {"minimum", "maximum", "exclusiveMinimum", "exclusiveMaximum", "multipleOf"}
              -> NumEq(x, y)
         [] kw \in ElemKws -> ElemEq(x, y)
         [] kw = "itemsT" -> Len(x) = Len(y) /\ \A i \in 1..Len(x) : ElemEq(x[i], y[i])
         [] kw \in {"patternProperties", "depsS"} ->
              /\ Len(x) = Len(y)
              /\ \A i \in 1..Len(x) : \E j \in 1..Len(y) :
                    x[i][1] = y[j][1] /\ ElemEq(x[i][2], y[j][2])
         [] kw = "properties" ->          \* dict ==: same attrs, equal _Property
              /\ Len(x) = Len(y)
              /\ \A i \in 1..Len(x) : \E j \in 1..Len(y) :
                    /\ x[i].attr = y[j].attr
                    /\ x[i].required = y[j].required
                    /\ x[i].source = y[j].source
                    /\ ElemEq(x[i].elem, y[j].elem)
         [] kw = "depsL" ->
              /\ Len(x) = Len(y)
              /\ \A i \in 1..Len(x) : \E j \in 1..Len(y) : x[i] = y[j]
         [] OTHER -> x = y
=============================================================================
