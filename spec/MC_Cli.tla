-------------------------------- MODULE MC_Cli --------------------------------
(***************************************************************************)
(* IMPLEMENTATION MODEL of the command line front end (statham/__main__.py *)
(* parse_input_arg, parse_args): how the input argument becomes the URI    *)
(* handed to main(), and where the output goes.  Strings are sequences of  *)
(* TOKENS (a path segment letter, ".", "/", "#") so that the quirks are    *)
(* visible: a bare path gets "#/" appended; with a directory as output the *)
(* file name is basename(input) with its LAST dot-extension replaced by    *)
(* ".py" -- computed on the whole argument, pointer included.              *)
(***************************************************************************)
EXTENDS Integers, Sequences, TLC, Json

Toks == {"a", "b", ".", "/", "#"}
Has(s, t) == \E i \in 1..Len(s) : s[i] = t
LastIdx(s, t) == IF Has(s, t) THEN CHOOSE i \in 1..Len(s) : s[i] = t /\ \A j \in (i + 1)..Len(s) : s[j] # t ELSE 0

ParseInputArg(s) == IF Has(s, "#") THEN s ELSE s \o <<"#", "/">>
Basename(s) == SubSeq(s, LastIdx(s, "/") + 1, Len(s))
(* ".".join(name.split(".")[:-1]) : everything before the last dot, "" when there is none *)
StripLastExt(s) == IF Has(s, ".") THEN SubSeq(s, 1, LastIdx(s, ".") - 1) ELSE <<>>
OutputName(input) == StripLastExt(Basename(input)) \o <<".", "p", "y">>
(* output: "none" -> stdout; "dir" -> <dir>/OutputName(input); "file" -> that file *)
Target(input, out) == CASE out = "none" -> <<"stdout">> [] out = "dir" -> <<"dir", "/">> \o OutputName(input)
                        [] OTHER -> <<"file">>

CONSTANT MaxLen
VARIABLE s
Init == s = <<>>
Grow == Len(s) < MaxLen /\ \E t \in Toks : s' = Append(s, t)
Spec == Init /\ [][Grow]_s
Inv == Len(s) = 0 \/ PrintT(ToJson([input |-> s, uri |-> ParseInputArg(s), dirname |-> OutputName(s)]))
=============================================================================
