------------------------------ MODULE Docstring ------------------------------
(***************************************************************************)
(* Object descriptions as class docstrings (C07, second half; also C02).   *)
(*                                                                         *)
(* ObjectMeta.python() writes the description of an object schema between  *)
(* triple double quotes; Object.__init_subclass__ reads it back from       *)
(* __doc__ when the generated module is executed.  A description is a      *)
(* sequence of CHARACTER CLASSES (the harness concretises each class with  *)
(* several code points):                                                   *)
(*   q plain letter (no escape meaning)   sp space     dq "      sq '      *)
(*   bs backslash   n the letter n (\n)   r the letter r (\r)   nl newline *)
(*   cr carriage return   nul U+0000   e non-ASCII letter   em non-BMP     *)
(*   x00 (only produced by Emit: the three characters x00 after a \)       *)
(*                                                                         *)
(* Emit(s)  : what the code writes between the quotes (model of the code)  *)
(* Lex(t)   : how Python reads a triple-quoted literal body + closing      *)
(*            quotes (model of the language: escapes, first unescaped """  *)
(*            ends the literal, universal newlines, no NUL in source)      *)
(* R_Doc(s) : Lex(<<dq,dq,dq>> \o Emit(s) \o <<dq,dq,dq>>) = s             *)
(***************************************************************************)
EXTENDS Integers, Sequences, TLC

EscapeDocstring == TRUE    \* ObjectMeta.python escapes \ " CR NUL (flips with the repair)
EmptyDocKept    == TRUE    \* Object.__init_subclass__ keeps an empty docstring as description

Tokens == {"q", "sp", "dq", "sq", "bs", "n", "r", "nl", "cr", "nul", "e", "em"}

Emit(s) ==
  LET RECURSIVE go(_)
      go(i) == IF i > Len(s) THEN <<>>
               ELSE (IF ~EscapeDocstring THEN <<s[i]>>
                     ELSE CASE s[i] = "bs"  -> <<"bs", "bs">>
                            [] s[i] = "dq"  -> <<"bs", "dq">>
                            [] s[i] = "cr"  -> <<"bs", "r">>
                            [] s[i] = "nul" -> <<"bs", "x00">>
                            [] OTHER -> <<s[i]>>) \o go(i + 1)
  IN go(1)

(* Python's reading of the source text `"""` body `"""` followed by nothing  *)
(* result: [ok |-> BOOLEAN, val |-> token sequence]                          *)
Lex(body) ==
  LET src == [i \in 1..Len(body) |-> IF body[i] = "cr" THEN "nl" ELSE body[i]]  \* universal newlines
      n == Len(src)
      RECURSIVE scan(_, _)
      (* i: position in src; acc: value so far.  The literal was opened. *)
      scan(i, acc) ==
        IF i > n THEN [ok |-> FALSE, val |-> acc]                  \* unterminated
        ELSE IF src[i] = "nul" THEN [ok |-> FALSE, val |-> acc]     \* NUL not allowed in source
        ELSE IF src[i] = "dq" /\ i + 2 <= n /\ src[i + 1] = "dq" /\ src[i + 2] = "dq"
             THEN [ok |-> i + 2 = n, val |-> acc]                   \* closes; anything after = error
        ELSE IF src[i] = "bs" THEN
             IF i = n THEN [ok |-> FALSE, val |-> acc]
             ELSE LET c == src[i + 1] IN
                  CASE c = "n"   -> scan(i + 2, Append(acc, "nl"))
                    [] c = "r"   -> scan(i + 2, Append(acc, "cr"))
                    [] c = "x00" -> scan(i + 2, Append(acc, "nul"))
                    [] c \in {"bs", "dq", "sq"} -> scan(i + 2, Append(acc, c))
                    [] c = "nl"  -> scan(i + 2, acc)                 \* line continuation
                    [] c = "nul" -> [ok |-> FALSE, val |-> acc]
                    [] OTHER     -> scan(i + 2, acc \o <<"bs", c>>)  \* unknown escape kept
        ELSE scan(i + 1, Append(acc, src[i]))
  IN scan(1, <<>>)

Quoted(s) == Emit(s) \o <<"dq", "dq", "dq">>       \* after the opening quotes
ReadBack(s) == Lex(Quoted(s))

(* what Object.__init_subclass__ makes of the docstring *)
DescriptionOf(doc) == IF Len(doc) = 0 /\ ~EmptyDocKept THEN <<"NotPassed">> ELSE doc

(* reference: the docstring read back equals the description, character for character *)
R_Doc(s, ok, doc) == ok /\ doc = s
R_Desc(s, ok, desc) == ok /\ desc = s
=============================================================================
