------------------------------- MODULE Threads -------------------------------
(***************************************************************************)
(* C14 -- concurrent validation against shared models equals sequential    *)
(* validation.  This is the one family about SCHEDULES.                    *)
(*                                                                         *)
(* Part (ii), generic: interleaving semantics of ACCESS PROGRAMS.  An      *)
(* access program is what ONE validation call, run ALONE, did to objects   *)
(* that existed before the call (attributes of elements, model classes,    *)
(* properties; contents of the containers they hold; module singletons).   *)
(* The programs are recorded from the real code by the access monitor      *)
(* (harness/threadmon.py) and handed to TLC as data: DataCases of the      *)
(* generated module ThreadsData.tla.  Part (i), BindProtocol.tla,          *)
(* GENERATES such programs from the design of the code; the ThreadsData    *)
(* kept in this directory is DataCases == BindCases.                       *)
(* (DataCases is referenced directly, not through a CONSTANT: TLC caches   *)
(* a constant-level definition but re-evaluates a substituted constant on  *)
(* every use -- measured 650 against 34 000 states per second.)            *)
(*                                                                         *)
(*   event   [op |-> "r" | "w", loc |-> 1..NLoc, val |-> Int]              *)
(*           r: the call read value val at loc when it ran alone           *)
(*           w: the call wrote val to loc                                  *)
(*   case    [mem0 |-> <<initial value of every location>>,                *)
(*            prog |-> <<program of thread 1, program of thread 2, ...>>,  *)
(*            at   |-> <<for thread t: position in prog[t] of every access  *)
(*                      of the FULL program (0 = an access to a location   *)
(*                      nobody writes: it cannot matter)>>]                *)
(*                                                                         *)
(* Step(t) executes the next access of thread t against mem.  A read       *)
(* records whether it saw the value it saw when the call ran alone: as     *)
(* long as it does, the call -- being deterministic in what it reads --    *)
(* follows its sequential path and returns its sequential result.          *)
(*                                                                         *)
(*   ModelOK: every read saw its sequential value, and when all calls are  *)
(*   over, mem = mem0 (every write to a pre-existing object preserved the  *)
(*   value, or was undone).                                                *)
(*                                                                         *)
(* ModelOK is a statement about the MECHANISM.  The reference predicate    *)
(* R_C14 (ThreadsRef.tla) is about OBSERVABLES only (outcomes and the      *)
(* projected tree), so a state with ~ModelOK is a CANDIDATE: TLC exports   *)
(* the interleaving (TLCExt!Trace), the harness replays it on real threads *)
(* through the gate and R_C14 judges what really happened.  A correct lazy *)
(* cache or a lock is ~ModelOK in some state and satisfies R_C14.          *)
(***************************************************************************)
EXTENDS Integers, Sequences, FiniteSets, TLC, TLCExt, Json, ThreadsData

CONSTANTS Sel,       \* the case indices this run explores
          Full,      \* FALSE: exhaustive, one projected access per step
                     \* TRUE : schedule generator over ALL gate points, in bursts
          Bursts,    \* Full only: burst lengths
          Cap        \* exported candidate interleavings per case and TLC worker (at most)

VARIABLES c,         \* case index
          mem,       \* location -> value
          pc,        \* thread -> next access (projected / full index)
          seen,      \* thread -> all reads so far saw their sequential value
          sched      \* Full only: the schedule so far, <<thread, accesses>> per burst
vars == <<c, mem, pc, seen, sched>>

T == 1..Len(DataCases[c].prog)
Prog(t) == DataCases[c].prog[t]
LenOf(t) == IF Full THEN Len(DataCases[c].at[t]) ELSE Len(DataCases[c].prog[t])

(* one access against <<mem, seen>> *)
Apply(st, t, a) ==
  [mem  |-> IF a.op = "w" THEN [st.mem EXCEPT ![a.loc] = a.val] ELSE st.mem,
   seen |-> IF a.op = "r" /\ st.mem[a.loc] # a.val
            THEN [st.seen EXCEPT ![t] = FALSE] ELSE st.seen]

Init == /\ c \in Sel
        /\ mem = DataCases[c].mem0
        /\ pc = [t \in 1..Len(DataCases[c].prog) |-> 1]
        /\ seen = [t \in 1..Len(DataCases[c].prog) |-> TRUE]
        /\ sched = <<>>

AllSeen == \A t \in T : seen[t]
AllDone == \A t \in T : pc[t] > LenOf(t)

(* exhaustive mode: a thread whose read deviated has left its recorded program, so the *)
(* state is a leaf (it is exported and replayed on the real code instead)              *)
Step(t) ==
  /\ ~Full /\ AllSeen
  /\ pc[t] <= Len(Prog(t))
  /\ LET st == Apply([mem |-> mem, seen |-> seen], t, Prog(t)[pc[t]])
     IN mem' = st.mem /\ seen' = st.seen
  /\ pc' = [pc EXCEPT ![t] = @ + 1]
  /\ UNCHANGED <<c, sched>>

(* generator mode: thread t passes n gate points in a row *)
RECURSIVE Run(_, _, _, _)
Run(st, t, i, n) ==
  IF n = 0 THEN st
  ELSE LET k == DataCases[c].at[t][i]
       IN Run(IF k = 0 THEN st ELSE Apply(st, t, Prog(t)[k]), t, i + 1, n - 1)

Burst(t, n) ==
  /\ Full
  /\ pc[t] <= LenOf(t)
  /\ LET m  == IF n < LenOf(t) - pc[t] + 1 THEN n ELSE LenOf(t) - pc[t] + 1
         st == Run([mem |-> mem, seen |-> seen], t, pc[t], m)
     IN /\ mem' = st.mem /\ seen' = st.seen
        /\ pc' = [pc EXCEPT ![t] = @ + m]
        /\ sched' = Append(sched, <<t, m>>)
  /\ UNCHANGED c

(* one burst length per thread and state, drawn by TLC (keeps -simulate cheap: 2-3 successors) *)
Next == \E t \in T : Step(t) \/ (Full /\ Burst(t, RandomElement(Bursts)))
Spec == Init /\ [][Next]_vars

(***************************************************************************)
(* The model-level property, and the export of candidates / schedules.     *)
(* Inv never fails: a design-level counter-example must not stop the       *)
(* enumeration; it is printed (one JSON line) for the replay.              *)
(***************************************************************************)
ModelOK == AllSeen /\ (AllDone => mem = DataCases[c].mem0)

Budget == TLCGet(c) < Cap /\ TLCSet(c, TLCGet(c) + 1)     \* one register per case (set to 0 by the MC module)
PathOf(tr) == [i \in 1..(Len(tr) - 1) |->
                 CHOOSE t \in DOMAIN tr[i].pc : tr[i + 1].pc[t] # tr[i].pc[t]]

Inv ==
  IF Full
  THEN AllDone => PrintT(ToJson([c |-> c, kind |-> "sched", ok |-> ModelOK, sched |-> sched]))
  ELSE IF ModelOK THEN TRUE
  ELSE \/ ~Budget
       \/ LET tr == Trace
          IN PrintT(ToJson([c |-> c,
                            kind |-> IF AllSeen THEN "end" ELSE "dev",
                            t |-> IF AllSeen THEN 0 ELSE CHOOSE t \in T : ~seen[t],
                            pcs |-> pc,
                            path |-> PathOf(tr)]))

=============================================================================
