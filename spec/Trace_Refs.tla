------------------------------ MODULE Trace_Refs ------------------------------
(***************************************************************************)
(* Trace validation for the reference-graph family: observations of the    *)
(* real command-line path (json_ref_dict.materialize + statham.parser      *)
(* .parse + serialize_python, i.e. statham.__main__.main) and of the       *)
(* executed generated module, judged against the reference layer.          *)
(*                                                                         *)
(* C02 event: [id, p |-> "C02", doc, executes, imports, classes, parsed,   *)
(*             eqs, kinds, dkinds, nobj]                                   *)
(*   nobj    : object schemas of the document (nodes of the graph), -1 n/a *)
(*   imports : names the module imports                                    *)
(*   classes : <<[name, uses]>> classes in textual order with every name   *)
(*             their statement loads                                       *)
(*   parsed  : names of the object classes of the directly parsed tree     *)
(*   eqs     : generated class == parsed class, per parsed name            *)
(*   kinds / dkinds : verdict kinds of generated / directly parsed root    *)
(* C20 event: [id, p |-> "C20r", cyclic, uns, kind]                        *)
(* C09 event: [id, p |-> "C09", outs] outputs under different hash seeds   *)
(***************************************************************************)
EXTENDS PropsElem, TraceData, Json

(* TLC orders record fields by the order in which their names were first seen: the tag
   field k of JSON values must be met before v (heterogeneous values are told apart by k) *)
LOCAL InternOrderKV == [k |-> 0, v |-> 0]

VARIABLE i
Init == i = 0
Next == i < Len(Events) /\ i' = i + 1
Spec == Init /\ [][Next]_i

Builtins == {"None", "True", "False", "str", "int", "float", "bool"}

C02_Clause(e) ==
  LET names == [k \in 1..Len(e.classes) |-> e.classes[k].name]
      imps == SeqRange(e.imports)
  IN IF ~e.executes THEN "generated-module-does-not-execute"
     ELSE IF \E k \in 1..Len(e.classes) :
                ~(SeqRange(e.classes[k].uses) \subseteq
                    imps \cup Builtins \cup {names[j] : j \in 1..(k - 1)})
          THEN "name-used-before-declaration-or-import"
     ELSE IF \E j, k \in 1..Len(names) : j < k /\ names[j] = names[k] THEN "class-declared-twice"
     ELSE IF SeqRange(names) \cap imps # {} THEN "class-name-shadows-import"
     ELSE IF SeqRange(names) # SeqRange(e.parsed) THEN "not-one-class-per-object-schema"
     ELSE IF e.nobj >= 0 /\ Len(names) # e.nobj THEN "not-one-class-per-object-schema-of-the-document"
     ELSE IF \E k \in 1..Len(e.eqs) : ~e.eqs[k] THEN "generated-class-differs-from-parsed"
     ELSE IF e.kinds # e.dkinds THEN "generated-root-validates-differently"
     ELSE IF \E k \in 1..NValues : ~R_C01(e.doc, Values[k], e.kinds[k])
          THEN "generated-root-differs-from-schema"
     ELSE "ok"

C20r_Clause(e) ==
  IF (e.cyclic \/ e.uns) /\ e.kind # "notimpl" THEN "recursive-or-unsupported-not-refused"
  ELSE IF ~(e.cyclic \/ e.uns) /\ e.kind # "ok" THEN "supported-document-refused"
  ELSE "ok"

C09_Clause(e) == IF \A k \in 1..Len(e.outs) : e.outs[k] = e.outs[1] THEN "ok"
                 ELSE "output-depends-on-hash-seed"

C07r_Clause(e) == IF R_C07_elem(e.doc, e.elem) THEN "ok" ELSE "default-or-description-not-preserved"

Clause(e) == CASE e.p = "C02" -> C02_Clause(e) [] e.p = "C20r" -> C20r_Clause(e)
               [] e.p = "C09" -> C09_Clause(e) [] e.p = "C07r" -> C07r_Clause(e)
Inv == i = 0 \/ Clause(Events[i]) = "ok"
         \/ PrintT(ToJson([reject |-> Events[i].id, clause |-> Clause(Events[i])]))
Consumed == TLCGet("stats").diameter = Len(Events) + 1
=============================================================================
