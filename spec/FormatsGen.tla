----------------------------- MODULE FormatsGen -----------------------------
(***************************************************************************)
(* C16, built-in formats: the specification GENERATES RFC 3339 date-time   *)
(* strings and canonical UUID strings as sequences of field choices; the   *)
(* requirement R_C16_builtin says every generated string is accepted by    *)
(* String(format="date-time") / String(format="uuid").  Constant level     *)
(* (no variables): used by MC_FormatsGen (builder) and Trace_Formats.      *)
(***************************************************************************)
EXTENDS Naturals, Sequences, FiniteSets, TLC

(***************************************************************************)
(* Generators for the built-in formats.                                    *)
(*                                                                         *)
(* A string is a sequence of field choices f; Choices(fmt, f) is the set   *)
(* of strings the grammar allows for the next field after the fields f;    *)
(* Text(fmt, f) is the concatenation with the fixed punctuation.           *)
(***************************************************************************)
RECURSIVE NumOf(_)
DigitOf(c) == CASE c = "0" -> 0 [] c = "1" -> 1 [] c = "2" -> 2 [] c = "3" -> 3 [] c = "4" -> 4
                [] c = "5" -> 5 [] c = "6" -> 6 [] c = "7" -> 7 [] c = "8" -> 8 [] c = "9" -> 9
NumOf(s) == IF Len(s) = 0 THEN 0
            ELSE 10 * NumOf(SubSeq(s, 1, Len(s) - 1)) + DigitOf(SubSeq(s, Len(s), Len(s)))
DigitStr == <<"0", "1", "2", "3", "4", "5", "6", "7", "8", "9">>
TwoDigit(n) == DigitStr[(n \div 10) + 1] \o DigitStr[(n % 10) + 1]

(* ---- RFC 3339 date-time:                                                *)
(*   date-fullyear "-" date-month "-" date-mday ("T"/"t")                  *)
(*   time-hour ":" time-minute ":" time-second [time-secfrac]              *)
(*   ("Z"/"z" / ("+"/"-") time-hour ":" time-minute)                       *)
DTFields == <<"year", "month", "day", "sep", "hour", "minute", "second", "frac", "offset">>
IsLeap(y) == y % 4 = 0 /\ (y % 100 # 0 \/ y % 400 = 0)
DaysIn(y, m) == IF m = 2 THEN (IF IsLeap(y) THEN 29 ELSE 28)
                ELSE IF m \in {4, 6, 9, 11} THEN 30 ELSE 31
DTYears(year0) == {"0001", "1900", "1970", "1972", "1990", "2000", "2023", "2024", "9999"}
                  \cup (IF year0 THEN {"0000"} ELSE {})
DTMonths == {TwoDigit(m) : m \in 1..12}
DTHours == {"00", "15", "23"}
DTMinutes == {"00", "59"}
DTFracs == {"", ".1", ".12", ".123", ".1234", ".12345", ".123456", ".1234567", ".12345678",
            ".123456789", ".000", ".999999999"}
DTZero == {"Z", "z", "+00:00", "-00:00"}
DTPlus == {"+23:59", "+05:30"}
DTMinus == {"-23:59", "-08:00"}
(* seconds inserted into UTC at the end of these days (IERS bulletins C)   *)
LeapSecondDays == {<<"1972", "06", "30">>, <<"1972", "12", "31">>, <<"1990", "12", "31">>}

DTChoices(f, year0) ==
  LET k == Len(f) + 1 IN
  CASE k = 1 -> DTYears(year0)
    [] k = 2 -> DTMonths
    [] k = 3 -> LET last == DaysIn(NumOf(f[1]), NumOf(f[2]))
                IN {"01", TwoDigit(last)} \cup (IF f[2] = "02" THEN {"28"} ELSE {})
    [] k = 4 -> {"T", "t"}
    [] k = 5 -> DTHours
    [] k = 6 -> DTMinutes
    [] k = 7 -> {"00", "59"} \cup
                (* second 60 only where a leap second really was inserted: *)
                (* 23:59:60 UTC, or 15:59:60 at -08:00 (RFC 3339 5.8)      *)
                (IF <<f[1], f[2], f[3]>> \in LeapSecondDays /\ f[6] = "59" /\ f[5] \in {"23", "15"}
                 THEN {"60"} ELSE {})
    [] k = 8 -> DTFracs
    [] k = 9 -> IF f[7] = "60" THEN (IF f[5] = "23" THEN DTZero ELSE {"-08:00"})
                ELSE DTZero
                     (* the instant must exist in UTC within years 0000..9999 *)
                     \cup (IF f[1] = "0000" /\ f[2] = "01" /\ f[3] = "01" THEN {} ELSE DTPlus)
                     \cup (IF f[1] = "9999" /\ f[2] = "12" /\ f[3] = "31" THEN {} ELSE DTMinus)
    [] OTHER -> {}
DTText(f) == f[1] \o "-" \o f[2] \o "-" \o f[3] \o f[4] \o f[5] \o ":" \o f[6] \o ":" \o f[7]
             \o f[8] \o f[9]

(* ---- canonical UUID: 8-4-4-4-12 hexadecimal digits; the 13th digit is   *)
(* the version nibble, the 17th the variant nibble; every nibble value is  *)
(* a canonical textual UUID (RFC 4122 section 3 grammar; nil and max too)  *)
UUFields == <<"g1", "g2", "version", "g3rest", "variant", "g4rest", "g5">>
Nibbles == {"0", "1", "2", "3", "4", "5", "6", "7", "8", "9",
            "a", "b", "c", "d", "e", "f", "A", "B", "C", "D", "E", "F"}
UUFill(width) ==
  CASE width = 8  -> {"00000000", "ffffffff", "FFFFFFFF", "AbCdEf01", "12345678"}
    [] width = 4  -> {"0000", "ffff", "FFFF", "1a2B", "9876"}
    [] width = 3  -> {"000", "fff", "FFF", "c3D", "456"}
    [] width = 12 -> {"000000000000", "ffffffffffff", "FFFFFFFFFFFF", "0123456789aB", "987654321012"}
UUChoices(f) ==
  LET k == Len(f) + 1 IN
  CASE k = 1 -> UUFill(8)
    [] k = 2 -> UUFill(4)
    [] k = 3 -> Nibbles
    [] k = 4 -> UUFill(3)
    [] k = 5 -> Nibbles
    [] k = 6 -> UUFill(3)
    [] k = 7 -> UUFill(12)
    [] OTHER -> {}
UUText(f) == f[1] \o "-" \o f[2] \o "-" \o f[3] \o f[4] \o "-" \o f[5] \o f[6] \o "-" \o f[7]

(* ---- common interface ---- *)
Fields(fmt) == IF fmt = "date-time" THEN DTFields ELSE UUFields
Choices(fmt, f, year0) == IF fmt = "date-time" THEN DTChoices(f, year0) ELSE UUChoices(f)
Text(fmt, f) == IF fmt = "date-time" THEN DTText(f) ELSE UUText(f)
Complete(fmt, f) == Len(f) = Len(Fields(fmt))
InLanguage(fmt, f, year0) ==
  /\ Complete(fmt, f)
  /\ \A i \in 1..Len(f) : f[i] \in Choices(fmt, SubSeq(f, 1, i - 1), year0)

(* requirement: the built-in checker accepts every generated string        *)
R_C16_builtin(fmt, f, text, kind, year0) ==
  (InLanguage(fmt, f, year0) /\ text = Text(fmt, f)) => kind = "ok"
=============================================================================
