------------------------------- MODULE MC_Heap -------------------------------
(***************************************************************************)
(* Bounded instance of Lifecycle: all histories of reconfiguration steps   *)
(* and validation calls of length <= MaxLen over a small heap.  hist is    *)
(* part of the state on purpose: every exported state IS one behaviour     *)
(* (the harness replays it from scratch on fresh real objects and compares *)
(* the real heap projection and outcome after the last step).              *)
(***************************************************************************)
EXTENDS Lifecycle, Json

(* TLC orders record fields by the order in which their names were first seen: the tag
   field k of JSON values must be met before v (heterogeneous values are told apart by k) *)
LOCAL InternOrderKV == [k |-> 0, v |-> 0]

CONSTANTS MaxLen, Shape     \* Shape = "all" | "vrv" (validate, reconfigure, validate on one target)

VARIABLES heap, hist, last
vars == <<heap, hist, last>>

LOCAL O(pairs) == JObj(pairs)
HeapValues == <<
  O(<<>>), O(<< <<"a", JStr("x")>> >>), O(<< <<"a", JInt(1)>> >>),
  O(<< <<"a", JStr("x")>>, <<"b", JInt(2)>> >>), O(<< <<"a", JStr("x")>>, <<"z", JStr("y")>> >>),
  O(<< <<"z", JInt(1)>> >>), O(<< <<"a", JStr("x")>>, <<"class", JInt(3)>> >>), JInt(5),
  O(<< <<"a", JStr("x")>>, <<"level", JInt(2)>> >>), O(<< <<"a", JStr("x")>>, <<"class_", JStr("y")>> >>),
  O(<< <<"a", JStr("xy")>>, <<"b", JStr("q")>> >>), O(<< <<"a", JStr("xy")>> >>),
  JArr(<<JInt(1)>>), JArr(<<JStr("x"), JStr("y")>>), JArr(<<JInt(1), JStr("x")>>), JArr(<<JInt(1), JInt(2)>>),
  JStr("x") >>

E0 == Mk("Element", [properties |-> << Prop("a", "a", TRUE,
                                            MkComp("AllOf", << StringE, Mk("Element", [minLength |-> 1]) >>, EmptyKw)),
                                       Prop("b", "b", FALSE, Mk("Integer", [default |-> JInt(1)])) >>,
                     patternProperties |-> << <<"^a", Mk("Element", [maxLength |-> 1])>> >>])
C0 == MkObj("C", [properties |-> << Prop("a", "a", TRUE, StringE),
                                    Prop("class_", "class", FALSE, IntegerE) >>,
                  minProperties |-> 1])
(* class D(C, maxProperties=2): b = Property(Integer(default=1)); a overridden as optional *)
DKw == [maxProperties |-> 2]
DProps == << Prop("b", "b", FALSE, Mk("Integer", [default |-> JInt(1)])),
             Prop("a", "a", FALSE, StringE) >>

(* class F(C, minProperties=0): pass  -- a subclass that declares no property of its own *)
FKw == [minProperties |-> 0]
(* an element that starts with an EMPTY property dictionary; it also carries tuple items with *)
(* a schema for the items beyond the tuple                                                   *)
N0 == Mk("Element", [properties |-> <<>>, itemsT |-> << IntegerE >>, additionalItems |-> StringE])
(* a composition whose member list is replaced during its life *)
U0 == MkComp("AnyOf", << Mk("String", [minLength |-> 1]), IntegerE >>, EmptyKw)
Targets == {"E", "C", "D", "F", "N", "U"}
PropTargets == Targets \ {"U"}      \* U is a composition: no declared properties, no object keywords
Children == {"D", "F"}
Init == /\ heap = [x \in Targets |-> IF x = "E" THEN E0 ELSE IF x = "C" THEN C0
                                     ELSE IF x = "N" THEN N0 ELSE IF x = "U" THEN U0
                                     ELSE IF x = "D" THEN Merge(C0, "D", DKw, DProps)
                                     ELSE Merge(C0, "F", FKw, <<>>)]
        /\ hist = <<>>
        /\ last = [kind |-> "none", out |-> NP]

SetChoices == {
  <<"minProperties", 2>>, <<"maxProperties", 1>>, <<"additionalPropertiesB", FALSE>>,
  <<"required", <<"b">> >>, <<"patternProperties", << <<"^a", IntegerE>> >> >>,
  <<"const", O(<< <<"a", JStr("x")>> >>)>>, <<"default", O(<< <<"a", JStr("x")>> >>)>>,
  <<"propertyNames", Mk("String", [maxLength |-> 1])>>,
  <<"items", IntegerE>>, <<"minItems", 2>>, <<"minimum", JInt(7)>>,
  <<"additionalItemsB", FALSE>>, <<"additionalItems", IntegerE>>,
  (* element.properties = {...}: the whole table replaced through the attribute's setter *)
  <<"properties", << Prop("z", "z", TRUE, StringE), Prop("class_", "class", FALSE, IntegerE) >> >> }

(* a parent that sets every class keyword, for the subclass (merge) events *)
P0 == MkObj("P", [default |-> O(<< <<"a", JStr("x")>> >>), enum |-> << O(<< <<"a", JStr("x")>> >>), JNull >>,
                  required |-> <<"a">>, description |-> "parent", minProperties |-> 1, maxProperties |-> 3,
                  patternProperties |-> << <<"^a", StringE>> >>,
                  additionalProperties |-> IntegerE,
                  propertyNames |-> Mk("String", [maxLength |-> 5]),
                  depsL |-> << <<"a", <<"b">> >> >>,
                  depsS |-> << <<"b", Mk("Element", [minProperties |-> 2])>> >>,
                  const |-> O(<< <<"a", JStr("x")>> >>),
                  properties |-> << Prop("a", "a", TRUE, StringE), Prop("class_", "class", FALSE, IntegerE) >>])
(* class H(P, <every keyword overridden>): a overridden, z added *)
HKw == [default |-> JNull, enum |-> << JNull >>, required |-> <<"z">>, description |-> "child",
        minProperties |-> 0, maxProperties |-> 9, patternProperties |-> << <<"^b", IntegerE>> >>,
        additionalPropertiesB |-> FALSE, propertyNames |-> Mk("String", [minLength |-> 1]),
        depsL |-> << <<"z", <<"a">> >> >>, const |-> JNull]
HProps == << Prop("a", "a", FALSE, IntegerE), Prop("z", "z", TRUE, StringE) >>
PropChoices == { Prop("z", "z", TRUE, StringE), Prop("a", "a", TRUE, IntegerE),
                 Prop("b", "b", TRUE, StringE),
                 (* replaces the RENAMED property class_ (JSON name "class") by one whose JSON name is its key *)
                 Prop("class_", "class_", FALSE, StringE) }

Op(name, target, arg) == [op |-> name, x |-> target, arg |-> arg]
IsReconf(o) == o.op # "validate"

ShapeOK(h, o) ==
  IF Shape = "all" THEN TRUE
  ELSE (* validate ; reconfigure ; validate, all on the same target *)
       CASE Len(h) = 0 -> o.op = "validate"
         [] Len(h) = 1 -> IsReconf(o) /\ o.x = h[1].x
         [] Len(h) = 2 -> o.op = "validate" /\ o.x = h[1].x
         [] OTHER -> FALSE

Step(o, newheap, outcome) ==
  /\ Len(hist) < MaxLen /\ ShapeOK(hist, o)
  /\ heap' = newheap /\ hist' = Append(hist, o) /\ last' = outcome

NoOutcome == [kind |-> "none", out |-> NP]

InstanceOnly == {"items", "minItems", "minimum"}   \* not class keywords: only meaningful on E
TupleOnly == {"additionalItemsB", "additionalItems"}   \* only meaningful next to tuple items: N
TableOnly == {"properties"}                            \* whole-table assignment: the element instances E, N
SetKeyword == \E x \in PropTargets, c \in SetChoices :
  (c[1] \in InstanceOnly => x = "E") /\ (c[1] \in TupleOnly => x = "N") /\ (c[1] \in TableOnly => x \in {"E", "N"}) /\
  Step(Op("set", x, <<c[1], c[2]>>), [heap EXCEPT ![x] = SetKw(@, c[1], c[2])], NoOutcome)
ClearKeyword == \E x \in Targets : \E kw \in DOMAIN heap[x].kw \ {"properties"} :
  Step(Op("clear", x, <<kw, 0>>), [heap EXCEPT ![x] = DelKw(@, kw)], NoOutcome)
PutProperty == \E x \in PropTargets, p \in PropChoices :
  Step(Op("putprop", x, p), [heap EXCEPT ![x] = PutProp(@, p)], NoOutcome)
DelProperty == \E x \in Targets : \E i \in 1..Len(PropsOf(heap[x])) :
  Step(Op("delprop", x, <<PropsOf(heap[x])[i].attr, 0>>),
       [heap EXCEPT ![x] = RemoveProp(@, PropsOf(heap[x])[i].attr)], NoOutcome)
(* properties.update({...}) followed by the first use of the element: the mapping is filled  *)
(* without going through __setitem__ and the property is bound to its name when the element *)
(* is next used (the harness makes one validation call); same configuration as PutProp      *)
UpdateChoices == { Prop("z", "z", TRUE, StringE), Prop("level_", "level", FALSE, Mk("Integer", [default |-> JInt(1)])) }
UpdateProperty == \E x \in PropTargets, p \in UpdateChoices :
  Step(Op("updateprop", x, p), [heap EXCEPT ![x] = PutProp(@, p)], NoOutcome)
(* U.elements = [...] *)
ElemChoices == { << IntegerE >>, << Mk("String", [minLength |-> 5]), IntegerE >>, << StringE, Mk("Null", EmptyKw) >> }
SetElements == \E es \in ElemChoices :
  Step(Op("setelems", "U", es), [heap EXCEPT !["U"] = [@ EXCEPT !.elems = es]], NoOutcome)
MoveProperty == \E x \in Targets : \E i \in 1..Len(PropsOf(heap[x])) :
  LET a == PropsOf(heap[x])[i].attr IN
  /\ ~HasProp(heap[x], a \o "_moved")
  /\ Step(Op("moveprop", x, <<a, a \o "_moved">>),
          [heap EXCEPT ![x] = MoveProp(@, a, a \o "_moved")], NoOutcome)
(* (on the element instances only: a class and its subclasses share the element OBJECTS of *)
(* inherited properties, so a change below one of them is a change below all of them)      *)
SetPropertyDefault == \E x \in {"E", "N"} : \E i \in 1..Len(PropsOf(heap[x])) :
  LET a == PropsOf(heap[x])[i].attr IN
  /\ PropsOf(heap[x])[i].elem.cls \in {"String", "AllOf"}      \* a string default fits these
  /\ Step(Op("setpropdefault", x, <<a, JStr("d")>>),
          [heap EXCEPT ![x] = SetPropDefault(@, a, JStr("d"))], NoOutcome)
ToggleReq == \E x \in Targets : \E i \in 1..Len(PropsOf(heap[x])) :
  Step(Op("togglereq", x, <<PropsOf(heap[x])[i].attr, 0>>),
       [heap EXCEPT ![x] = ToggleRequired(@, PropsOf(heap[x])[i].attr)], NoOutcome)
Validate == \E x \in Targets : \E i \in 1..Len(HeapValues) :
  Step(Op("validate", x, <<"v", i>>),
       [heap EXCEPT ![x] = ValidateWrites(@, HeapValues[i])],
       ValidateOutcome(heap[x], HeapValues[i]))

Next == SetKeyword \/ ClearKeyword \/ PutProperty \/ UpdateProperty \/ DelProperty \/ MoveProperty \/ SetElements \/ SetPropertyDefault \/ ToggleReq \/ Validate
Spec == Init /\ [][Next]_vars

(* design-level claims on the model *)
PureValidate == [][(Len(hist') > Len(hist) /\ hist'[Len(hist')].op = "validate") => heap' = heap]_vars
ParentIsolated == [][(Len(hist') > Len(hist) /\ hist'[Len(hist')].x \in Children) => heap'["C"] = heap["C"]]_vars

Export == PrintT(ToJson([hist |-> hist, heap |-> heap, last |-> last,
                         init |-> IF Len(hist) = 0
                                  THEN [values |-> HeapValues, dkw |-> DKw, dprops |-> DProps, fkw |-> FKw,
                                        p0 |-> P0, hkw |-> HKw, hprops |-> HProps]
                                  ELSE [values |-> <<>>, dkw |-> DKw, dprops |-> <<>>, fkw |-> FKw,
                                        p0 |-> ElementE, hkw |-> FKw, hprops |-> <<>>]]))
Inv == Export
=============================================================================
