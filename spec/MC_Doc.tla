-------------------------------- MODULE MC_Doc --------------------------------
(***************************************************************************)
(* Bounded instance of the document family.                                *)
(*  - state: the document under construction (DocBuilder)                  *)
(*  - in every state, both layers are evaluated against the whole value    *)
(*    universe: the reference (Allowed, R_Cxx) and the implementation      *)
(*    model (Parse, Call);                                                 *)
(*  - the model-level verdict of each property is exported with the state  *)
(*    (m01, m04, ... = value indices where the MODEL violates R_Cxx), so a *)
(*    design-level counter-example never stops the enumeration;            *)
(*  - one JSON line per distinct state is printed for the replay.          *)
(***************************************************************************)
EXTENDS DocBuilder, Universe, Parser, Props, Json

CONSTANTS WithUnsupported     \* C20: also insert unsupported keywords

VARIABLES doc, budget      \* budget = insertions still allowed (bounds the artefact)
vars == <<doc, budget>>
Init == doc = Empty /\ budget = MaxSize

Spend == budget > 0 /\ budget' = budget - 1
AddLeaf == Spend /\ doc' \in {T \in LeafExt(doc) : LeafOK(T)}
AddSub  == Spend /\ MaxDepth > 0 /\ doc' \in NewSubExt(doc)
AddDeep == Spend /\ MaxDepth > 0 /\
           doc' \in Ext(doc, MaxDepth) \ (LeafExt(doc) \cup NewSubExt(doc))
AddUnsupported == Spend /\ WithUnsupported /\ doc' \in UnsExt(doc, MaxDepth)
Next == AddLeaf \/ AddSub \/ AddDeep \/ AddUnsupported
Spec == Init /\ [][Next]_vars

(* random walk for -simulate: one random position, then any extension there *)
SimNext == /\ Spend
           /\ LET p == RandomElement(Paths(doc, MaxDepth))
              IN doc' \in ExtAt(doc, p, MaxDepth)
SimSpec == Init /\ [][SimNext]_vars

(***************************************************************************)
(* Interaction-rich seed documents: the same builder actions are also      *)
(* explored from these (INIT InitSeeds, bounded by TLCGet("level")), so    *)
(* that the neighbourhoods where several keywords interact (declared x     *)
(* pattern x additional properties, tuple items x additionalItems x        *)
(* contains, composition with siblings, objects under anyOf) are covered   *)
(* exhaustively one or two insertions deep even in the quick tier.         *)
(***************************************************************************)
CONSTANT SeedLevels
LOCAL Sch(r) == [sch |-> TRUE] @@ r
LOCAL Ty(t) == [sch |-> TRUE, type |-> t]
Seeds == {
  Sch([properties |-> << <<"a", Sch([default |-> JInt(1)])>>, <<"class", Ty("string")>> >>,
       patternProperties |-> << <<"^a", Ty("integer")>>, <<"^c", Empty>> >>,
       additionalProperties |-> FalseS]),
  Sch([type |-> "object", title |-> "T",
       properties |-> << <<"a", Ty("integer")>>, <<"b", Sch([default |-> JStr("")])>> >>,
       required |-> <<"a", "b">>]),
  Sch([itemsT |-> << Ty("integer"), Ty("string") >>, additionalItems |-> FalseS,
       contains |-> Sch([const |-> JInt(1)])]),
  Sch([type |-> "integer",
       oneOf |-> << Sch([minimum |-> JInt(1)]), Sch([maximum |-> JInt(2)]) >>,
       anyOf |-> << Sch([multipleOf |-> JInt(2)]), Sch([const |-> JInt(3)]) >>])
    @@ ("not" :> Sch([const |-> JInt(4)])),
  Sch([anyOf |-> <<
         Sch([type |-> "object", properties |-> << <<"a", Ty("string")>> >>, required |-> <<"a">>]),
         Sch([type |-> "object",
              properties |-> << <<"a", Ty("integer")>>, <<"b", Empty>> >>]) >>]),
  Sch([types |-> <<"object", "null">>,
       properties |-> << <<"a", Sch([types |-> <<"integer", "number">>])>> >>,
       depsL |-> << <<"a", <<"b">> >>, <<"class", <<"a">> >> >>,
       depsS |-> << <<"b", Sch([required |-> <<"a">>])>> >>]),
  Sch([type |-> "array", items |-> Sch([type |-> "number", default |-> JInt(0)]),
       uniqueItems |-> TRUE, default |-> JArr(<<JInt(1)>>)]),
  Sch([properties |-> << <<"a", Sch([type |-> "object", title |-> "T",
                                     properties |-> << <<"class", Sch([default |-> JBool(FALSE)])>> >>])>> >>,
       propertyNames |-> Sch([pattern |-> "^a"])]),
  (* equally titled, structurally different objects at many positions of one schema
     (class-name de-duplication depends on the order in which positions are parsed) *)
  Sch([anyOf |-> << Sch([type |-> "object", title |-> "Thing", minProperties |-> 1]) >>,
       oneOf |-> << Sch([type |-> "object", title |-> "Thing", minProperties |-> 2]) >>,
       allOf |-> << Sch([type |-> "object", title |-> "Thing"]) >>,
       properties |-> << <<"a", Sch([type |-> "object", title |-> "Thing", maxProperties |-> 2])>> >>,
       patternProperties |-> << <<"^a", Sch([type |-> "object", title |-> "Thing", maxProperties |-> 1])>> >>,
       itemsT |-> << Sch([type |-> "object", title |-> "Thing", minProperties |-> 3]) >>,
       additionalItems |-> Sch([type |-> "object", title |-> "Thing", minProperties |-> 4]),
       contains |-> Sch([type |-> "object", title |-> "Thing", minProperties |-> 5]),
       additionalProperties |-> Sch([type |-> "object", title |-> "Thing", minProperties |-> 6]),
       propertyNames |-> Sch([type |-> "object", title |-> "Thing", minProperties |-> 7]),
       depsS |-> << <<"a", Sch([type |-> "object", title |-> "Thing", minProperties |-> 8])>> >>])
    @@ ("not" :> Sch([type |-> "object", title |-> "Thing", minProperties |-> 9])),
  (* two differently named object classes of identical shape in one tree *)
  Sch([type |-> "object", title |-> "T",
       properties |-> << <<"a", Sch([type |-> "object", properties |-> << <<"b", Ty("string")>> >>])>>,
                         <<"b", Sch([type |-> "object", properties |-> << <<"b", Ty("string")>> >>])>> >>])
}
InitSeeds == doc \in Seeds /\ budget = SeedLevels
SeedSpec == InitSeeds /\ [][Next]_vars

Idx == 1..NValues
DefaultedProps(S) ==
  IF DefaultsApply(S)
  THEN SelectSeq(S.properties, LAMBDA p : ~IsBoolSchema(p[2]) /\ Has(p[2], "default"))
  ELSE <<>>
Export ==
  LET e  == Parse(doc)
      ok == ~IsErr(e)
      calls == IF ok THEN [i \in Idx |-> Call(e, Values[i])] ELSE <<>>
      allowed == [i \in Idx |-> Allowed(doc, Values[i])]
      dps == DefaultedProps(doc)
      dobs == IF ok THEN [j \in 1..Len(dps) |-> << dps[j][1], Call(Parse(dps[j][2]), dps[j][2].default) >>]
              ELSE <<>>
      np  == IF ok THEN Call(e, NP) ELSE Reject
      edef == IF ok THEN DefaultOf(e) ELSE NP
      dconv == IF ok /\ ~IsNP(edef) THEN Call(e, edef) ELSE Reject
      m01 == IF ok THEN {i \in Idx : ~R_C01(doc, Values[i], calls[i].kind)} ELSE {}
      m04 == IF ok THEN {i \in Idx : ~R_C04(doc, Values[i], calls[i].kind, calls[i].out)} ELSE {}
      m05 == IF ok THEN {i \in Idx : ~R_C05_obj(doc, Values[i], calls[i].kind, calls[i].out, dobs)}
             ELSE {}
      m05w == IF ok THEN {i \in Idx : ~R_C05_waive(doc, Values[i], calls[i].kind)} ELSE {}
      m05np == ok /\ ~R_C05_np(doc, edef, np, dconv)
      m10 == IF ok THEN {i \in Idx : ~R_C10_call(calls[i].kind)} ELSE {}
      pk == IF ok THEN "ok" ELSE e.name
      st == Strip(doc)
      se == Parse(st)
  IN PrintT(ToJson([doc |-> doc, size |-> DocSize(doc), depth |-> SchemaDepth(doc),
                    parse |-> pk, uns |-> HasUnsupported(doc),
                    elem |-> IF ok THEN e ELSE ElementE,
                    strip |-> st, stripParse |-> IF IsErr(se) THEN se.name ELSE "ok",
                    allowed |-> allowed, calls |-> calls, np |-> np, dobs |-> dobs,
                    dconv |-> dconv, edef |-> edef,
                    m01 |-> m01, m04 |-> m04, m05 |-> m05, m05w |-> m05w, m05np |-> m05np, m10 |-> m10,
                    m20 |-> ~R_C20(doc, pk) \/ IsErr(se)]))
Inv == Export
=============================================================================
