-------------------------------- MODULE MC_Doc --------------------------------
(***************************************************************************)
(* Bounded instance of the document family.                                *)
(*  - state: the document under construction (DocBuilder)                  *)
(*  - in every state, both layers are evaluated against the whole value    *)
(*    universe: the reference (Allowed, R_Cxx) and the implementation      *)
(*    model (Parse, Call);                                                 *)
(*  - the model-level verdict of each property is exported with the state  *)
(*    (m01, m04, ... = value indices where the MODEL violates R_Cxx), so a *)
(*    design-level counter-example never stops the enumeration;            *)
(*  - one JSON line per distinct state is printed for the replay.          *)
(***************************************************************************)
EXTENDS DocSeeds, Universe, Naming, Props, Json

(* TLC orders record fields by the order in which their names were first seen: the
   tag field k of JSON values must come before v (see JsonValue.tla) *)
LOCAL InternOrderKV == [k |-> 0, v |-> 0]

CONSTANTS WithUnsupported     \* C20: also insert unsupported keywords

VARIABLES doc, budget      \* budget = insertions still allowed (bounds the artefact)
vars == <<doc, budget>>
Init == doc = Empty /\ budget = MaxSize

Spend == budget > 0 /\ budget' = budget - 1
AddLeaf == Spend /\ doc' \in {T \in LeafExt(doc) : LeafOK(T)}
AddSub  == Spend /\ MaxDepth > 0 /\ doc' \in NewSubExt(doc)
AddDeep == Spend /\ MaxDepth > 0 /\
           doc' \in Ext(doc, MaxDepth) \ (LeafExt(doc) \cup NewSubExt(doc))
AddUnsupported == Spend /\ WithUnsupported /\ doc' \in UnsExt(doc, MaxDepth)
Next == AddLeaf \/ AddSub \/ AddDeep \/ AddUnsupported
Spec == Init /\ [][Next]_vars

(* random walk for -simulate: one random position, then any extension there *)
SimNext == /\ Spend
           /\ LET p == RandomElement(Paths(doc, MaxDepth))
              IN doc' \in ExtAt(doc, p, MaxDepth)
SimSpec == Init /\ [][SimNext]_vars

CONSTANT SeedLevels
InitSeeds == (doc \in Seeds \cup (IF WithUnsupported THEN SeedsUns ELSE {}) /\ budget = SeedLevels)
             \/ (doc \in Seeds0 /\ budget = 0)
SeedSpec == InitSeeds /\ [][Next]_vars

Idx == 1..NValues
DefaultedProps(S) ==
  IF DefaultsApply(S)
  THEN SelectSeq(S.properties, LAMBDA p : ~IsBoolSchema(p[2]) /\ Has(p[2], "default"))
  ELSE <<>>
Export ==
  LET e  == Parse(doc)
      ok == ~IsErr(e)
      calls == IF ok THEN [i \in Idx |-> Call(e, Values[i])] ELSE <<>>
      allowed == [i \in Idx |-> Allowed(doc, Values[i])]
      dps == DefaultedProps(doc)
      dobs == IF ok THEN [j \in 1..Len(dps) |-> << dps[j][1], Call(Parse(dps[j][2]), dps[j][2].default) >>]
              ELSE <<>>
      np  == IF ok THEN Call(e, NP) ELSE Reject
      edef == IF ok THEN DefaultOf(e) ELSE NP
      dconv == IF ok /\ ~IsNP(edef) THEN Call(e, edef) ELSE Reject
      m01 == IF ok THEN {i \in Idx : ~R_C01(doc, Values[i], calls[i].kind)} ELSE {}
      m04 == IF ok THEN {i \in Idx : ~R_C04(doc, Values[i], calls[i].kind, calls[i].out)} ELSE {}
      m05 == IF ok THEN {i \in Idx : ~R_C05_obj(doc, Values[i], calls[i].kind, calls[i].out, dobs)}
             ELSE {}
      m05w == IF ok THEN {i \in Idx : ~R_C05_waive(doc, Values[i], calls[i].kind)} ELSE {}
      m05np == ok /\ ~R_C05_np(doc, edef, np, dconv)
      m10 == IF ok THEN {i \in Idx : ~R_C10_call(calls[i].kind)} ELSE {}
      pk == IF ok THEN "ok" ELSE e.name
      st == Strip(doc)
      se == Parse(st)
  IN PrintT(ToJson([doc |-> doc, size |-> DocSize(doc), depth |-> SchemaDepth(doc),
                    parse |-> pk, uns |-> HasUnsupported(doc),
                    elem |-> IF ok THEN e ELSE ElementE,
                    names |-> IF ok THEN ClassTable(doc) ELSE <<>>,
                    m09 |-> ok /\ ~NamesOrderIndependent(doc),
                    strip |-> st, stripParse |-> IF IsErr(se) THEN se.name ELSE "ok",
                    allowed |-> allowed, calls |-> calls, np |-> np, dobs |-> dobs,
                    dconv |-> dconv, edef |-> edef,
                    m01 |-> m01, m04 |-> m04, m05 |-> m05, m05w |-> m05w, m05np |-> m05np, m10 |-> m10,
                    m20 |-> ~R_C20(doc, pk) \/ IsErr(se)]))
Inv == Export
=============================================================================
