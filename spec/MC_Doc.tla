-------------------------------- MODULE MC_Doc --------------------------------
EXTENDS DocBuilder, Universe, Parser, Json
VARIABLE doc
Init == doc = Empty
Next == doc' \in {T \in Ext(doc, MaxDepth) : DocSize(T) <= MaxSize}
Spec == Init /\ [][Next]_doc
AllowedVec(S) == [i \in 1..NValues |-> Allowed(S, Values[i])]
CallVec(e) == [i \in 1..NValues |-> Call(e, Values[i])]
Export ==
  LET e == Parse(doc)
  IN PrintT(ToJson([doc |-> doc, allowed |-> AllowedVec(doc), size |-> DocSize(doc),
                    parse |-> IF IsErr(e) THEN e.name ELSE "ok",
                    calls |-> IF IsErr(e) THEN <<>> ELSE CallVec(e)]))
Inv == Export
=============================================================================
