-------------------------------- MODULE Meta --------------------------------
(***************************************************************************)
(* REFERENCE LAYER, part 2: JSON Schema documents as plain JSON VALUES.    *)
(*                                                                         *)
(* A document produced by the real serializer reaches TLC as a tagged JSON *)
(* value (JsonValue.tla).  WellFormed(j) is the Draft-6 metaschema for the *)
(* supported vocabulary; ToSchema(j) turns a well-formed value into the    *)
(* schema record that Draft6.tla interprets; RefsResolve(j) says every     *)
(* "$ref" points at a definition inside the document.                      *)
(***************************************************************************)
EXTENDS Draft6, TLC

EmptyF == [x \in {} |-> TRUE]
SimpleTypes == {"array", "boolean", "integer", "null", "number", "object", "string"}

IsNat(x)    == x.k = "num" /\ ~x.f /\ x.d = 1 /\ x.n >= 0
IsStrSeq(x) == x.k = "arr" /\ \A i \in 1..Len(x.v) : x.v[i].k = "str"
UniqueStrs(x) == \A i, j \in 1..Len(x.v) : i < j => x.v[i].v # x.v[j].v

RefPrefix == "#/definitions/"
IsLocalRef(s) == Len(s) > Len(RefPrefix) /\ SubSeq(s, 1, Len(RefPrefix)) = RefPrefix
RefName(s) == SubSeq(s, Len(RefPrefix) + 1, Len(s))

RECURSIVE WellFormed(_)
WellFormed(j) ==
  \/ j.k = "bool"
  \/ /\ j.k = "obj"
     /\ \A i \in 1..Len(j.v) :
          LET kw == j.v[i][1]  a == j.v[i][2] IN
          CASE kw = "type" ->
                 \/ a.k = "str" /\ a.v \in SimpleTypes
                 \/ /\ IsStrSeq(a) /\ Len(a.v) >= 1 /\ UniqueStrs(a)
                    /\ \A t \in 1..Len(a.v) : a.v[t].v \in SimpleTypes
            [] kw \in {"minimum", "maximum", "exclusiveMinimum", "exclusiveMaximum"} -> a.k = "num"
            [] kw = "multipleOf" -> a.k = "num" /\ a.n > 0
            [] kw \in {"minLength", "maxLength", "minItems", "maxItems",
                       "minProperties", "maxProperties"} -> IsNat(a)
            [] kw \in {"pattern", "format", "title", "description", "$ref", "$id", "$schema"}
                 -> a.k = "str"
            [] kw = "uniqueItems" -> a.k = "bool"
            [] kw = "enum" -> a.k = "arr" /\ Len(a.v) >= 1
            [] kw = "required" -> IsStrSeq(a) /\ UniqueStrs(a)
            [] kw = "items" ->
                 \/ WellFormed(a)
                 \/ a.k = "arr" /\ \A t \in 1..Len(a.v) : WellFormed(a.v[t])
            [] kw \in {"additionalItems", "contains", "additionalProperties",
                       "propertyNames", "not"} -> WellFormed(a)
            [] kw \in {"anyOf", "oneOf", "allOf"} ->
                 a.k = "arr" /\ Len(a.v) >= 1 /\ \A t \in 1..Len(a.v) : WellFormed(a.v[t])
            [] kw \in {"properties", "patternProperties", "definitions"} ->
                 a.k = "obj" /\ \A t \in 1..Len(a.v) : WellFormed(a.v[t][2])
            [] kw = "dependencies" ->
                 a.k = "obj" /\ \A t \in 1..Len(a.v) :
                    \/ IsStrSeq(a.v[t][2]) /\ UniqueStrs(a.v[t][2])
                    \/ WellFormed(a.v[t][2])
            [] OTHER -> TRUE        \* const, default, examples, unknown annotations

(* seq of <<k, v>> pairs with keyword k mapped through f                     *)
LOCAL SchemaKws == {"items", "additionalItems", "contains", "additionalProperties",
                    "propertyNames", "not"}
RECURSIVE ToSchema(_)
ToSchema(j) ==
  IF j.k = "bool" THEN [bs |-> j.v]
  ELSE
  LET StrSeq(a) == [t \in 1..Len(a.v) |-> a.v[t].v]
      Pairs(a)  == [t \in 1..Len(a.v) |-> << a.v[t][1], ToSchema(a.v[t][2]) >>]
      One(kw, a) ==
        CASE kw = "type" -> IF a.k = "str" THEN ("type" :> a.v) ELSE ("types" :> StrSeq(a))
          [] kw \in {"const", "default"} -> (kw :> a)
          [] kw = "enum" -> ("enum" :> a.v)
          [] kw \in {"minimum", "maximum", "exclusiveMinimum", "exclusiveMaximum", "multipleOf"}
               -> (kw :> a)
          [] kw \in {"minLength", "maxLength", "minItems", "maxItems",
                     "minProperties", "maxProperties"} -> (kw :> a.n)
          [] kw \in {"pattern", "format", "title", "description"} -> (kw :> a.v)
          [] kw = "uniqueItems" -> (kw :> a.v)
          [] kw = "required" -> (kw :> StrSeq(a))
          [] kw = "items" -> IF a.k = "arr"
                             THEN ("itemsT" :> [t \in 1..Len(a.v) |-> ToSchema(a.v[t])])
                             ELSE ("items" :> ToSchema(a))
          [] kw \in SchemaKws -> (kw :> ToSchema(a))
          [] kw \in {"anyOf", "oneOf", "allOf"} -> (kw :> [t \in 1..Len(a.v) |-> ToSchema(a.v[t])])
          [] kw \in {"properties", "patternProperties", "definitions"} -> (kw :> Pairs(a))
          [] kw = "dependencies" ->
               LET L == SelectSeq(a.v, LAMBDA p : p[2].k = "arr")
                   D == SelectSeq(a.v, LAMBDA p : p[2].k # "arr")
               IN (IF Len(L) > 0 THEN ("depsL" :> [t \in 1..Len(L) |-> << L[t][1], StrSeq(L[t][2]) >>])
                   ELSE EmptyF)
                  @@ (IF Len(D) > 0 THEN ("depsS" :> [t \in 1..Len(D) |-> << D[t][1], ToSchema(D[t][2]) >>])
                      ELSE EmptyF)
          [] kw = "$ref" -> IF IsLocalRef(a.v) THEN ("ref" :> RefName(a.v)) ELSE ("ref" :> a.v)
          [] OTHER -> EmptyF
      RECURSIVE fold(_)
      fold(i) == IF i > Len(j.v) THEN [sch |-> TRUE]
                 ELSE One(j.v[i][1], j.v[i][2]) @@ fold(i + 1)
  IN fold(1)

(* every $ref, at any schema position, names a definition of the root document *)
RECURSIVE RefsIn(_)
RefsIn(S) ==
  IF IsBoolSchema(S) THEN {}
  ELSE (IF Has(S, "ref") THEN {S.ref} ELSE {})
       \cup UNION {RefsIn(SubSchemas(S)[i]) : i \in 1..Len(SubSchemas(S))}
RefsResolve(S) ==
  \A r \in RefsIn(S) : Has(S, "definitions") /\ PairsHasKey(S.definitions, r)

(* reference chains terminate (no definition refers back to itself)          *)
RefsAcyclic(S) ==
  LET defs == IF Has(S, "definitions") THEN S.definitions ELSE <<>>
      names == {defs[i][1] : i \in 1..Len(defs)}
      Direct(n) == RefsIn(PairsGet(defs, n)) \cap names
      RECURSIVE reach(_, _)
      reach(front, seen) == IF front \subseteq seen THEN seen
                            ELSE reach(UNION {Direct(n) : n \in front}, seen \cup front)
  IN \A n \in names : n \notin reach(Direct(n), {})
=============================================================================
