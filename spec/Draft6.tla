------------------------------- MODULE Draft6 -------------------------------
(***************************************************************************)
(* REFERENCE LAYER.  What JSON Schema Draft 6 says, written independently  *)
(* of statham's code, with the three documented deviations stated once:    *)
(*   D1  "integer" means Python int (1.0 is not an integer);               *)
(*   D2  only registered formats are checked (date-time, uuid);            *)
(*   D3  a required property whose schema declares a default MAY be        *)
(*       omitted.                                                          *)
(*                                                                         *)
(* Allowed(S, v) is the SET of verdicts a conforming-with-deviations       *)
(* implementation may give: {TRUE}, {FALSE}, or BOOLEAN where D3 leaves    *)
(* the choice open.  Sets propagate through composition pointwise.         *)
(*                                                                         *)
(* Schema encoding (one argument shape per keyword, see DESIGN 3.2):       *)
(*   [sch |-> TRUE, kw1 |-> a1, ...]   an object schema ({} is [sch|->TRUE])*)
(*   [bs |-> b]                        the boolean schema b                *)
(*   type: STRING          types: Seq(STRING)                              *)
(*   const: value          enum: Seq(value)         default: value         *)
(*   minimum maximum exclusiveMinimum exclusiveMaximum multipleOf: num     *)
(*   minLength maxLength minItems maxItems minProperties maxProperties: Nat*)
(*   pattern format description title: STRING     uniqueItems: BOOLEAN     *)
(*   items additionalItems contains additionalProperties propertyNames     *)
(*     not: schema                                                         *)
(*   itemsT anyOf oneOf allOf: Seq(schema)                                 *)
(*   required: Seq(STRING)                                                 *)
(*   properties patternProperties depsS definitions: Seq(<<STRING,schema>>)*)
(*   depsL: Seq(<<STRING, Seq(STRING)>>)                                   *)
(*   ref: STRING  (name N of "#/definitions/N", resolved in the root)      *)
(***************************************************************************)
EXTENDS JsonValue

IsBoolSchema(S) == "bs" \in DOMAIN S
Has(S, kw) == kw \in DOMAIN S

(***************************************************************************)
(* Regular expressions: a small family with exactly known re.search /      *)
(* ECMA-262 meaning (assumption A3).                                       *)
(***************************************************************************)
StartsWith(s, p) == Len(s) >= Len(p) /\ SubSeq(s, 1, Len(p)) = p
EndsWith(s, p)   == Len(s) >= Len(p) /\ SubSeq(s, Len(s) - Len(p) + 1, Len(s)) = p
Contains(s, p)   == \E i \in 1..(Len(s) - Len(p) + 1) : SubSeq(s, i, i + Len(p) - 1) = p

Match(p, s) ==
  CASE p = "^a"   -> StartsWith(s, "a")
    [] p = "^b"   -> StartsWith(s, "b")
    [] p = "b$"   -> EndsWith(s, "b")
    [] p = "a"    -> Contains(s, "a")
    [] p = "^ab$" -> s = "ab"
    [] p = "^c"   -> StartsWith(s, "c")
    [] p = ""     -> TRUE
    [] p = "$^"   -> s = ""
    [] p = "^.$"  -> Len(s) = 1
    [] p = "^cl"  -> StartsWith(s, "cl")
Patterns == {"^a", "^b", "b$", "a", "^ab$", "^c", "", "$^", "^.$", "^cl"}

(***************************************************************************)
(* Formats (D2).  Only date-time and uuid are registered out of the box.   *)
(* The sample sets are the strings of the value universe; C16 treats the   *)
(* grammars themselves.                                                    *)
(***************************************************************************)
DateTimeSamples == {"1990-12-31T15:59:59Z", "2020-02-29T00:00:00+01:00"}
UuidSamples     == {"123e4567-e89b-12d3-a456-426614174000"}
RegisteredFormats == {"date-time", "uuid"}
FormatOK(fmt, s) ==
  CASE fmt = "date-time" -> s \in DateTimeSamples
    [] fmt = "uuid"      -> s \in UuidSamples
    [] OTHER             -> TRUE

(***************************************************************************)
(* Verdict-set combinators.                                                *)
(***************************************************************************)
ConjSets(Ss) == {b \in BOOLEAN :
                   IF b THEN \A i \in DOMAIN Ss : TRUE \in Ss[i]
                        ELSE \E i \in DOMAIN Ss : FALSE \in Ss[i]}
DisjSets(Ss) == {b \in BOOLEAN :
                   IF b THEN \E i \in DOMAIN Ss : TRUE \in Ss[i]
                        ELSE \A i \in DOMAIN Ss : FALSE \in Ss[i]}
NegSet(A)    == {~b : b \in A}
OneSets(Ss)  ==
  LET lo == Cardinality({i \in DOMAIN Ss : Ss[i] = {TRUE}})
      hi == Cardinality({i \in DOMAIN Ss : TRUE \in Ss[i]})
  IN {b \in BOOLEAN : IF b THEN lo <= 1 /\ 1 <= hi ELSE lo # 1 \/ hi # 1}

TypeMatch(t, v) ==
  CASE t = "null"    -> v.k = "null"
    [] t = "boolean" -> v.k = "bool"
    [] t = "object"  -> v.k = "obj"
    [] t = "array"   -> v.k = "arr"
    [] t = "string"  -> v.k = "str"
    [] t = "number"  -> v.k = "num"
    [] t = "integer" -> v.k = "num" /\ ~v.f           \* D1
    [] OTHER -> FALSE

Unique(s) == \A i, j \in 1..Len(s) : i < j => ~JEq(s[i], s[j])

(***************************************************************************)
(* AllowedIn(R, S, v): verdict set of value v against schema S, where R    *)
(* is the root document in which "ref" is resolved.                        *)
(***************************************************************************)
RECURSIVE AllowedIn(_, _, _)
AllowedIn(R, S, v) ==
  IF IsBoolSchema(S) THEN {S.bs}
  ELSE IF Has(S, "ref") THEN
      (* Draft 6: siblings of $ref are ignored *)
      IF Has(R, "definitions") /\ PairsHasKey(R.definitions, S.ref)
      THEN AllowedIn(R, PairsGet(R.definitions, S.ref), v)
      ELSE {}            \* unresolvable: no verdict is allowed
  ELSE
  LET T(b) == {b}
      any == {TRUE}
      kType  == IF Has(S, "type") THEN T(TypeMatch(S.type, v)) ELSE any
      kTypes == IF Has(S, "types")
                THEN T(\E i \in 1..Len(S.types) : TypeMatch(S.types[i], v))
                ELSE any
      kConst == IF Has(S, "const") THEN T(JEq(v, S.const)) ELSE any
      kEnum  == IF Has(S, "enum")
                THEN T(\E i \in 1..Len(S.enum) : JEq(v, S.enum[i])) ELSE any
      (* numbers *)
      num == v.k = "num"
      kMin  == IF num /\ Has(S, "minimum") THEN T(NumLe(S.minimum, v)) ELSE any
      kMax  == IF num /\ Has(S, "maximum") THEN T(NumLe(v, S.maximum)) ELSE any
      kXMin == IF num /\ Has(S, "exclusiveMinimum")
               THEN T(NumLt(S.exclusiveMinimum, v)) ELSE any
      kXMax == IF num /\ Has(S, "exclusiveMaximum")
               THEN T(NumLt(v, S.exclusiveMaximum)) ELSE any
      kMult == IF num /\ Has(S, "multipleOf")
               THEN T(NumMultiple(v, S.multipleOf)) ELSE any
      (* strings *)
      str == v.k = "str"
      kMinL == IF str /\ Has(S, "minLength") THEN T(Len(v.v) >= S.minLength) ELSE any
      kMaxL == IF str /\ Has(S, "maxLength") THEN T(Len(v.v) <= S.maxLength) ELSE any
      kPat  == IF str /\ Has(S, "pattern") THEN T(Match(S.pattern, v.v)) ELSE any
      kFmt  == IF str /\ Has(S, "format") THEN T(FormatOK(S.format, v.v)) ELSE any  \* D2
      (* arrays *)
      arr == v.k = "arr"
      kMinI == IF arr /\ Has(S, "minItems") THEN T(Len(v.v) >= S.minItems) ELSE any
      kMaxI == IF arr /\ Has(S, "maxItems") THEN T(Len(v.v) <= S.maxItems) ELSE any
      kUniq == IF arr /\ Has(S, "uniqueItems") /\ S.uniqueItems
               THEN T(Unique(v.v)) ELSE any
      kItems == IF arr /\ Has(S, "items")
                THEN ConjSets([i \in 1..Len(v.v) |-> AllowedIn(R, S.items, v.v[i])])
                ELSE any
      kItemsT == IF arr /\ Has(S, "itemsT")
                 THEN ConjSets([i \in 1..Len(v.v) |->
                        IF i <= Len(S.itemsT) THEN AllowedIn(R, S.itemsT[i], v.v[i])
                        ELSE IF Has(S, "additionalItems")
                             THEN AllowedIn(R, S.additionalItems, v.v[i])
                             ELSE any])
                 ELSE any
      kCont == IF arr /\ Has(S, "contains")
               THEN DisjSets([i \in 1..Len(v.v) |-> AllowedIn(R, S.contains, v.v[i])])
               ELSE any
      (* objects *)
      obj == v.k = "obj"
      kMinP == IF obj /\ Has(S, "minProperties") THEN T(Len(v.v) >= S.minProperties) ELSE any
      kMaxP == IF obj /\ Has(S, "maxProperties") THEN T(Len(v.v) <= S.maxProperties) ELSE any
      props == IF Has(S, "properties") THEN S.properties ELSE <<>>
      pats  == IF Has(S, "patternProperties") THEN S.patternProperties ELSE <<>>
      PropSchema(name) ==     \* the property's schema, looking through one "$ref"
          LET ps == PairsGet(props, name) IN
          IF ~IsBoolSchema(ps) /\ Has(ps, "ref") /\ Has(R, "definitions")
             /\ PairsHasKey(R.definitions, ps.ref)
          THEN PairsGet(R.definitions, ps.ref) ELSE ps
      Waived(name) ==     \* D3
          /\ PairsHasKey(props, name)
          /\ ~IsBoolSchema(PropSchema(name))
          /\ Has(PropSchema(name), "default")
      kReq  == IF obj /\ Has(S, "required")
               THEN ConjSets([i \in 1..Len(S.required) |->
                      IF HasKey(v, S.required[i]) THEN any
                      ELSE IF Waived(S.required[i]) THEN BOOLEAN ELSE {FALSE}])
               ELSE any
      kProps == IF obj /\ Has(S, "properties")
                THEN ConjSets([i \in 1..Len(props) |->
                       IF HasKey(v, props[i][1])
                       THEN AllowedIn(R, props[i][2], Get(v, props[i][1]))
                       ELSE any])
                ELSE any
      kPats == IF obj /\ Has(S, "patternProperties")
               THEN ConjSets([ij \in (1..Len(pats)) \X (1..Len(v.v)) |->
                      IF Match(pats[ij[1]][1], v.v[ij[2]][1])
                      THEN AllowedIn(R, pats[ij[1]][2], v.v[ij[2]][2])
                      ELSE any])
               ELSE any
      IsAdditional(key) == /\ ~PairsHasKey(props, key)
                           /\ \A i \in 1..Len(pats) : ~Match(pats[i][1], key)
      kAddP == IF obj /\ Has(S, "additionalProperties")
               THEN ConjSets([i \in 1..Len(v.v) |->
                      IF IsAdditional(v.v[i][1])
                      THEN AllowedIn(R, S.additionalProperties, v.v[i][2])
                      ELSE any])
               ELSE any
      kNames == IF obj /\ Has(S, "propertyNames")
                THEN ConjSets([i \in 1..Len(v.v) |->
                       AllowedIn(R, S.propertyNames, JStr(v.v[i][1]))])
                ELSE any
      kDepL == IF obj /\ Has(S, "depsL")
               THEN T(\A i \in 1..Len(S.depsL) :
                        HasKey(v, S.depsL[i][1]) =>
                          \A j \in 1..Len(S.depsL[i][2]) : HasKey(v, S.depsL[i][2][j]))
               ELSE any
      kDepS == IF obj /\ Has(S, "depsS")
               THEN ConjSets([i \in 1..Len(S.depsS) |->
                      IF HasKey(v, S.depsS[i][1])
                      THEN AllowedIn(R, S.depsS[i][2], v) ELSE any])
               ELSE any
      (* composition *)
      kAll == IF Has(S, "allOf")
              THEN ConjSets([i \in 1..Len(S.allOf) |-> AllowedIn(R, S.allOf[i], v)])
              ELSE any
      kAny == IF Has(S, "anyOf")
              THEN DisjSets([i \in 1..Len(S.anyOf) |-> AllowedIn(R, S.anyOf[i], v)])
              ELSE any
      kOne == IF Has(S, "oneOf")
              THEN OneSets([i \in 1..Len(S.oneOf) |-> AllowedIn(R, S.oneOf[i], v)])
              ELSE any
      kNot == IF Has(S, "not") THEN NegSet(AllowedIn(R, S["not"], v)) ELSE any
  IN ConjSets(<< kType, kTypes, kConst, kEnum,
                 kMin, kMax, kXMin, kXMax, kMult,
                 kMinL, kMaxL, kPat, kFmt,
                 kMinI, kMaxI, kUniq, kItems, kItemsT, kCont,
                 kMinP, kMaxP, kReq, kProps, kPats, kAddP, kNames, kDepL, kDepS,
                 kAll, kAny, kOne, kNot >>)

Allowed(S, v) == AllowedIn(S, S, v)

(***************************************************************************)
(* Structure of schemas: sub-schema positions (the 13 positions statham    *)
(* interprets as schemas, plus definitions).                               *)
(***************************************************************************)
SingleKws == {"items", "additionalItems", "contains", "additionalProperties",
              "propertyNames", "not"}
SeqKws    == {"itemsT", "anyOf", "oneOf", "allOf"}
PairKws   == {"properties", "patternProperties", "depsS", "definitions"}
UnsupportedKws == {"if", "then", "else", "$defs", "unevaluatedItems",
                   "unevaluatedProperties"}

(* Immediate sub-schemas of S as a sequence                                *)
SubSchemas(S) ==
  IF IsBoolSchema(S) THEN <<>>
  ELSE LET one(kw) == IF Has(S, kw) THEN <<S[kw]>> ELSE <<>>
           sq(kw)  == IF Has(S, kw) THEN S[kw] ELSE <<>>
           pr(kw)  == IF Has(S, kw) THEN [i \in 1..Len(S[kw]) |-> S[kw][i][2]] ELSE <<>>
       IN one("items") \o one("additionalItems") \o one("contains")
          \o one("additionalProperties") \o one("propertyNames") \o one("not")
          \o sq("itemsT") \o sq("anyOf") \o sq("oneOf") \o sq("allOf")
          \o pr("properties") \o pr("patternProperties") \o pr("depsS")
          \o pr("definitions")

RECURSIVE SchemaDepth(_)
SchemaDepth(S) ==
  LET subs == SubSchemas(S)
  IN IF Len(subs) = 0 THEN 0
     ELSE 1 + (CHOOSE m \in {SchemaDepth(subs[i]) : i \in 1..Len(subs)} :
                  \A i \in 1..Len(subs) : SchemaDepth(subs[i]) <= m)

(* Number of keyword occurrences in the whole document (size measure)      *)
RECURSIVE SchemaSize(_)
RECURSIVE SumSizes(_)
SumSizes(subs) == IF Len(subs) = 0 THEN 0
                  ELSE SchemaSize(Head(subs)) + SumSizes(Tail(subs))
SchemaSize(S) ==
  IF IsBoolSchema(S) THEN 1
  ELSE Cardinality(DOMAIN S \ {"sch"}) + SumSizes(SubSchemas(S))

(* Does an unsupported keyword occur at any schema position of S?          *)
RECURSIVE HasUnsupported(_)
HasUnsupported(S) ==
  IF IsBoolSchema(S) THEN FALSE
  ELSE \/ DOMAIN S \cap UnsupportedKws # {}
       \/ \E i \in 1..Len(SubSchemas(S)) : HasUnsupported(SubSchemas(S)[i])
=============================================================================
