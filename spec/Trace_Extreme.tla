----------------------------- MODULE Trace_Extreme -----------------------------
EXTENDS Extreme, TraceData, Json

(* TLC orders record fields by the order in which their names were first seen: the tag
   field k of JSON values must be met before v (heterogeneous values are told apart by k) *)
LOCAL InternOrderKV == [k |-> 0, v |-> 0]
VARIABLE i
Init == i = 0
Next == i < Len(Events) /\ i' = i + 1
Spec == Init /\ [][Next]_i
Judge(e) == IF e.p = "C01" THEN (e.parse = "ok" /\ R_C01_extreme(e.c, e.call))
            ELSE R_C10_parse(e.parse) /\ (e.parse = "ok" => R_C10_call(e.call)) /\ e.terminated
Inv == i = 0 \/ Judge(Events[i]) \/ PrintT(ToJson([reject |-> Events[i].id]))
Consumed == TLCGet("stats").diameter = Len(Events) + 1
=============================================================================
