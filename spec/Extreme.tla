------------------------------- MODULE Extreme -------------------------------
(***************************************************************************)
(* C10 outside the comfortable range: numbers near and beyond the float    *)
(* range, unusual strings as values and as property names, deep nesting.   *)
(* Values and schema atoms are CLASSES (named tokens); the harness         *)
(* concretises them.  The outcome alphabet is part of the model: for the   *)
(* numeric validators the model predicts Python's arithmetic failure       *)
(* modes by exponent arithmetic (float overflow when the binary exponent   *)
(* reaches 1024, int -> float conversion failing beyond it).               *)
(***************************************************************************)
EXTENDS Integers, Sequences, FiniteSets, TLC

OverflowFallback == TRUE    \* MultipleOf falls back to exact arithmetic on OverflowError
ConstructFallback == TRUE   \* Number.construct keeps an int that has no float
IntDivisorFallback == TRUE  \* so does the integer-divisor branch (value % multipleOf with a float value)
DateTimeOverflowCaught == TRUE   \* _is_date_time catches ParserError, TypeError and OverflowError
StrDigitsLimit == TRUE      \* the interpreter refuses repr()/str() of ints beyond 4300 digits (CPython >= 3.11)

(* numeric value classes: [name, exp (binary exponent), isint] *)
NumClasses == {
  [name |-> "zero",      exp |-> 0,     isint |-> TRUE],
  [name |-> "one",       exp |-> 0,     isint |-> TRUE],
  [name |-> "negzerof",  exp |-> 0,     isint |-> FALSE],
  [name |-> "onehalf",   exp |-> -1,    isint |-> FALSE],
  [name |-> "p53plus1",  exp |-> 53,    isint |-> TRUE],
  [name |-> "fmax",      exp |-> 1023,  isint |-> FALSE],
  [name |-> "negfmax",   exp |-> 1023,  isint |-> FALSE],
  [name |-> "int308",    exp |-> 1023,  isint |-> TRUE],
  [name |-> "denormal",  exp |-> -1074, isint |-> FALSE],
  [name |-> "int1024m1", exp |-> 1023,  isint |-> TRUE],     \* 2**1024 - 1: just above the largest float
  [name |-> "bigint",    exp |-> 1330,  isint |-> TRUE],
  [name |-> "negbigint", exp |-> 1330,  isint |-> TRUE],
  [name |-> "int5000d",  exp |-> 16609, isint |-> TRUE] }    \* 10**5000: beyond the str-digits limit
StrClasses == {"empty", "nul", "paren", "bracket", "smiley", "backslash", "long", "astral",
               "combining", "surrogate", "newline", "percent_s", "brace", "digits30", "uuid_braced", "digits2", "aa"}
ShapeClasses == {"list_of", "dict_of", "deep_list", "deep_dict", "dict_unusual_key", "mixed_unhashable"}

(* multipleOf arguments: [name, exp, isfloat] *)
MultClasses == { [name |-> "m_half", exp |-> -1, isfloat |-> TRUE],
                 [name |-> "m_three", exp |-> 1, isfloat |-> FALSE],
                 [name |-> "m_threef", exp |-> 1, isfloat |-> TRUE],
                 [name |-> "m_tiny", exp |-> -1000, isfloat |-> TRUE],
                 [name |-> "m_bigint", exp |-> 1330, isfloat |-> FALSE] }

(* numeric.py MultipleOf._validate, failure modes only *)
MultipleOfRaises(v, m) ==
  IF ~m.isfloat                               \* value % int: exact for an int value; a float value
  THEN ~IntDivisorFallback /\ ~v.isint /\ m.exp > 1023   \* converts the divisor: "int too large to convert to float"
  ELSE IF OverflowFallback THEN FALSE
  ELSE \/ v.isint /\ v.exp > 1023             \* int / float: "int too large to convert to float"
       \/ v.exp - m.exp >= 1024               \* quotient is inf; int(inf) raises OverflowError
(* validation/format.py _is_date_time: dateutil raises OverflowError for a numeric token  *)
(* beyond the C long range (documented by dateutil), which the checker does not catch     *)
FormatRaises(atom, s) == atom = "format_datetime" /\ s = "digits30" /\ ~DateTimeOverflowCaught
(* exceptions.py from_validator / multiple_composition_match format the rejected value     *)
(* with repr()/str(): every REJECTION of an integer beyond the interpreter's str-digits    *)
(* limit raises ValueError instead of the validation error                                 *)
RejectsHugeInt == {"maximum_big", "const_big", "enum_mixed", "anyOf_str_int", "oneOf_two", "allOf_conflict",
                   "not_any", "type_list", "required_named", "object_class"}
MessageRaises(atom, v) == StrDigitsLimit /\ v.isint /\ v.exp > 14284 /\ atom \in RejectsHugeInt
(* elements/numeric.py Number.construct: float(value) *)
NumberConstructRaises(v) == ~ConstructFallback /\ v.isint /\ v.exp > 1023

SchemaAtoms == {"multipleOf", "type_number", "type_integer", "minimum", "maximum_big", "const_big",
                "enum_mixed", "uniqueItems", "anyOf_str_int", "oneOf_two", "allOf_conflict", "not_any",
                "type_list", "pattern", "format_datetime", "format_uuid", "minLength", "property_named",
                "required_named", "propertyNames", "patternProperties", "dependencies_named",
                "items_number", "contains_const", "additionalProperties_false", "object_class",
                (* patterns that are valid one by one but cannot be joined into one expression *)
                "patterns_inline_flag", "patterns_same_group",
                (* constructs of Python's regex dialect beyond the plain family of Draft6.tla *)
                "pattern_neg_lookbehind", "pattern_lookahead", "pattern_backreference",
                (* finite, acyclic schemas nested beyond the interpreter's recursion budget:   *)
                (* parsing must end in an error of the schema-parse family, not RecursionError *)
                "deep_items", "deep_not", "deep_anyOf", "deep_properties", "deep_additional",
                "deep_dependencies", "deep_within_budget"}
NameClasses == {"nul", "del", "private_use", "surrogate", "paren", "space", "superscript", "empty",
                "combining", "keyword", "dunder", "dunder_custom", "dunder_only"}

(***************************************************************************)
(* Verdicts Draft 6 prescribes for the numeric extremes (reference facts;   *)
(* the harness re-derives every entry with exact rational arithmetic        *)
(* before trusting the table -- a mismatch is a machinery failure).         *)
(* Values: zero 0, one 1, negzerof -0.0, onehalf 0.5, p53plus1 2**53+1,     *)
(* fmax / negfmax +-1.7976931348623157e308, int308 10**308,                 *)
(* int1024m1 2**1024-1, denormal 5e-324, bigint / negbigint +-10**400,      *)
(* int5000d 10**5000.                                                      *)
(***************************************************************************)
MultiplesOf(m) ==
  CASE m = "m_half"   -> {"zero", "one", "negzerof", "onehalf", "p53plus1", "fmax", "negfmax", "int308",
                          "int1024m1", "bigint", "negbigint", "int5000d"}
    [] m = "m_three"  -> {"zero", "negzerof", "p53plus1", "int1024m1"}
    [] m = "m_threef" -> {"zero", "negzerof", "p53plus1", "int1024m1"}
    [] m = "m_tiny"   -> {"zero", "negzerof"}
    [] m = "m_bigint" -> {"zero", "negzerof", "bigint", "negbigint", "int5000d"}
AtLeastOne == {"one", "p53plus1", "fmax", "int308", "int1024m1", "bigint", "int5000d"}
Integers_ == {"zero", "one", "p53plus1", "int308", "int1024m1", "bigint", "negbigint", "int5000d"}
ExpectedAccept(c) ==     \* {TRUE}, {FALSE}, or BOOLEAN where the table says nothing
  IF c.kind = "mult" /\ c.arg = "m_tiny" THEN BOOLEAN     \* 1e-300 is not binary-exact: numeric accuracy (A4)
  ELSE IF c.kind = "mult" THEN {c.val \in MultiplesOf(c.arg)}
  ELSE IF c.kind = "num" /\ c.atom = "type_number" THEN {TRUE}
  ELSE IF c.kind = "num" /\ c.atom = "type_integer" THEN {c.val \in Integers_}
  ELSE IF c.kind = "num" /\ c.atom = "minimum" THEN {c.val \in AtLeastOne}
  ELSE IF c.kind = "num" /\ c.atom = "maximum_big" THEN {c.val # "int5000d"}
  ELSE IF c.kind = "num" /\ c.atom = "const_big" THEN {c.val = "bigint"}
  ELSE BOOLEAN
R_C01_extreme(c, kind) == (kind = "ok" /\ TRUE \in ExpectedAccept(c)) \/ (kind = "reject" /\ FALSE \in ExpectedAccept(c))

R_C10_call(kind)  == kind \in {"ok", "reject", "typeerror"}
R_C10_parse(kind) == kind \in {"ok", "parseerr", "notimpl"}
=============================================================================
