------------------------------- MODULE Extreme -------------------------------
(***************************************************************************)
(* C10 outside the comfortable range: numbers near and beyond the float    *)
(* range, unusual strings as values and as property names, deep nesting.   *)
(* Values and schema atoms are CLASSES (named tokens); the harness         *)
(* concretises them.  The outcome alphabet is part of the model: for the   *)
(* numeric validators the model predicts Python's arithmetic failure       *)
(* modes by exponent arithmetic (float overflow when the binary exponent   *)
(* reaches 1024, int -> float conversion failing beyond it).               *)
(***************************************************************************)
EXTENDS Integers, Sequences, FiniteSets, TLC

OverflowFallback == TRUE    \* MultipleOf falls back to exact arithmetic on OverflowError
ConstructFallback == TRUE   \* Number.construct keeps an int that has no float

(* numeric value classes: [name, exp (binary exponent), isint] *)
NumClasses == {
  [name |-> "zero",      exp |-> 0,     isint |-> TRUE],
  [name |-> "one",       exp |-> 0,     isint |-> TRUE],
  [name |-> "negzerof",  exp |-> 0,     isint |-> FALSE],
  [name |-> "onehalf",   exp |-> -1,    isint |-> FALSE],
  [name |-> "p53plus1",  exp |-> 53,    isint |-> TRUE],
  [name |-> "fmax",      exp |-> 1023,  isint |-> FALSE],
  [name |-> "negfmax",   exp |-> 1023,  isint |-> FALSE],
  [name |-> "int308",    exp |-> 1023,  isint |-> TRUE],
  [name |-> "denormal",  exp |-> -1074, isint |-> FALSE],
  [name |-> "bigint",    exp |-> 1330,  isint |-> TRUE],
  [name |-> "negbigint", exp |-> 1330,  isint |-> TRUE] }
StrClasses == {"empty", "nul", "paren", "bracket", "smiley", "backslash", "long", "astral",
               "combining", "surrogate", "newline", "percent_s", "brace"}
ShapeClasses == {"list_of", "dict_of", "deep_list", "deep_dict", "dict_unusual_key", "mixed_unhashable"}

(* multipleOf arguments: [name, exp, isfloat] *)
MultClasses == { [name |-> "m_half", exp |-> -1, isfloat |-> TRUE],
                 [name |-> "m_three", exp |-> 1, isfloat |-> FALSE],
                 [name |-> "m_threef", exp |-> 1, isfloat |-> TRUE],
                 [name |-> "m_tiny", exp |-> -1000, isfloat |-> TRUE] }

(* numeric.py MultipleOf._validate, failure modes only *)
MultipleOfRaises(v, m) ==
  IF ~m.isfloat THEN FALSE                    \* value % int: exact (int) or float modulo, no overflow
  ELSE IF OverflowFallback THEN FALSE
  ELSE \/ v.isint /\ v.exp > 1023             \* int / float: "int too large to convert to float"
       \/ v.exp - m.exp >= 1024               \* quotient is inf; int(inf) raises OverflowError
(* elements/numeric.py Number.construct: float(value) *)
NumberConstructRaises(v) == ~ConstructFallback /\ v.isint /\ v.exp > 1023

SchemaAtoms == {"multipleOf", "type_number", "type_integer", "minimum", "maximum_big", "const_big",
                "enum_mixed", "uniqueItems", "anyOf_str_int", "oneOf_two", "allOf_conflict", "not_any",
                "type_list", "pattern", "format_datetime", "format_uuid", "minLength", "property_named",
                "required_named", "propertyNames", "patternProperties", "dependencies_named",
                "items_number", "contains_const", "additionalProperties_false", "object_class"}
NameClasses == {"nul", "del", "private_use", "surrogate", "paren", "space", "superscript", "empty",
                "combining", "keyword", "dunder"}

R_C10_call(kind)  == kind \in {"ok", "reject", "typeerror"}
R_C10_parse(kind) == kind \in {"ok", "parseerr", "notimpl"}
=============================================================================
