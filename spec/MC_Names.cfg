\* quick-tier constants of MC_Names (the harness generates the cfg text per tier:
\* harness/namesfamily.py TIERS; thorough = MaxLen 4, Rich TRUE, MaxTitle 3, MaxSlots 3)
CONSTANTS
 MaxLen = 3
 WideLen = 3
 PairLen = 3
 Rich = FALSE
 MaxTitle = 2
 UseLen = 2
 MaxSlots = 2
SPECIFICATION Spec
INVARIANT Inv
CHECK_DEADLOCK FALSE
