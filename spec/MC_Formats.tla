------------------------------ MODULE MC_Formats ------------------------------
(***************************************************************************)
(* Bounded instance of the format registry (C16): every history of         *)
(* Register / Check events of length MaxLen over                           *)
(*    NNames format names  x  NCheckers checkers  x  the values ValueIdx.  *)
(* PreReg = TRUE starts from a registry that already holds the built-in    *)
(* "uuid" (abstract checker IsUuid), so that re-registering and checking a *)
(* built-in name is explored as well.                                      *)
(*                                                                         *)
(* Format names other than "uuid" are interchangeable in the model; only   *)
(* histories that introduce them in the order a, b, c are generated (the   *)
(* harness gives them fresh concrete names per behaviour).                 *)
(*                                                                         *)
(* One JSON line per COMPLETE history (Len(hist) = MaxLen) is exported for *)
(* the replay: every shorter history is a prefix of one of them, and the   *)
(* replay compares the outcome after every step.                           *)
(***************************************************************************)
EXTENDS Formats, Json

CONSTANTS MaxLen, NNames, NCheckers, ValueIdx, PreReg

AllValues == << StrV(""), StrV("a"), StrV("ab"), IntV, NullV, ArrV,
                StrV("abc"), BoolV, ObjV, NumV, StrV(NilUuid) >>
Values == {AllValues[j] : j \in ValueIdx}
Fresh == SubSeq(<<"a", "b", "c">>, 1, NNames)
Names == {Fresh[j] : j \in 1..NNames} \cup (IF PreReg THEN {"uuid"} ELSE {})
Checkers == {AllCheckers[j] : j \in 1..NCheckers} \cup (IF PreReg THEN {"IsUuid"} ELSE {})
InitPairs == IF PreReg THEN << <<"uuid", "IsUuid">> >> ELSE <<>>
InitReg == RegOf(InitPairs)

Used(n) == n \in {hist[j].n : j \in 1..Len(hist)}
Canonical(n) == IF n = "uuid" THEN TRUE
                ELSE \E j \in 1..NNames :
                       Fresh[j] = n /\ (IF j = 1 THEN TRUE ELSE Used(Fresh[j - 1]))

Init == registry = InitReg /\ hist = <<>>
DoRegister == \E n \in Names, c \in Checkers : Canonical(n) /\ Register(n, c)
DoCheck    == \E n \in Names, v \in Values : Canonical(n) /\ Check(n, v)
Next == Len(hist) < MaxLen /\ (DoRegister \/ DoCheck)
Spec == Init /\ [][Next]_<<registry, hist>>

(* the registry variable and the declarative reference must agree (a       *)
(* disagreement is a specification error, checked as a plain invariant)    *)
RegistryIsInForce ==
  \A n \in Names : InForce(InitReg, hist, Len(hist) + 1, n) =
                   IF n \in DOMAIN registry THEN <<TRUE, registry[n]>> ELSE <<FALSE, "-">>

Export == PrintT(ToJson([init |-> InitPairs, hist |-> hist, m16 |-> ~R_C16(InitReg, hist)]))
Inv == Len(hist) < MaxLen \/ Export
=============================================================================
