------------------------------ MODULE Lifecycle ------------------------------
(***************************************************************************)
(* IMPLEMENTATION MODEL of the life of elements and model classes          *)
(* (C08 purity, C13 reconfiguration, C15 inheritance).                     *)
(*                                                                         *)
(* State: heap, a function from object names to element records            *)
(*   "E"  an untyped Element with properties (an instance)                 *)
(*   "C"  an Object class                                                  *)
(*   "D"  a subclass of C, created by the action Subclass (ObjectMeta      *)
(*        .__new__: keywords fall back to the inherited attribute,         *)
(*        inherited properties are CLONED, then overlaid)                  *)
(* Everything a validation call derives (validators, Properties, Items) is *)
(* ephemeral: it exists only inside Validate and is absent from the next   *)
(* state -- that is the design claim C13 rests on.  Validate is written    *)
(* with every write the code performs on pre-existing objects: the bind()  *)
(* rewrites (stutters: name/source/parent are re-written with the values   *)
(* they already have) and, while RequiredAppends is TRUE, the append to    *)
(* the element's own `required` list.                                      *)
(***************************************************************************)
EXTENDS Elements, TLC

RequiredAppends == FALSE   \* validation/object.py Required.from_element: `required += ...`

Prop(attr, src, req, el) == [attr |-> attr, source |-> src, required |-> req, elem |-> el]
StringE == Mk("String", EmptyKw)
IntegerE == Mk("Integer", EmptyKw)

(* one attribute, two spellings in element records (a sub-schema or a boolean; one schema *)
(* or a tuple): assigning one spelling replaces the other                                 *)
AltSpelling(kw) == CASE kw = "additionalItems" -> {"additionalItemsB"} [] kw = "additionalItemsB" -> {"additionalItems"}
                     [] kw = "additionalProperties" -> {"additionalPropertiesB"}
                     [] kw = "additionalPropertiesB" -> {"additionalProperties"}
                     [] kw = "items" -> {"itemsT"} [] kw = "itemsT" -> {"items"} [] OTHER -> {}
SetKw(e, kw, val) == [e EXCEPT !.kw = [k \in (DOMAIN e.kw \ AltSpelling(kw)) \cup {kw} |-> IF k = kw THEN val ELSE e.kw[k]]]
DelKw(e, kw) == [e EXCEPT !.kw = [k \in DOMAIN e.kw \ {kw} |-> e.kw[k]]]
HasProp(e, attr) == \E i \in 1..Len(PropsOf(e)) : PropsOf(e)[i].attr = attr
PropIdx(e, attr) == CHOOSE i \in 1..Len(PropsOf(e)) : PropsOf(e)[i].attr = attr

(* _PropertyDict.__setitem__: existing key keeps its position, new key is appended *)
PutProp(e, p) ==
  IF HasProp(e, p.attr)
  THEN SetKw(e, "properties", [PropsOf(e) EXCEPT ![PropIdx(e, p.attr)] = p])
  ELSE SetKw(e, "properties", Append(PropsOf(e), p))
RemoveProp(e, attr) ==
  SetKw(e, "properties", SelectSeq(PropsOf(e), LAMBDA p : p.attr # attr))
(* props[new] = props.pop(attr): the property object moves to another attribute name; its *)
(* JSON name (source) was fixed by its first binding and stays                             *)
MoveProp(e, attr, new) ==
  LET p == PropsOf(e)[PropIdx(e, attr)]
  IN SetKw(e, "properties",
           Append(SelectSeq(PropsOf(e), LAMBDA q : q.attr # attr), [p EXCEPT !.attr = new]))
(* properties[attr].element.default = d: a change made BELOW the element, in place *)
SetPropDefault(e, attr, d) ==
  SetKw(e, "properties",
        [PropsOf(e) EXCEPT ![PropIdx(e, attr)] = [@ EXCEPT !.elem = SetKw(@, "default", d)]])
ToggleRequired(e, attr) ==
  SetKw(e, "properties",
        [PropsOf(e) EXCEPT ![PropIdx(e, attr)] = [@ EXCEPT !.required = ~@]])

(***************************************************************************)
(* ObjectMeta.__new__ for `class D(C, **kwargs): <props>`                  *)
(***************************************************************************)
ClassKeywords == {"default", "const", "enum", "required", "description", "minProperties",
                  "maxProperties", "patternProperties", "additionalProperties",
                  "additionalPropertiesB", "propertyNames", "depsL", "depsS"}
Merge(parent, name, kwargs, props) ==
  LET inherited == [k \in (DOMAIN parent.kw \cap ClassKeywords) \ DOMAIN kwargs |-> parent.kw[k]]
      (* additionalProperties passed explicitly (bool or element) replaces both spellings *)
      inh2 == IF DOMAIN kwargs \cap {"additionalProperties", "additionalPropertiesB"} # {}
              THEN [k \in DOMAIN inherited \ {"additionalProperties", "additionalPropertiesB"}
                      |-> inherited[k]]
              ELSE inherited
      (* `dependencies` is ONE keyword (array- and schema-valued entries together) *)
      inh3 == IF DOMAIN kwargs \cap {"depsL", "depsS"} # {}
              THEN [k \in DOMAIN inh2 \ {"depsL", "depsS"} |-> inh2[k]]
              ELSE inh2
      RECURSIVE overlay(_, _)
      overlay(base, ps) ==
        IF Len(ps) = 0 THEN base
        ELSE LET p == Head(ps)
                 idx == {i \in 1..Len(base) : base[i].attr = p.attr}
             IN overlay(IF idx = {} THEN Append(base, p)
                        ELSE [base EXCEPT ![CHOOSE i \in idx : TRUE] = p], Tail(ps))
      merged == inh3 @@ kwargs
      (* an explicit additionalProperties=True is the default again: nothing is stored *)
      norm == IF "additionalPropertiesB" \in DOMAIN merged /\ merged.additionalPropertiesB
              THEN [k \in DOMAIN merged \ {"additionalPropertiesB"} |-> merged[k]] ELSE merged
  IN MkObj(name, norm @@ [properties |-> overlay(PropsOf(parent), props)])

(***************************************************************************)
(* A validation call: outcome and the writes it performs on the heap       *)
(***************************************************************************)
ValidateOutcome(e, v) == Call(e, v)
ValidateWrites(e, v) ==
  IF RequiredAppends /\ ~IsNP(v) /\ K(e, "required") /\ Len(e.kw.required) > 0
     /\ Len(PropsOf(e)) > 0
  THEN SetKw(e, "required", e.kw.required \o PropsRequired(e))
  ELSE e
=============================================================================
