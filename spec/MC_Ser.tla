-------------------------------- MODULE MC_Ser --------------------------------
(***************************************************************************)
(* Bounded instance for the serializer model: the same document builder as *)
(* MC_Doc; in every state TLC evaluates, on the MODEL,                      *)
(*   J0 = ToJsonDoc(Parse(doc))                                            *)
(*   C03: J0 is well-formed, its references resolve, and it gives the       *)
(*        verdicts the model element gives (reference: Draft6/Meta)        *)
(*   C06: J1 = ToJsonDoc(Parse(Materialize(J0))) equals J0                 *)
(* and exports J0 so that the real serializer can be compared with it.     *)
(***************************************************************************)
EXTENDS DocSeeds, Annot, PropsElem, Json

(* TLC orders record fields by the order in which their names were first seen: the tag
   field k of JSON values must be met before v (heterogeneous values are told apart by k) *)
LOCAL InternOrderKV == [k |-> 0, v |-> 0]

CONSTANTS WithUnsupported, SeedLevels
VARIABLES doc, budget
vars == <<doc, budget>>
Init == doc = Empty /\ budget = MaxSize
Spend == budget > 0 /\ budget' = budget - 1
AddLeaf == Spend /\ doc' \in {T \in LeafExt(doc) : LeafOK(T)}
AddSub  == Spend /\ MaxDepth > 0 /\ doc' \in NewSubExt(doc)
AddDeep == Spend /\ MaxDepth > 0 /\ doc' \in Ext(doc, MaxDepth) \ (LeafExt(doc) \cup NewSubExt(doc))
Next == AddLeaf \/ AddSub \/ AddDeep
Spec == Init /\ [][Next]_vars
InitSeeds == (doc \in Seeds \cup (IF WithUnsupported THEN SeedsUns ELSE {}) /\ budget = SeedLevels)
             \/ (doc \in Seeds0 /\ budget = 0)
SeedSpec == InitSeeds /\ [][Next]_vars

(* json_ref_dict.materialize: every "$ref" replaced by the definition it names *)
RECURSIVE InlineS(_, _, _)
InlineS(R, S, fuel) ==
  IF IsBoolSchema(S) THEN S
  ELSE IF Has(S, "ref") THEN
      IF fuel > 0 /\ Has(R, "definitions") /\ PairsHasKey(R.definitions, S.ref)
      THEN InlineS(R, PairsGet(R.definitions, S.ref), fuel - 1) ELSE S
  ELSE [k \in DOMAIN S \ {"definitions"} |->
          IF k \in SingleKws THEN InlineS(R, S[k], fuel)
          ELSE IF k \in SeqKws THEN [i \in 1..Len(S[k]) |-> InlineS(R, S[k][i], fuel)]
          ELSE IF k \in PairKws THEN [i \in 1..Len(S[k]) |-> << S[k][i][1], InlineS(R, S[k][i][2], fuel) >>]
          ELSE S[k]]

JsonOf(S) == LET e == Parse(S) IN ToJsonDoc(e, ClassTable(S))

Export ==
  LET e == Parse(doc)
      ok == ~IsErr(e)
      j0 == IF ok THEN ToJsonDoc(e, ClassTable(doc)) ELSE JNull
      kinds == IF ok THEN [i \in 1..NValues |-> Call(e, Values[i]).kind] ELSE <<>>
      c03 == IF ok THEN C03_Clause(j0, kinds) ELSE "ok"
      s0 == IF ok /\ WellFormed(j0) THEN ToSchema(j0) ELSE Empty
      d1 == InlineS(s0, s0, 8)
      j1 == IF ok /\ WellFormed(j0) THEN JsonOf(d1) ELSE JNull
      c06 == IF ok /\ WellFormed(j0) THEN C06_Clause(j0, j1) ELSE "ok"
      (* C19 on the model: every value the element builds belongs to its annotation *)
      ann == IF ok THEN AnnotOf(e, <<>>) ELSE Ty("Any")
      annNamed == IF ok THEN AnnotOf(e, ClassTable(doc)) ELSE Ty("Any")
      m19 == ok /\ AllDefaultsValid(doc)
             /\ \E i \in 1..NValues :
                    LET r == Call(e, Values[i]) IN r.kind = "ok" /\ ~HasType(r.out, ann)
  IN PrintT(ToJson([doc |-> doc, ok |-> ok, j0 |-> j0, c03 |-> c03, c06 |-> c06,
                    annot |-> annNamed, m19 |-> m19]))
Inv == Export
=============================================================================
