---------------------------- MODULE ThreadsData ----------------------------
(***************************************************************************)
(* The cases explored by Threads.tla.  THIS copy is part (i): the programs *)
(* generated from the design (BindProtocol.tla); MC_Bind runs on it.  For  *)
(* part (ii) the harness overwrites the module, in TLC's scratch           *)
(* directory, with the programs recorded from the real code (literals).    *)
(***************************************************************************)
EXTENDS BindProtocol
DataCases == BindCases
=============================================================================
