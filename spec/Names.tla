------------------------------- MODULE Names -------------------------------
(***************************************************************************)
(* Name mapping (parser._parse_attribute_name, parser._title_format,       *)
(* meta.RESERVED_PROPERTIES).  Strings are handled through their           *)
(* one-character substrings (TLC supports Len, \o and SubSeq on strings).  *)
(***************************************************************************)
EXTENDS Integers, Sequences, FiniteSets

PyKeywords == {"False", "None", "True", "and", "as", "assert", "async", "await", "break",
               "class", "continue", "def", "del", "elif", "else", "except", "finally",
               "for", "from", "global", "if", "import", "in", "is", "lambda", "nonlocal",
               "not", "or", "pass", "raise", "return", "try", "while", "with", "yield"}
ObjectDir == {"__class__", "__delattr__", "__dir__", "__doc__", "__eq__", "__format__",
              "__ge__", "__getattribute__", "__getstate__", "__gt__", "__hash__",
              "__init__", "__init_subclass__", "__le__", "__lt__", "__ne__", "__new__",
              "__reduce__", "__reduce_ex__", "__repr__", "__setattr__", "__sizeof__",
              "__str__", "__subclasshook__"}
Reserved == PyKeywords \cup ObjectDir \cup {"_dict"}

Lower == "abcdefghijklmnopqrstuvwxyz"
Upper == "ABCDEFGHIJKLMNOPQRSTUVWXYZ"
Digits == "0123456789"
Ch(s, i) == SubSeq(s, i, i)
InStr(c, s) == \E i \in 1..Len(s) : Ch(s, i) = c
IsAsciiLetter(c) == InStr(c, Lower) \/ InStr(c, Upper)
IsAsciiDigit(c) == InStr(c, Digits)
IsAsciiAlnum(c) == IsAsciiLetter(c) \/ IsAsciiDigit(c)

(* Unicode names of the ASCII symbols of the vocabulary (unicodedata.name,  *)
(* lower-cased, as the code does)                                           *)
SymbolName(c) ==
  CASE c = "$" -> "dollar sign"
    [] c = "+" -> "plus sign"
    [] c = "." -> "full stop"
    [] c = "@" -> "commercial at"
    [] c = "!" -> "exclamation mark"
    [] c = "#" -> "number sign"
    [] c = "/" -> "solidus"
    [] c = "*" -> "asterisk"
    [] c = "<" -> "less-than sign"
    [] c = ">" -> "greater-than sign"
    [] c = "=" -> "equals sign"
    [] c = ":" -> "colon"
    [] c = "," -> "comma"
    [] c = "%" -> "percent sign"
    [] c = "&" -> "ampersand"
    [] c = "?" -> "question mark"
    [] OTHER -> "unknown"

ReplaceChar(s, from, to) ==
  LET RECURSIVE go(_)
      go(i) == IF i > Len(s) THEN ""
               ELSE (IF Ch(s, i) = from THEN to ELSE Ch(s, i)) \o go(i + 1)
  IN go(1)

(* _parse_attribute_name on printable-ASCII names                           *)
AttrName(name) ==
  LET n == Len(name)
      CharMap(i) ==
        LET c == Ch(name, i) IN
        IF IsAsciiAlnum(c) \/ c \in {"_", "-", " "} THEN c
        ELSE LET lab0 == SymbolName(c)
                 lab1 == IF i # 1 /\ Ch(name, i - 1) # "_" THEN "_" \o lab0 ELSE lab0
                 lab2 == IF i # n /\ Ch(name, i + 1) # "_" THEN lab1 \o "_" ELSE lab1
             IN lab2
      RECURSIVE join(_)
      join(i) == IF i > n THEN "" ELSE CharMap(i) \o join(i + 1)
      mapped == ReplaceChar(ReplaceChar(join(1), " ", "_"), "-", "_")
  IN IF mapped = "" THEN "blank"
     ELSE LET pre == IF IsAsciiLetter(Ch(mapped, 1)) \/ Ch(mapped, 1) = "_"
                     THEN mapped ELSE "_" \o mapped
          IN IF pre \in Reserved THEN pre \o "_" ELSE pre

(* Python identifier test for ASCII strings                                 *)
IsAsciiIdentifier(s) ==
  /\ Len(s) > 0
  /\ IsAsciiLetter(Ch(s, 1)) \/ Ch(s, 1) = "_"
  /\ \A i \in 1..Len(s) : IsAsciiAlnum(Ch(s, i)) \/ Ch(s, i) = "_"
=============================================================================
