------------------------------ MODULE MC_Orderer ------------------------------
(***************************************************************************)
(* Bounded instance of the orderer family (C11).                           *)
(*  - every digraph (self-loops included) on 1..MaxClasses classes is      *)
(*    built by AddClass / AddEdge, for every variant in Variants (which    *)
(*    keyword position / wrapper chain each edge uses) and every root      *)
(*    sequence in RootSets; the orderer then runs action by action;        *)
(*  - safety invariants are checked in every state (cfg: INVARIANTS);      *)
(*  - at every terminal state one JSON line is printed for the replay:     *)
(*    the element heap, the roots, the predicted outcome and the verdict   *)
(*    of the reference predicate on the model (mok).                       *)
(*  - MC_Orderer is also run with SPECIFICATION FairSpec / PROPERTY        *)
(*    Terminates (liveness, small instance, no state constraint).          *)
(***************************************************************************)
EXTENDS Orderer, Json

Export ==
  Terminal =>
    PrintT(ToJson([nc |-> nc, nedges |-> Cardinality(edges), var |-> var,
                   heap |-> heap, roots |-> roots,
                   kind |-> status, out |-> out,
                   cyclic |-> Cyclic(heap, roots),
                   mok |-> R_C11(heap, roots, status, out)]))
Inv == Export
=============================================================================
