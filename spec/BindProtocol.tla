---------------------------- MODULE BindProtocol ----------------------------
(***************************************************************************)
(* C14, part (i): the design argument.  Access programs of validation      *)
(* calls GENERATED from the design of the code (the bind protocol), in the *)
(* event vocabulary of Threads.tla, whose interleaving semantics then      *)
(* explores them exactly like the recorded ones.                           *)
(***************************************************************************)
EXTENDS Integers, Sequences

(***************************************************************************)
(* The bind protocol of a validation call, from the design.                *)
(*                                                                         *)
(* statham/schema/elements/properties.py, Properties.__init__: EVERY call  *)
(* that looks at an object value builds a fresh Properties helper and      *)
(* binds every declared property:                                          *)
(*     for name, prop in self.props.items(): prop.bind(name=name, parent=self.element) *)
(* statham/schema/property.py, _Property.bind:                             *)
(*     if parent: self.parent = parent              BindParent             *)
(*     if not self.source: self.source = name       BindSource (if unset)  *)
(*     self.name = name                             BindName               *)
(* then the helper is read: {prop.source: prop ...} (every source), the    *)
(* matching property's name (result key) and, for messages, name/parent.   *)
(* Every other object the call writes (the helper, evolved properties,     *)
(* results) is created by the call itself.                                 *)
(*                                                                         *)
(* Abstract heap: property objects 1..NP with fields parent, source, name; *)
(* elements and attribute names are numbers, 0 = None.                     *)
(***************************************************************************)
PLoc(p, f) == 3 * (p - 1) + f          \* f: 1 parent, 2 source, 3 name
Rd(l, v) == [op |-> "r", loc |-> l, val |-> v]
Wr(l, v) == [op |-> "w", loc |-> l, val |-> v]

(* _Property.bind(name |-> nm, parent |-> e) on memory m: events and memory afterwards *)
BindEv(m, p, nm, e) ==
  LET src == m[PLoc(p, 2)]
  IN [ev |-> <<Wr(PLoc(p, 1), e), Rd(PLoc(p, 2), src)>>
               \o (IF src = 0 THEN <<Wr(PLoc(p, 2), nm)>> ELSE <<>>)
               \o <<Wr(PLoc(p, 3), nm)>>,
      m  |-> [m EXCEPT ![PLoc(p, 1)] = e,
                       ![PLoc(p, 2)] = IF src = 0 THEN nm ELSE src,
                       ![PLoc(p, 3)] = nm]]

(* decl: sequence of <<property, attribute name>> of element e, in declaration order *)
RECURSIVE BindAll(_, _, _)
BindAll(m, decl, e) ==
  IF decl = <<>> THEN [ev |-> <<>>, m |-> m]
  ELSE LET b == BindEv(m, Head(decl)[1], Head(decl)[2], e)
           r == BindAll(b.m, Tail(decl), e)
       IN [ev |-> b.ev \o r.ev, m |-> r.m]

(* {prop.source: prop for prop in self.props.values()} *)
SrcScan(m, decl) == [i \in 1..Len(decl) |-> Rd(PLoc(decl[i][1], 2), m[PLoc(decl[i][1], 2)])]

RECURSIVE PerKey(_, _, _)
PerKey(m, decl, i) ==      \* self[key].name or key ; self[key](sub_value)
  IF i > Len(decl) THEN <<>>
  ELSE SrcScan(m, decl) \o <<Rd(PLoc(decl[i][1], 3), m[PLoc(decl[i][1], 3)])>>
       \o SrcScan(m, decl) \o PerKey(m, decl, i + 1)

RECURSIVE Scans(_, _, _)
Scans(m, decl, n) == IF n = 0 THEN <<>> ELSE SrcScan(m, decl) \o Scans(m, decl, n - 1)

(* Element.__call__(value) for an object value carrying every declared key, run alone *)
(* on memory m: validators (AdditionalProperties builds a helper and looks every key  *)
(* up), construct (a second helper), Properties.__call__                              *)
CallProg(m, decl, e) ==
  LET b1 == BindAll(m, decl, e)
      b2 == BindAll(b1.m, decl, e)
  IN b1.ev \o Scans(b1.m, decl, Len(decl))
     \o b2.ev \o SrcScan(b2.m, decl) \o PerKey(b2.m, decl, 1)

(* Construction of an element (Element.properties setter -> _PropertyDict.parent      *)
(* setter) binds every declared property once.                                        *)
Construct(m, decl, e) == BindAll(m, decl, e).m

Unbound(np) == [l \in 1..(3 * np) |-> 0]
Ident(n) == [i \in 1..n |-> i]
MkCase(m0, progs) == [mem0 |-> m0, prog |-> progs,
                      at |-> [t \in 1..Len(progs) |-> Ident(Len(progs[t]))]]

(* element A (1) declares property 1 as x (11) and property 2 as z (13);              *)
(* element B (2) declares THE SAME property object 1 as y (12).                       *)
DeclA == << <<1, 11>>, <<2, 13>> >>
DeclB == << <<1, 12>> >>
HeapA  == Construct(Unbound(2), DeclA, 1)
HeapAB == Construct(HeapA, DeclB, 2)
BindCases == <<
  (* 1: two calls on one element with two properties *)
  MkCase(HeapA, <<CallProg(HeapA, DeclA, 1), CallProg(HeapA, DeclA, 1)>>),
  (* 2: three such calls *)
  MkCase(HeapA, <<CallProg(HeapA, DeclA, 1), CallProg(HeapA, DeclA, 1), CallProg(HeapA, DeclA, 1)>>),
  (* 3: the property object is shared by two elements under different names; *)
  (*    one call on each                                                     *)
  MkCase(HeapAB, <<CallProg(HeapAB, DeclA, 1), CallProg(HeapAB, DeclB, 2)>>)
>>

=============================================================================
