---------------------------- MODULE Trace_Threads ----------------------------
(***************************************************************************)
(* Trace specification of the thread family (code -> spec).                *)
(* TraceData.tla is generated from observations of REAL threads: gate      *)
(* replays of TLC's interleavings, pre-emption sweeps, free-running rounds *)
(* (with the monitor's write log).  One state per event; the invariant     *)
(* evaluates the reference predicate R_C14 on what was observed and prints *)
(* a reject line naming the failing clause instead of failing; a round     *)
(* whose write log holds value-changing writes to pre-existing objects is  *)
(* printed as a suspect (mechanism, not a verdict).                        *)
(*   event [id, got, alone, tree0, tree1, seq, writes, changing]           *)
(***************************************************************************)
EXTENDS ThreadsRef, TraceData, TLC, Json

VARIABLE i
TInit == i = 0
TNext == i < Len(Events) /\ i' = i + 1
TSpec == TInit /\ [][TNext]_i

Clause(e) == IF Len(e.got) # Len(e.alone) THEN "threads"
             ELSE IF ~SameVerdicts(e) THEN "verdict"
             ELSE IF ~SameResults(e) THEN "result"
             ELSE "tree"
Suspect(e) == e.changing > 0 /\ PrintT(ToJson([suspect |-> e.id, changing |-> e.changing]))
TInv == \/ i = 0
        \/ LET e == Events[i]
           IN (Suspect(e) \/ TRUE) /\
              (R_C14(e) \/ PrintT(ToJson([reject |-> e.id, clause |-> Clause(e)])))
Consumed == TLCGet("stats").diameter = Len(Events) + 1
=============================================================================
