------------------------------ MODULE MC_DocRef ------------------------------
EXTENDS DocBuilder, Universe, Json
VARIABLE doc
Init == doc = Empty
Next == doc' \in {T \in Ext(doc, MaxDepth) : DocSize(T) <= MaxSize}
Spec == Init /\ [][Next]_doc
AllowedVec(S) == [i \in 1..NValues |-> Allowed(S, Values[i])]
Export == PrintT(ToJson([doc |-> doc, allowed |-> AllowedVec(doc), size |-> DocSize(doc)]))
Inv == Export
=============================================================================
