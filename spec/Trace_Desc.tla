------------------------------ MODULE Trace_Desc ------------------------------
(* code -> spec: observed docstrings / descriptions of executed generated classes *)
EXTENDS Docstring, TraceData, Json
VARIABLE i
Init == i = 0
Next == i < Len(Events) /\ i' = i + 1
Spec == Init /\ [][Next]_i
Judge(e) == R_Doc(e.s, e.ok, e.doc) /\ R_Desc(e.s, e.ok, e.desc)
            /\ e.parsed = e.s /\ e.json = e.s
Inv == i = 0 \/ Judge(Events[i]) \/ PrintT(ToJson([reject |-> Events[i].id]))
Consumed == TLCGet("stats").diameter = Len(Events) + 1
=============================================================================
