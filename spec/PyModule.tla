------------------------------ MODULE PyModule ------------------------------
(***************************************************************************)
(* IMPLEMENTATION MODEL of Python code generation on element records:      *)
(*   serializers/orderer.py  get_children (the ten paths, in code order),  *)
(*                           get_object_classes, orderer (pop loop)        *)
(*   elements/meta.py        ObjectMeta.python (class line, docstring,     *)
(*                           property lines)                               *)
(*   property.py             _Property.python / __repr__ (source shown     *)
(*                           only when it differs from the attribute)      *)
(* The generated module is modelled structurally (the harness reads the    *)
(* real text back with Python's ast):                                      *)
(*   <<[name, base, args, doc, props: <<[attr, ann, required, source]>>]>> *)
(***************************************************************************)
EXTENDS Annot

(* immediate children in the order of orderer.get_children's `paths` *)
ChildrenOf(e) ==
  LET kw == e.kw
      has(k) == k \in DOMAIN kw
      one(k) == IF has(k) THEN <<kw[k]>> ELSE <<>>
      sq(k)  == IF has(k) THEN kw[k] ELSE <<>>
      pr(k)  == IF has(k) THEN [i \in 1..Len(kw[k]) |-> kw[k][i][2]] ELSE <<>>
      props  == IF has("properties") THEN [i \in 1..Len(kw.properties) |-> kw.properties[i].elem] ELSE <<>>
  IN one("items") \o sq("itemsT") \o one("additionalItems") \o one("contains") \o props
     \o one("additionalProperties") \o pr("patternProperties") \o one("propertyNames")
     \o pr("depsS") \o e.elems

(* get_children: every child followed by its own subtree (pre-order); elements are records, *)
(* so a shared class is met once per path (the code re-yields a revisited element too)      *)
RECURSIVE Descendants(_, _)
Descendants(e, fuel) ==
  IF fuel = 0 THEN <<>>
  ELSE LET kids == ChildrenOf(e)
           RECURSIVE each(_)
           each(i) == IF i > Len(kids) THEN <<>>
                      ELSE <<kids[i]>> \o Descendants(kids[i], fuel - 1) \o each(i + 1)
       IN each(1)

ClassNamesBelow(e, tbl) ==
  LET d == SelectSeq(Descendants(e, 12), LAMBDA x : x.cls = "Object")
  IN [i \in 1..Len(d) |-> NameIn(tbl, d[i])]

(* get_object_classes(root): the root (if a class) then every class below it, by name *)
ObjectClassesOf(root, tbl) ==
  LET all == (IF root.cls = "Object" THEN <<root>> ELSE <<>>)
             \o SelectSeq(Descendants(root, 12), LAMBDA x : x.cls = "Object")
      RECURSIVE uniq(_, _)
      uniq(i, acc) == IF i > Len(all) THEN acc
                      ELSE uniq(i + 1, IF \E j \in 1..Len(acc) : NameIn(tbl, acc[j]) = NameIn(tbl, all[i])
                                       THEN acc ELSE Append(acc, all[i]))
  IN uniq(1, <<>>)

(* orderer: repeatedly emit the first class (dict order) whose remaining dependencies are empty *)
OrderedClasses(root, tbl) ==
  LET classes == ObjectClassesOf(root, tbl)
      name(i) == NameIn(tbl, classes[i])
      deps0 == [i \in 1..Len(classes) |-> SeqRange(ClassNamesBelow(classes[i], tbl))]
      RECURSIVE pop(_, _)
      pop(done, out) ==
        LET ready == {i \in 1..Len(classes) : name(i) \notin done /\ deps0[i] \subseteq done}
        IN IF ready = {} THEN out
           ELSE LET i == CHOOSE x \in ready : \A y \in ready : x <= y
                IN pop(done \cup {name(i)}, Append(out, classes[i]))
  IN pop({}, <<>>)

ArgName(k) == CASE k = "additionalPropertiesB" -> "additionalProperties"
                 [] k \in {"depsL", "depsS"} -> "dependencies" [] OTHER -> k
ClassArgKws == {"default", "const", "enum", "required", "minProperties", "maxProperties",
                "patternProperties", "additionalProperties", "additionalPropertiesB",
                "propertyNames", "depsL", "depsS"}
PyClassOf(c, tbl) ==
  [name |-> NameIn(tbl, c), base |-> "Object",
   args |-> {ArgName(k) : k \in DOMAIN c.kw \cap ClassArgKws},
   doc |-> IF K(c, "description") THEN <<c.kw.description>> ELSE <<>>,
   props |-> [i \in 1..Len(PropsOf(c)) |->
                LET p == PropsOf(c)[i] IN
                [attr |-> p.attr, ann |-> PropAnnotOf(p.elem, p.required, tbl), required |-> p.required,
                 source |-> IF p.source = p.attr THEN <<>> ELSE <<p.source>>]]]

PyModuleOf(root, tbl) ==
  LET cs == OrderedClasses(root, tbl) IN [i \in 1..Len(cs) |-> PyClassOf(cs[i], tbl)]

(* design-level well-formedness of the generated module (part of C02) *)
DeclaredBeforeUse(root, tbl) ==
  LET cs == OrderedClasses(root, tbl)
  IN /\ Len(cs) = Len(ObjectClassesOf(root, tbl))                    \* nothing left behind
     /\ \A i \in 1..Len(cs) :
          SeqRange(ClassNamesBelow(cs[i], tbl)) \subseteq {NameIn(tbl, cs[j]) : j \in 1..(i - 1)}
     /\ \A i, j \in 1..Len(cs) : i < j => NameIn(tbl, cs[i]) # NameIn(tbl, cs[j])
=============================================================================
