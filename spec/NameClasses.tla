----------------------------- MODULE NameClasses -----------------------------
(***************************************************************************)
(* IMPLEMENTATION MODEL of the name mapping over all of Unicode            *)
(*   parser._parse_attribute_name  -> AttrNameC                            *)
(*   parser._title_format          -> TitleFormat / TitleFormatC           *)
(*   parser._parse_properties + the `required` part of _parse_object       *)
(*                                 -> ParsePropsC / ObjectPropsC           *)
(*   parser._ParseState.dedupe     -> Dedupe                               *)
(*   the traversal order of parse()/parse_element over titled objects      *)
(*                                 -> ParseDocC                            *)
(* written in the shape of the code.                                       *)
(*                                                                         *)
(* CHARACTER CLASSES.  The code never looks at a character itself, only at *)
(* a few predicates of it; the property needs two more (may the character  *)
(* start / continue a Python identifier).  A class is one combination of   *)
(* these attributes; the 15 classes below are exactly the combinations     *)
(* that occur in the Unicode database of the running interpreter (the      *)
(* harness re-derives the attributes of every code point from              *)
(* str.isalnum / string.whitespace / unicodedata.name / str.isidentifier   *)
(* and fails with a machinery error if a code point fits no class).        *)
(*                                                                         *)
(* ATOMS.  A name is a sequence of atoms [c |-> class, s |-> member].      *)
(* For the ASCII classes s is the text itself ("x", "_", "1", and whole    *)
(* ASCII words such as "class" or "dollar": a block of letters behaves     *)
(* like one letter for every predicate the code evaluates).  For the other *)
(* classes s is a symbolic member name ("tab", "eacute", "sup2", ...) that *)
(* the harness concretises by several code points.                         *)
(***************************************************************************)
EXTENDS Names, TLC

ClassAttr ==
  [al   |-> [alnum |-> TRUE,  sep |-> FALSE, ws |-> FALSE, named |-> "na",    ascd |-> FALSE, ascl |-> TRUE,  xs |-> TRUE,  xc |-> TRUE],
   dg   |-> [alnum |-> TRUE,  sep |-> FALSE, ws |-> FALSE, named |-> "na",    ascd |-> TRUE , ascl |-> FALSE, xs |-> FALSE, xc |-> TRUE],
   us   |-> [alnum |-> FALSE, sep |-> TRUE,  ws |-> FALSE, named |-> "na",    ascd |-> FALSE, ascl |-> FALSE, xs |-> TRUE,  xc |-> TRUE],
   hy   |-> [alnum |-> FALSE, sep |-> TRUE,  ws |-> FALSE, named |-> "na",    ascd |-> FALSE, ascl |-> FALSE, xs |-> FALSE, xc |-> FALSE],
   sp   |-> [alnum |-> FALSE, sep |-> TRUE,  ws |-> TRUE,  named |-> "na",    ascd |-> FALSE, ascl |-> FALSE, xs |-> FALSE, xc |-> FALSE],
   ows  |-> [alnum |-> FALSE, sep |-> FALSE, ws |-> TRUE,  named |-> "na",    ascd |-> FALSE, ascl |-> FALSE, xs |-> FALSE, xc |-> FALSE],
   sym  |-> [alnum |-> FALSE, sep |-> FALSE, ws |-> FALSE, named |-> "words", ascd |-> FALSE, ascl |-> FALSE, xs |-> FALSE, xc |-> FALSE],
   hsym |-> [alnum |-> FALSE, sep |-> FALSE, ws |-> FALSE, named |-> "hyph",  ascd |-> FALSE, ascl |-> FALSE, xs |-> FALSE, xc |-> FALSE],
   un   |-> [alnum |-> FALSE, sep |-> FALSE, ws |-> FALSE, named |-> "none",  ascd |-> FALSE, ascl |-> FALSE, xs |-> FALSE, xc |-> FALSE],
   nal  |-> [alnum |-> TRUE,  sep |-> FALSE, ws |-> FALSE, named |-> "na",    ascd |-> FALSE, ascl |-> FALSE, xs |-> TRUE,  xc |-> TRUE],
   nx   |-> [alnum |-> TRUE,  sep |-> FALSE, ws |-> FALSE, named |-> "na",    ascd |-> FALSE, ascl |-> FALSE, xs |-> FALSE, xc |-> FALSE],
   nd   |-> [alnum |-> TRUE,  sep |-> FALSE, ws |-> FALSE, named |-> "na",    ascd |-> FALSE, ascl |-> FALSE, xs |-> FALSE, xc |-> TRUE],
   cm   |-> [alnum |-> FALSE, sep |-> FALSE, ws |-> FALSE, named |-> "words", ascd |-> FALSE, ascl |-> FALSE, xs |-> FALSE, xc |-> TRUE],
   hcm  |-> [alnum |-> FALSE, sep |-> FALSE, ws |-> FALSE, named |-> "hyph",  ascd |-> FALSE, ascl |-> FALSE, xs |-> FALSE, xc |-> TRUE],
   xsym |-> [alnum |-> FALSE, sep |-> FALSE, ws |-> FALSE, named |-> "words", ascd |-> FALSE, ascl |-> FALSE, xs |-> TRUE,  xc |-> TRUE]]
ClassIds == DOMAIN ClassAttr

At(c, s) == [c |-> c, s |-> s]
US == At("us", "_")
HY == At("hy", "-")
SP == At("sp", " ")

(* one representative atom per class (first member), used for class-level  *)
(* predictions (the code-point sweep substitutes any member of the class)  *)
Rep(c) ==
  CASE c = "al" -> At("al", "x")       [] c = "dg" -> At("dg", "1")
    [] c = "us" -> US                  [] c = "hy" -> HY
    [] c = "sp" -> SP                  [] c = "ows" -> At("ows", "tab")
    [] c = "sym" -> At("sym", "$")     [] c = "hsym" -> At("hsym", "<")
    [] c = "un" -> At("un", "u1")      [] c = "nal" -> At("nal", "l1")
    [] c = "nx" -> At("nx", "n1")      [] c = "nd" -> At("nd", "d1")
    [] c = "cm" -> At("cm", "acute")   [] c = "hcm" -> At("hcm", "hbasa")
    [] c = "xsym" -> At("xsym", "scriptp")

(* unicodedata.name(ch).lower() of the named members; ASCII symbols reuse  *)
(* Names!SymbolName (their member name is the character itself)            *)
UniName(a) ==
  IF a.c = "un" THEN "unknown"
  ELSE IF SymbolName(a.s) # "unknown" THEN SymbolName(a.s)
  ELSE CASE a.s = "acute"     -> "combining acute accent"
         [] a.s = "middot"    -> "middle dot"
         [] a.s = "hbasa"     -> "syriac hbasa-esasa dotted"
         [] a.s = "scriptp"   -> "script capital p"
         [] a.s = "plusminus" -> "plus-minus sign"
         [] a.s = "nbsp"      -> "no-break space"
         [] a.s = "laquo"     -> "left-pointing double angle quotation mark"
         [] a.s = "euro"      -> "euro sign"
         [] a.s = "vs17"      -> "variation selector-17"
         [] OTHER             -> "unknown"

(* an atom's text is plain ASCII (member name = text) or symbolic          *)
IsAsciiAtom(a) == a.c \in {"al", "dg", "us", "hy", "sp"}
                  \/ (a.c \in {"sym", "hsym"} /\ Len(a.s) = 1)
FlatAtom(a) == IF IsAsciiAtom(a) THEN a.s ELSE "{" \o a.s \o "}"
RECURSIVE FlatSeq(_)
FlatSeq(q) == IF Len(q) = 0 THEN "" ELSE FlatAtom(Head(q)) \o FlatSeq(Tail(q))

(* classes of the characters of a plain-ASCII text                         *)
AsciiClass(ch) ==
  IF IsAsciiLetter(ch) THEN "al" ELSE IF IsAsciiDigit(ch) THEN "dg"
  ELSE IF ch = "_" THEN "us" ELSE IF ch = "-" THEN "hy" ELSE IF ch = " " THEN "sp" ELSE "sym"
ClassesOfAscii(str) == [i \in 1..Len(str) |-> AsciiClass(Ch(str, i))]

(***************************************************************************)
(* Output items: an atom plus its provenance                               *)
(*   k = "in"    copied input character o (f = its class; when c # f the   *)
(*               character was a " " or "-" later replaced by "_")         *)
(*       "ws"    underscore written for whitespace character o            *)
(*       "lab"   part of the (lower-cased) Unicode name of character o     *)
(*       "pad"   underscore put around the name of character o             *)
(*       "blank" / "pre" / "suf"  literal text: "blank", the "_" prefix,   *)
(*               the "_" suffix                                            *)
(* Provenance lets the harness substitute any code point of the class and  *)
(* names the two derivations that meet when two names collide.             *)
(***************************************************************************)
Item(k, c, s, o, f) == [k |-> k, c |-> c, s |-> s, o |-> o, f |-> f]
UsItem(k, o, f) == Item(k, "us", "_", o, f)

(* split a Unicode name into words and its separators " " / "-"            *)
RECURSIVE Toks(_, _, _)
Toks(str, i, cur) ==
  IF i > Len(str) THEN (IF cur = "" THEN <<>> ELSE <<cur>>)
  ELSE LET ch == Ch(str, i) IN
       IF ch = " " \/ ch = "-"
       THEN (IF cur = "" THEN <<>> ELSE <<cur>>) \o <<ch>> \o Toks(str, i + 1, "")
       ELSE Toks(str, i + 1, cur \o ch)

LabelItems(a, o) ==
  LET ts == Toks(UniName(a), 1, "")
  IN [j \in 1..Len(ts) |->
        IF ts[j] = " " THEN Item("lab", "sp", " ", o, a.c)
        ELSE IF ts[j] = "-" THEN Item("lab", "hy", "-", o, a.c)
        ELSE Item("lab", IF IsAsciiDigit(Ch(ts[j], 1)) THEN "dg" ELSE "al", ts[j], o, a.c)]

(* _char_map(idx, char)                                                    *)
CharMapC(name, i) ==
  LET a  == name[i]
      at == ClassAttr[a.c]
  IN IF at.alnum \/ at.sep THEN << Item("in", a.c, a.s, i, a.c) >>
     ELSE IF at.ws THEN << UsItem("ws", i, a.c) >>
     ELSE LET lab0 == LabelItems(a, i)
              lab1 == IF i # 1 /\ name[i - 1].c # "us" THEN << UsItem("pad", i, a.c) >> \o lab0 ELSE lab0
              lab2 == IF i # Len(name) /\ name[i + 1].c # "us" THEN lab1 \o << UsItem("pad", i, a.c) >> ELSE lab1
          IN lab2

RECURSIVE JoinC(_, _)
JoinC(name, i) == IF i > Len(name) THEN <<>> ELSE CharMapC(name, i) \o JoinC(name, i + 1)

(* .replace(" ", "_").replace("-", "_")                                    *)
ReplaceSeps(items) ==
  [j \in 1..Len(items) |->
     IF items[j].c \in {"sp", "hy"} THEN [items[j] EXCEPT !.c = "us", !.s = "_"] ELSE items[j]]

ItemAtoms(items) == [j \in 1..Len(items) |-> At(items[j].c, items[j].s)]
FlatItems(items) == FlatSeq(ItemAtoms(items))

(* _parse_attribute_name                                                   *)
AttrNameC(name) ==
  LET mapped == ReplaceSeps(JoinC(name, 1))
  IN IF Len(mapped) = 0 THEN << Item("blank", "al", "blank", 0, "") >>
     ELSE LET f   == mapped[1]
              pre == IF ClassAttr[f.c].ascl \/ f.c = "us" THEN mapped
                     ELSE << UsItem("pre", 0, "") >> \o mapped
          IN IF FlatItems(pre) \in Reserved THEN pre \o << UsItem("suf", 0, "") >> ELSE pre

FlatAttr(name) == FlatItems(AttrNameC(name))

(***************************************************************************)
(* Why two names collide: the derivation of each output character          *)
(*   in:<class>         the character itself                               *)
(*   rep:<class>        a " " or "-" replaced by "_"                       *)
(*   ws:<class>         "_" written for a whitespace character             *)
(*   lab:<class>/word   a word of the Unicode name of a <class> character  *)
(*   lab:<class>/sep    "_" for a " " or "-" inside that name              *)
(*   pad, prefix, suffix, blank                                            *)
(* Sig(n, m) = for every output position where the two derivations differ  *)
(* (or are the same derivation of different input characters) the set of   *)
(* the two derivations.  This is the root-cause signature of a collision.  *)
(***************************************************************************)
Deriv(it) ==
  CASE it.k = "in"  -> IF it.f = it.c THEN "in:" \o it.c ELSE "rep:" \o it.f
    [] it.k = "ws"  -> "ws:" \o it.f
    [] it.k = "lab" -> "lab:" \o it.f \o (IF it.c = "us" THEN "/sep" ELSE "/word")
    [] it.k = "pad" -> "pad"
    [] it.k = "pre" -> "prefix"
    [] it.k = "suf" -> "suffix"
    [] it.k = "blank" -> "blank"
Sig(n, m) ==
  LET a == AttrNameC(n)
      b == AttrNameC(m)
      src(q, it) == IF it.o = 0 THEN At("", "") ELSE q[it.o]
  IN IF Len(a) # Len(b) THEN {{"misaligned"}}
     ELSE {{Deriv(a[j]), Deriv(b[j])} :
             j \in {i \in 1..Len(a) :
                     \/ Deriv(a[i]) # Deriv(b[i])
                     \/ ((a[i].k = "lab" /\ a[i].c # "us") \/ a[i].k = "ws")
                        /\ src(n, a[i]) # src(m, b[i])}}

(***************************************************************************)
(* _parse_properties (a dict comprehension keyed by the mapped name: a     *)
(* later key with the same mapped name overwrites the value and keeps the  *)
(* position of the first) followed by the `required` part of               *)
(* _parse_object (a synthetic required property for every required name    *)
(* whose mapped name is not a key yet).                                    *)
(* Result: sequence of [attr, source, required].                           *)
(***************************************************************************)
DictPut(d, rec) ==
  IF \E j \in 1..Len(d) : d[j].attr = rec.attr
  THEN [j \in 1..Len(d) |-> IF d[j].attr = rec.attr THEN rec ELSE d[j]]
  ELSE Append(d, rec)

(* _Property.bind: `if not self.source: self.source = name` -- an empty     *)
(* JSON name is falsy, so the attribute name takes its place               *)
SourceOf(nm) == IF Len(nm) = 0 THEN ItemAtoms(AttrNameC(nm)) ELSE nm

RECURSIVE PropsFrom(_, _, _, _)
PropsFrom(names, req, i, d) ==
  IF i > Len(names) THEN d
  ELSE PropsFrom(names, req, i + 1,
                 DictPut(d, [attr |-> FlatAttr(names[i]), source |-> SourceOf(names[i]),
                             required |-> \E j \in 1..Len(req) : req[j] = names[i]]))
ParsePropsC(names, req) == PropsFrom(names, req, 1, <<>>)

ObjectPropsC(names, req) ==
  LET props == ParsePropsC(names, req)
      has(a) == \E j \in 1..Len(props) : props[j].attr = a
      RECURSIVE synth(_, _)
      synth(i, d) ==
        IF i > Len(req) THEN d
        ELSE IF has(FlatAttr(req[i])) THEN synth(i + 1, d)
        ELSE synth(i + 1, DictPut(d, [attr |-> FlatAttr(req[i]), source |-> SourceOf(req[i]),
                                      required |-> TRUE]))
  IN props \o synth(1, <<>>)

(***************************************************************************)
(* _title_format on strings: only ASCII letters and digits survive, every  *)
(* other character (any non-ASCII one included) separates words.           *)
(***************************************************************************)
IndexIn(c, s) == CHOOSE i \in 1..Len(s) : Ch(s, i) = c
UpperCh(c) == IF InStr(c, Lower) THEN Ch(Upper, IndexIn(c, Lower)) ELSE c
LowerCh(c) == IF InStr(c, Upper) THEN Ch(Lower, IndexIn(c, Upper)) ELSE c
IsUpperCh(c) == InStr(c, Upper)

(* re.split("[^a-zA-Z0-9]", name) without the empty strings                *)
RECURSIVE WordsOf(_, _, _)
WordsOf(str, i, cur) ==
  IF i > Len(str) THEN (IF cur = "" THEN <<>> ELSE <<cur>>)
  ELSE LET ch == Ch(str, i) IN
       IF IsAsciiAlnum(ch) THEN WordsOf(str, i + 1, cur \o ch)
       ELSE (IF cur = "" THEN <<>> ELSE <<cur>>) \o WordsOf(str, i + 1, "")

(* re.findall("[A-Z][^A-Z]*", w): from each upper-case letter up to the    *)
(* next one; whatever precedes the first upper-case letter is dropped      *)
RECURSIVE SegsOf(_, _, _, _)
SegsOf(w, i, cur, open) ==
  IF i > Len(w) THEN (IF open THEN <<cur>> ELSE <<>>)
  ELSE LET ch == Ch(w, i) IN
       IF IsUpperCh(ch) THEN (IF open THEN <<cur>> ELSE <<>>) \o SegsOf(w, i + 1, ch, TRUE)
       ELSE IF open THEN SegsOf(w, i + 1, cur \o ch, TRUE)
       ELSE SegsOf(w, i + 1, "", FALSE)

(* str.title() of a segment: a letter following a non-letter is            *)
(* upper-cased, a letter following a letter is lower-cased                 *)
RECURSIVE TitleSeg(_, _)
TitleSeg(seg, i) ==
  IF i > Len(seg) THEN ""
  ELSE (IF i = 1 \/ ~IsAsciiLetter(Ch(seg, i - 1)) THEN UpperCh(Ch(seg, i)) ELSE LowerCh(Ch(seg, i)))
       \o TitleSeg(seg, i + 1)

RECURSIVE ConcatMap(_, _)
TitleWord(w) ==
  LET segs == SegsOf(UpperCh(Ch(w, 1)) \o SubSeq(w, 2, Len(w)), 1, "", FALSE)
      RECURSIVE go(_)
      go(j) == IF j > Len(segs) THEN "" ELSE TitleSeg(segs[j], 1) \o go(j + 1)
  IN go(1)
ConcatMap(ws, j) == IF j > Len(ws) THEN "" ELSE TitleWord(ws[j]) \o ConcatMap(ws, j + 1)
TitleFormat(str) == ConcatMap(WordsOf(str, 1, ""), 1)

(* titles as atom sequences: a non-ASCII atom is flattened to "#", which   *)
(* is a separator like every other non-alphanumeric character              *)
RECURSIVE FlatTitle(_)
FlatTitle(q) == IF Len(q) = 0 THEN ""
                ELSE (IF IsAsciiAtom(Head(q)) THEN Head(q).s ELSE "#") \o FlatTitle(Tail(q))
TitleFormatC(q) == TitleFormat(FlatTitle(q))

(***************************************************************************)
(* Every name a generated module may import or use besides its own classes *)
(* (serializers/python.py: typing, statham.schema.constants, .elements,    *)
(* .property).                                                             *)
(***************************************************************************)
GenNames == {"Any", "List", "Union", "Maybe", "Property", "Object", "Element", "Nothing",
             "String", "Integer", "Number", "Boolean", "Null", "Array",
             "AnyOf", "OneOf", "AllOf", "Not"}

(* _get_imports: the element classes are imported when an element of that  *)
(* class occurs; the typing names, Maybe and Property are imported when    *)
(* their text occurs ANYWHERE in the declarations (`"Any" in declaration`: *)
(* a class called AnyOf or Anybody also triggers `from typing import Any`).*)
(* UsesOf(what) = the names that the declaration of a property whose       *)
(* schema is the witness for `what` mentions (harness/namesfamily.py       *)
(* USE_SCHEMAS).                                                           *)
UseKinds == {"String", "Integer", "Number", "Boolean", "Null", "Array", "Element", "Nothing",
             "AnyOf", "OneOf", "AllOf", "Not"}
UsesOf(what) ==
  CASE what = "none"    -> {}
    [] what = "String"  -> {"String"}
    [] what = "Integer" -> {"Integer"}
    [] what = "Number"  -> {"Number"}
    [] what = "Boolean" -> {"Boolean"}
    [] what = "Null"    -> {"Null"}
    [] what = "Array"   -> {"Array", "List", "Any", "Element"}
    [] what = "Element" -> {"Element", "Any"}
    [] what = "Nothing" -> {"Nothing"}
    [] what = "AnyOf"   -> {"AnyOf", "Union", "String", "Integer"}
    [] what = "OneOf"   -> {"OneOf", "Union", "String", "Integer"}
    [] what = "AllOf"   -> {"AllOf", "Element", "Any"}
    [] what = "Not"     -> {"Not", "String", "Any"}

SubStr(needle, hay) ==
  \E i \in 1..(Len(hay) - Len(needle) + 1) : SubSeq(hay, i, i + Len(needle) - 1) = needle
TextImports == {"Any", "List", "Union", "Maybe", "Property"}
(* names imported by a module whose declarations mention `mentioned` and   *)
(* declare the classes `classnames`                                        *)
ImportedNames(mentioned, classnames) ==
  (mentioned \ TextImports)
  \cup {t \in TextImports : \E piece \in mentioned \cup classnames : SubStr(t, piece)}

(***************************************************************************)
(* Documents of titled objects.  A document is a root object (title        *)
(* rootTitle) and a sequence of slots; slot = [pos, title, shape]:         *)
(* an object schema {"type":"object","title":title,"properties":{shape}}   *)
(* placed at position pos of the root:                                     *)
(*   prop     properties/<k>                                               *)
(*   arr      properties/<k> = array with items = OBJ                      *)
(*   tuple    properties/<k> = array with items = [OBJ]                    *)
(*   addit    properties/<k> = array, items = [string], additionalItems    *)
(*   contains properties/<k> = array with contains = OBJ                   *)
(*   anyof    properties/<k> = anyOf [OBJ, string]                         *)
(*   nest     properties/<k> = object "Mid" with property n = OBJ          *)
(*   pattern  patternProperties/^p<k>                                      *)
(*   deps     dependencies/d<k>   (schema-valued)                          *)
(*   addl     additionalProperties (at most one)                           *)
(*   defs     definitions/<k>     (parse() parses them after the root)     *)
(* shape 1 = {"p": string}, shape 2 = {"q": integer}: two objects are the  *)
(* same model iff they have the same shape (Element.__eq__ ignores the     *)
(* class name).                                                            *)
(***************************************************************************)
PropPositions == {"prop", "arr", "tuple", "addit", "contains", "anyof", "nest"}
Positions == PropPositions \cup {"pattern", "deps", "addl", "defs"}

(* _ParseState.dedupe: seen = sequence of [key (formatted title), struct,  *)
(* name, uid]; returns <<seen', class>>                                    *)
Dedupe(seen, key, struct, inner) ==
  LET same == {j \in 1..Len(seen) : seen[j].key = key}
      hit  == {j \in same : seen[j].struct = struct}
  IN IF hit # {} THEN << seen, seen[CHOOSE j \in hit : \A h \in hit : j <= h] >>
     ELSE LET count == Cardinality(same)
              cls == [key |-> key, struct |-> struct, uid |-> Len(seen) + 1, inner |-> inner,
                      name |-> IF count = 0 THEN key ELSE key \o "_" \o ToString(count)]
          IN << Append(seen, cls), cls >>

(* the order in which parse_element meets the slots of the root: keyword   *)
(* order properties, (items,) patternProperties, (propertyNames, contains,)*)
(* dependencies, additionalProperties; then the root itself; parse() then  *)
(* walks definitions.  Objects are registered bottom-up.                   *)
SlotOrder(slots) ==
  LET idx(P) == SelectSeq([j \in 1..Len(slots) |-> j], LAMBDA j : slots[j].pos \in P)
  IN << idx(PropPositions), idx({"pattern"}), idx({"deps"}), idx({"addl"}), idx({"defs"}) >>

ShapeStruct(sh) == "shape" \o ToString(sh)

(* returns [seen, cls (slot index -> class), mid (slot index -> class of   *)
(* the intermediate object of a nest slot), root]                          *)
ParseDocC(rootTitle, slots) ==
  LET ord == SlotOrder(slots)
      before == ord[1] \o ord[2] \o ord[3] \o ord[4]
      RECURSIVE walk(_, _, _)
      walk(js, i, acc) ==   \* acc = [seen, cls, mid]
        IF i > Len(js) THEN acc
        ELSE LET j  == js[i]
                 sl == slots[j]
                 r1 == Dedupe(acc.seen, TitleFormatC(sl.title), ShapeStruct(sl.shape), 0)
             IN IF sl.pos = "nest"
                THEN (* the intermediate object: when an equal one exists already it is  *)
                     (* returned, and with it ITS inner class                            *)
                     LET r2 == Dedupe(r1[1], "Mid", "mid-" \o ShapeStruct(sl.shape), r1[2].uid)
                     IN walk(js, i + 1, [seen |-> r2[1],
                                         cls |-> Append(acc.cls, <<j, r2[1][r2[2].inner]>>),
                                         mid |-> Append(acc.mid, <<j, r2[2]>>)])
                ELSE walk(js, i + 1, [acc EXCEPT !.seen = r1[1], !.cls = Append(acc.cls, <<j, r1[2]>>)])
      a   == walk(before, 1, [seen |-> <<>>, cls |-> <<>>, mid |-> <<>>])
      rr  == Dedupe(a.seen, TitleFormatC(rootTitle), "root", 0)
      b   == walk(ord[5], 1, [a EXCEPT !.seen = rr[1]])
  IN [seen |-> b.seen, cls |-> b.cls, mid |-> b.mid, root |-> rr[2]]
=============================================================================
