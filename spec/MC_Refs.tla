------------------------------- MODULE MC_Refs -------------------------------
(***************************************************************************)
(* Reference-graph family (C02, C09, C20-cycles, and the re-parse of       *)
(* shared sub-documents).  The state is a small graph of schema nodes:     *)
(*   "R" the root document, "A" "B" definitions of the root document,      *)
(*   "oC" a definition that lives in a second file (other.json)            *)
(* Each node has a shape; edges place a "$ref" to another node (or to the  *)
(* root itself) at one of the schema positions.  DocOf(g) is the document  *)
(* the graph denotes, in the encoding of Draft6.tla (ref |-> name).        *)
(* Several nodes may carry the same explicit title with different          *)
(* structure (class-name de-duplication), definitions may be unreachable   *)
(* from the root (parse() still parses them) and may hold an unsupported   *)
(* keyword.                                                                *)
(***************************************************************************)
EXTENDS Draft6, Universe, TLC, Json

(* TLC orders record fields by the order in which their names were first seen: the tag
   field k of JSON values must be met before v (heterogeneous values are told apart by k) *)
LOCAL InternOrderKV == [k |-> 0, v |-> 0]

CONSTANTS MaxEdges, MaxNodes, Wide     \* Wide = TRUE: all shapes and positions

Names == <<"R", "A", "B", "oC">>
Shapes == IF Wide THEN {"obj", "objT", "arr", "any", "multi"} ELSE {"objT", "multi"}
PosSeq == IF Wide THEN <<"prop", "items", "addl", "addi", "any", "one", "all", "dep", "not", "pat", "tuple">>
          ELSE <<"prop", "items", "addl", "addi", "any", "dep">>
Positions == {PosSeq[i] : i \in 1..Len(PosSeq)}
PosIdx(p) == CHOOSE i \in 1..Len(PosSeq) : PosSeq[i] = p

VARIABLES nodes,   \* sequence of [name, shape, uns] ; nodes[1] is the root
          edges,   \* sequence of <<from, position, to>>   (insertion ordered)
          budget
vars == <<nodes, edges, budget>>

Str == [sch |-> TRUE, type |-> "string"]
Ref(n) == [sch |-> TRUE, ref |-> n]

With2(S, kw, a) == [x \in DOMAIN S \cup {kw} |-> IF x = kw THEN a ELSE S[x]]
Base(nd, idx) ==
  LET b == CASE nd.shape = "obj"  -> [sch |-> TRUE, type |-> "object",
                                      properties |-> << <<"a", Str>> >>]
             [] nd.shape = "objT" -> [sch |-> TRUE, type |-> "object", title |-> "Thing",
                                      minProperties |-> idx - 1]
             [] nd.shape = "arr"  -> [sch |-> TRUE, type |-> "array"]
             [] nd.shape = "any"  -> [sch |-> TRUE, default |-> JInt(idx)]
             [] nd.shape = "multi" -> [sch |-> TRUE, types |-> <<"string", "null">>,
                                       default |-> JStr("")]
  IN IF nd.uns THEN With2(b, "if", [sch |-> TRUE]) ELSE b

AppendTo(S, kw, x) == With2(S, kw, (IF kw \in DOMAIN S THEN S[kw] ELSE <<>>) \o <<x>>)
Place(S, pos, to) ==
  CASE pos = "prop"  -> AppendTo(S, "properties", << "p" \o to, Ref(to) >>)
    [] pos = "items" -> With2(S, "items", Ref(to))
    [] pos = "addl"  -> With2(S, "additionalProperties", Ref(to))
    [] pos = "addi"  -> With2(With2(S, "itemsT", <<Str>>), "additionalItems", Ref(to))
    [] pos = "any"   -> AppendTo(S, "anyOf", Ref(to))
    [] pos = "one"   -> AppendTo(S, "oneOf", Ref(to))
    [] pos = "all"   -> AppendTo(S, "allOf", Ref(to))
    [] pos = "dep"   -> AppendTo(S, "depsS", << "a", Ref(to) >>)
    [] pos = "not"   -> With2(S, "not", Ref(to))
    [] pos = "pat"   -> AppendTo(S, "patternProperties", << "^a", Ref(to) >>)
    [] pos = "tuple" -> AppendTo(S, "itemsT", Ref(to))

PosOK(S, pos) ==    \* keep the document well-formed
  CASE pos = "items" -> ~Has(S, "items") /\ ~Has(S, "itemsT")
    [] pos = "tuple" -> ~Has(S, "items") /\ ~Has(S, "additionalItems")
    [] pos = "addi"  -> ~Has(S, "items") /\ ~Has(S, "itemsT") /\ ~Has(S, "additionalItems")
    [] pos = "addl"  -> ~Has(S, "additionalProperties")
    [] pos = "not"   -> ~Has(S, "not")
    [] pos = "dep"   -> ~Has(S, "depsS")
    [] pos = "pat"   -> ~Has(S, "patternProperties")
    [] OTHER -> TRUE

NodeIdx(n) == CHOOSE i \in 1..Len(nodes) : nodes[i].name = n
RECURSIVE PlaceAll(_, _, _)
PlaceAll(S, n, es) ==
  IF Len(es) = 0 THEN S
  ELSE PlaceAll(IF Head(es)[1] = n THEN Place(S, Head(es)[2], Head(es)[3]) ELSE S, n, Tail(es))
NodeSchemaOf(nds, es, i) == PlaceAll(Base(nds[i], i), nds[i].name, es)

DocOfG(nds, es) ==
  LET root == NodeSchemaOf(nds, es, 1)
      defs == [i \in 1..(Len(nds) - 1) |-> << nds[i + 1].name, NodeSchemaOf(nds, es, i + 1) >>]
  IN IF Len(defs) = 0 THEN root ELSE With2(root, "definitions", defs)
Doc == DocOfG(nodes, edges)

(* reference graph facts (the reference layer for C20-cycles) *)
Succ(n) == {edges[i][3] : i \in {j \in 1..Len(edges) : edges[j][1] = n}}
RECURSIVE ReachFrom(_, _)
ReachFrom(front, seen) == IF front \subseteq seen THEN seen
                          ELSE ReachFrom(UNION {Succ(n) : n \in front}, seen \cup front)
Cyclic == \E i \in 1..Len(nodes) : nodes[i].name \in ReachFrom(Succ(nodes[i].name), {})
AnyUnsupported == \E i \in 1..Len(nodes) : nodes[i].uns

Init == /\ nodes = << [name |-> "R", shape |-> "obj", uns |-> FALSE] >>
        /\ edges = <<>>
        /\ budget = MaxEdges + MaxNodes
Spend == budget > 0 /\ budget' = budget - 1
(* canonical construction order: all nodes first, then edges in increasing key order *)
EdgeKey(e) == NodeIdx(e[1]) * 1000 + PosIdx(e[2]) * 10 + NodeIdx(e[3])
AddNode == /\ Spend /\ Len(nodes) < MaxNodes + 1 /\ Len(edges) = 0
           /\ (Len(nodes) > 1 => ~nodes[Len(nodes)].uns)       \* only the last node may be unsupported
           /\ \E sh \in Shapes, u \in BOOLEAN :
                nodes' = Append(nodes, [name |-> Names[Len(nodes) + 1], shape |-> sh, uns |-> u])
           /\ UNCHANGED edges
SetRootShape == /\ Spend /\ Len(nodes) = 1 /\ Len(edges) = 0 /\ nodes[1].shape = "obj"
                /\ \E sh \in (IF Wide THEN {"objT", "arr"} ELSE {"objT"}) :
                     nodes' = << [nodes[1] EXCEPT !.shape = sh] >>
                /\ UNCHANGED edges
AddEdge == /\ Spend /\ Len(edges) < MaxEdges
           /\ \E i, j \in 1..Len(nodes), pos \in Positions :
                LET e == << nodes[i].name, pos, nodes[j].name >> IN
                /\ PosOK(NodeSchemaOf(nodes, edges, i), pos)
                /\ (Len(edges) > 0 => EdgeKey(edges[Len(edges)]) < EdgeKey(e))
                /\ edges' = Append(edges, e)
           /\ UNCHANGED nodes
Next == AddNode \/ AddEdge \/ SetRootShape
Spec == Init /\ [][Next]_vars

(***************************************************************************)
(* Seed graphs: one definition reached twice from the same document, once  *)
(* bare and once inside a wrapper that adds something of its own (json_ref *)
(* hands out the SAME dict object for both references: whatever the parser *)
(* does to the element of the first visit must not show at the second).    *)
(* Beyond the edge bound of the breadth-first family; SeedExtra more edges *)
(* are added to each.                                                      *)
(***************************************************************************)
CONSTANT SeedExtra
N(n, sh) == [name |-> n, shape |-> sh, uns |-> FALSE]
SeedGraphs == {
  (* B = {default, allOf: [A]} collapses onto A's element; R also refers to A bare *)
  [nodes |-> << N("R", "obj"), N("A", "arr"), N("B", "any") >>,
   edges |-> << <<"R", "prop", "A">>, <<"R", "prop", "B">>, <<"B", "all", "A">> >>],
  [nodes |-> << N("R", "obj"), N("A", "multi"), N("B", "any") >>,
   edges |-> << <<"R", "prop", "B">>, <<"R", "items", "A">>, <<"B", "all", "A">> >>],
  (* the same class under a property, as items and inside a composition *)
  [nodes |-> << N("R", "obj"), N("A", "objT"), N("B", "any") >>,
   edges |-> << <<"R", "prop", "A">>, <<"R", "items", "A">>, <<"B", "any", "A">>, <<"R", "prop", "B">> >>],
  (* two different classes with one title; the one that is renamed by de-duplication is reached twice *)
  [nodes |-> << N("R", "obj"), N("A", "objT"), N("B", "objT") >>,
   edges |-> << <<"R", "prop", "A">>, <<"R", "prop", "B">>, <<"R", "items", "B">> >>],
  (* a definition in the second file shared by two definitions of the first *)
  [nodes |-> << N("R", "obj"), N("A", "any"), N("B", "arr"), N("oC", "multi") >>,
   edges |-> << <<"A", "all", "oC">>, <<"B", "items", "oC">>, <<"R", "prop", "A">>, <<"R", "prop", "B">> >>] }
SeedInit == \E g \in SeedGraphs : nodes = g.nodes /\ edges = g.edges /\ budget = SeedExtra
SeedAddEdge == /\ Spend
               /\ \E i, j \in 1..Len(nodes), pos \in Positions :
                    LET e == << nodes[i].name, pos, nodes[j].name >> IN
                    /\ PosOK(NodeSchemaOf(nodes, edges, i), pos)
                    /\ edges' = Append(edges, e)
               /\ UNCHANGED nodes
SeedSpec == SeedInit /\ [][SeedAddEdge]_vars

Export ==
  LET ok == ~Cyclic /\ ~AnyUnsupported
  IN PrintT(ToJson([nodes |-> nodes, edges |-> edges, doc |-> Doc, cyclic |-> Cyclic,
                    uns |-> AnyUnsupported,
                    allowed |-> IF ok THEN [i \in 1..NValues |-> Allowed(Doc, Values[i])] ELSE <<>>]))
Inv == Export
=============================================================================
