------------------------------- MODULE Orderer -------------------------------
(***************************************************************************)
(* IMPLEMENTATION MODEL of statham/serializers/orderer.py, in the shape of *)
(* the code (C11).                                                         *)
(*                                                                         *)
(*   _get_path / paths      -> Paths, PathOf, Children                     *)
(*   get_children           -> GC / GCAll (identity-based `seen`, the      *)
(*                             element is yielded AGAIN on a revisit)      *)
(*   get_object_classes     -> ObjectClasses (roots, then children)        *)
(*   orderer, dict build-up -> InitialDeps (insertion-ordered dict keyed   *)
(*                             by class NAME; duplicates collapse)         *)
(*   has_cycle / cycles     -> action CycleCheck                           *)
(*   _next / pop_name       -> action Pop                                  *)
(*   except StopIteration   -> action Finish                               *)
(*                                                                         *)
(* The element graph is built by AddClass / AddEdge and turned into a heap *)
(* of element records (see OrdererRef.tla) by Realise when the orderer is  *)
(* called (Freeze).  Where an edge sits (keyword position, wrapper         *)
(* elements in between) is decided by the variant `var` through Chain.     *)
(***************************************************************************)
EXTENDS OrdererRef, TLC

CONSTANTS MaxClasses,    \* classes are 1..nc, nc <= MaxClasses
          Variants,      \* set of [r |-> 0..11, mode |-> "src"|"mix"|"deep"|"uni", spin |-> BOOLEAN]
          RootSets       \* set of root sequences (ids); only those within 1..nc are used

ClassNames == <<"A", "B", "C", "D", "E", "F">>

(***************************************************************************)
(* get_children: the ten paths, in the order of the code.                  *)
(*   "properties.*.element" -> properties     "patternProperties.*" -> .. *)
(*   "dependencies.*" -> dependencies         "elements" = anyOf/oneOf/   *)
(*   allOf members            "element" = the operand of Not               *)
(* A list under "items" (tuple items) contributes every member.            *)
(***************************************************************************)
Paths == << "items", "additionalItems", "contains", "properties", "additionalProperties",
            "patternProperties", "propertyNames", "dependencies", "elements", "element" >>

PathOf(pos) ==
  CASE pos = "itemsT" -> "items"
    [] pos \in {"anyOf", "oneOf", "allOf"} -> "elements"
    [] pos = "not" -> "element"
    [] OTHER -> pos

RECURSIVE ChildrenFrom(_, _, _)
ChildrenFrom(h, e, p) ==
  IF p > Len(Paths) THEN <<>>
  ELSE LET at == SelectSeq(h[e].kids, LAMBDA kd : PathOf(kd.pos) = Paths[p])
       IN [i \in 1..Len(at) |-> at[i].to] \o ChildrenFrom(h, e, p + 1)
Children(h, e) ==
  IF Len(h[e].kids) <= 1                      \* (shortcut only: same value, cheaper for TLC)
  THEN [i \in 1..Len(h[e].kids) |-> h[e].kids[i].to]
  ELSE ChildrenFrom(h, e, 1)
(* the `children` list of every element, computed once per heap (the heap does not change
   during a call, so this is only a cache for TLC) *)
ChildTable(h) == [e \in 1..Len(h) |-> Children(h, e)]

(***************************************************************************)
(* get_children(element, seen):                                            *)
(*     seen = seen or set()            (top-level call: a fresh set)       *)
(*     if id(element) in seen: yield element; return                       *)
(*     seen.add(id(element))                                               *)
(*     for child in children: yield child; yield from get_children(child)  *)
(* Returns [out |-> yielded ids, seen |-> the (shared, mutated) set].      *)
(* ct = ChildTable(heap).                                                  *)
(***************************************************************************)
RECURSIVE GC(_, _, _), GCAll(_, _, _, _)
GC(ct, e, seen) ==
  IF e \in seen THEN [out |-> <<e>>, seen |-> seen]
  ELSE GCAll(ct, ct[e], seen \cup {e}, <<>>)
GCAll(ct, ch, seen, acc) ==
  IF ch = <<>> THEN [out |-> acc, seen |-> seen]
  ELSE LET c == Head(ch)
           r == GC(ct, c, seen)
       IN GCAll(ct, Tail(ch), r.seen, acc \o <<c>> \o r.out)
GetChildren(ct, e) == GC(ct, e, {}).out

RECURSIVE FlatMap(_, _, _)
FlatMap(ct, q, i) == IF i > Len(q) THEN <<>> ELSE GetChildren(ct, q[i]) \o FlatMap(ct, q, i + 1)

(* get_object_classes(elements...): the roots, then all their children, object classes only *)
ObjectClasses(h, ct, roots) ==
  SelectSeq(roots \o FlatMap(ct, roots, 1), LAMBDA e : IsClass(h, e))

(***************************************************************************)
(* object_dependencies = {oc.__name__: [dep.__name__ for dep in            *)
(*                         get_children(oc) if isinstance(dep, ObjectMeta)]*)
(*                        for oc in object_classes}                        *)
(* An insertion-ordered dict: a key keeps the position of its FIRST        *)
(* occurrence and the value of its LAST one.  Modelled as a sequence of    *)
(* [n |-> name, d |-> sequence of names (with repetitions, as the list)].  *)
(***************************************************************************)
DepNames(h, ct, c) ==
  LET ch == SelectSeq(GetChildren(ct, c), LAMBDA e : IsClass(h, e))
  IN [i \in 1..Len(ch) |-> h[ch[i]].name]

RECURSIVE DictOf(_, _, _, _, _)
DictOf(h, ct, ocs, i, acc) ==
  IF i > Len(ocs) THEN acc
  ELSE LET nm == h[ocs[i]].name
           hit == {j \in 1..Len(acc) : acc[j].n = nm}
       IN IF hit = {}
          THEN DictOf(h, ct, ocs, i + 1, Append(acc, [n |-> nm, d |-> DepNames(h, ct, ocs[i])]))
          ELSE DictOf(h, ct, ocs, i + 1,
                      [j \in 1..Len(acc) |->
                         IF j \in hit THEN [n |-> nm, d |-> DepNames(h, ct, ocs[i])] ELSE acc[j]])
InitialDeps(h, roots) ==
  LET ct == ChildTable(h)
  IN DictOf(h, ct, ObjectClasses(h, ct, roots), 1, <<>>)

(***************************************************************************)
(* Where the builder puts an edge a -> b: a chain of keyword positions     *)
(*     a -c[1]-> w1 -c[2]-> w2 ... -c[k]-> b        (w = wrapper element)  *)
(* c[1] is a keyword of the object class a itself.                         *)
(* Primary: one chain per keyword position of the property (12).           *)
(* Deep   : direct class keywords combined with wrappers, two deep.        *)
(***************************************************************************)
Primary == <<
  <<"properties", "items">>,            \* Property(Array(b))
  <<"properties", "itemsT">>,           \* Property(Element(items=[String(), b]))
  <<"properties", "additionalItems">>,  \* Property(Array([String()], additionalItems=b))
  <<"properties", "contains">>,         \* Property(Element(contains=b))
  <<"properties">>,                     \* Property(b)
  <<"patternProperties">>,              \* class patternProperties={"^..": b}
  <<"additionalProperties">>,           \* class additionalProperties=b   (one slot)
  <<"propertyNames">>,                  \* class propertyNames=b          (one slot)
  <<"dependencies">>,                   \* class dependencies={"..": b}
  <<"properties", "anyOf">>,            \* Property(AnyOf(String(), b))   (oneOf/allOf: Deep)
  <<"properties", "not">>,              \* Property(Not(b))
  <<"properties", "oneOf">> >>
Deep == <<
  <<"properties", "items", "anyOf">>,             \* Array(AnyOf(String(), b))
  <<"properties", "not", "items">>,               \* Not(Array(b))
  <<"properties", "allOf">>,
  <<"patternProperties", "contains">>,
  <<"properties", "properties">>,                 \* Element(properties={"x": Property(b)})
  <<"properties", "patternProperties">>,
  <<"properties", "additionalProperties">>,
  <<"properties", "propertyNames">>,
  <<"properties", "dependencies">>,
  <<"dependencies", "not", "additionalItems">>,
  <<"additionalProperties", "itemsT", "oneOf">>,
  <<"properties", "anyOf", "dependencies">> >>
SingleSlot == {"additionalProperties", "propertyNames"}

Chain(a, b, v) ==
  CASE v.mode = "src"  -> Primary[((v.r + a) % 12) + 1]          \* one position per source class
    [] v.mode = "mix"  -> Primary[((v.r + 5 * a + b) % 12) + 1]  \* positions differ per edge
    [] v.mode = "deep" -> Deep[((v.r + 3 * a + b) % 12) + 1]
    [] v.mode = "uni"  -> Primary[(v.r % 12) + 1]                \* the same position everywhere:
                                                                 \* classes of identical shape

(* the class of the wrapper element that HOLDS something in position pos *)
WrapCls(pos) ==
  CASE pos \in {"items", "additionalItems"} -> "Array"
    [] pos = "anyOf" -> "AnyOf"
    [] pos = "oneOf" -> "OneOf"
    [] pos = "allOf" -> "AllOf"
    [] pos = "not" -> "Not"
    [] OTHER -> "Element"

HasKidAt(el, pos) == \E i \in 1..Len(el.kids) : el.kids[i].pos = pos

(* the edges in insertion order: by source; targets ascending (r even) or descending (r odd) *)
EdgeSeq(m, eset, v) ==
  LET all == [i \in 1..(m * m) |->
                LET a == ((i - 1) \div m) + 1
                    k == ((i - 1) % m) + 1
                IN << a, IF v.r % 2 = 0 THEN k ELSE m + 1 - k >>]
  IN SelectSeq(all, LAMBDA ed : ed \in eset)

RECURSIVE Build(_, _, _)
Build(h, es, v) ==
  IF es = <<>> THEN h
  ELSE LET a == Head(es)[1]
           b == Head(es)[2]
           c0 == Chain(a, b, v)
           c == IF Len(c0) = 1 /\ c0[1] \in SingleSlot /\ HasKidAt(h[a], c0[1])
                THEN <<"properties", c0[1]>>          \* slot taken: go through a wrapper
                ELSE c0
           k == Len(c)
           base == Len(h)
           wrappers == [j \in 1..(k - 1) |->
                          [cls |-> WrapCls(c[j + 1]), name |-> "",
                           kids |-> << [pos |-> c[j + 1],
                                        to |-> IF j = k - 1 THEN b ELSE base + j + 1] >>]]
           first == [pos |-> c[1], to |-> IF k = 1 THEN b ELSE base + 1]
       IN Build([h EXCEPT ![a].kids = Append(@, first)] \o wrappers, Tail(es), v)

(* v.spin: the rotation also depends on the graph, so that the labelled copies of one
   graph shape meet different positions (used where all 12 rotations are too many) *)
Spin(eset, v) ==
  IF v.spin
  THEN [v EXCEPT !.r = (v.r + 5 * Cardinality(eset)
                            + 3 * Cardinality({ed \in eset : ed[1] < ed[2]})
                            + Cardinality({ed \in eset : ed[2] = 1})) % 12]
  ELSE v
Realise(m, eset, v) ==
  LET v2 == Spin(eset, v)
  IN Build([i \in 1..m |-> [cls |-> "Object", name |-> ClassNames[i], kids |-> <<>>]],
           EdgeSeq(m, eset, v2), v2)

(***************************************************************************)
(* State machine                                                           *)
(***************************************************************************)
VARIABLES nc,       \* number of classes declared so far
          edges,    \* dependency graph under construction: set of <<a, b>>
          var,      \* the variant (fixed at Init)
          roots,    \* arguments of the orderer call
          heap,     \* the element graph the orderer was called on
          od,       \* object_dependencies (ordered dict, see above)
          out,      \* names yielded so far
          pc,       \* "" | "cycles" | "loop" | "end"
          status    \* "building" | "running" | "done" | "SchemaParseError" | "AssertionError"
vars == <<nc, edges, var, roots, heap, od, out, pc, status>>

Init == /\ nc = 1 /\ edges = {} /\ var \in Variants
        /\ roots = <<>> /\ heap = <<>> /\ od = <<>> /\ out = <<>>
        /\ pc = "" /\ status = "building"

AddClass == /\ status = "building" /\ nc < MaxClasses /\ nc' = nc + 1
            /\ UNCHANGED <<edges, var, roots, heap, od, out, pc, status>>

AddEdge(a, b) == /\ status = "building" /\ <<a, b>> \notin edges
                 /\ edges' = edges \cup {<<a, b>>}
                 /\ UNCHANGED <<nc, var, roots, heap, od, out, pc, status>>

(* list(orderer(roots...)) is called: everything up to the cycle check runs at the first next() *)
Freeze(rs) == /\ status = "building"
              /\ SeqRange(rs) \subseteq 1..nc
              /\ heap' = Realise(nc, edges, var)
              /\ roots' = rs
              /\ od' = InitialDeps(heap', rs)
              /\ status' = "running" /\ pc' = "cycles"
              /\ UNCHANGED <<nc, edges, var, out>>

HasCycle(i) == od[i].n \in SeqRange(od[i].d)
CycleCheck == /\ status = "running" /\ pc = "cycles"
              /\ IF \E i \in 1..Len(od) : HasCycle(i)
                 THEN status' = "SchemaParseError" /\ pc' = "end"
                 ELSE status' = status /\ pc' = "loop"
              /\ UNCHANGED <<nc, edges, var, roots, heap, od, out>>

Ready == {i \in 1..Len(od) : od[i].d = <<>>}
First(X) == CHOOSE i \in X : \A j \in X : i <= j

(* _next(): the FIRST key (dict order) with no remaining dependencies; pop_name removes it
   from every list and deletes its key; the class is yielded *)
Pop == /\ status = "running" /\ pc = "loop" /\ Ready # {}
       /\ LET i == First(Ready)
              nm == od[i].n
              rest == SelectSeq(od, LAMBDA en : en.n # nm)
          IN /\ od' = [j \in 1..Len(rest) |->
                         [n |-> rest[j].n, d |-> SelectSeq(rest[j].d, LAMBDA x : x # nm)]]
             /\ out' = Append(out, nm)
       /\ UNCHANGED <<nc, edges, var, roots, heap, pc, status>>

(* next() on the exhausted filter raises StopIteration; `assert not object_dependencies.values()` *)
Finish == /\ status = "running" /\ pc = "loop" /\ Ready = {}
          /\ status' = IF od = <<>> THEN "done" ELSE "AssertionError"
          /\ pc' = "end"
          /\ UNCHANGED <<nc, edges, var, roots, heap, od, out>>

Build1 == AddClass \/ \E a, b \in 1..nc : AddEdge(a, b)
Call == \E rs \in RootSets : Freeze(rs)
Run == CycleCheck \/ Pop \/ Finish
Next == Build1 \/ Call \/ Run

Spec == Init /\ [][Next]_vars
FairSpec == Spec /\ WF_vars(Run)

Terminal == status \notin {"building", "running"}

(***************************************************************************)
(* Properties of the model                                                 *)
(***************************************************************************)
TypeOK == /\ nc \in 1..MaxClasses /\ edges \subseteq (1..nc) \X (1..nc)
          /\ status \in {"building", "running", "done", "SchemaParseError", "AssertionError"}
          /\ pc \in {"", "cycles", "loop", "end"}

(* safety, in every state: what has been yielded is a sound prefix *)
SafePrefix == status # "building" => PrefixOK(heap, roots, out)
(* nothing is yielded before the cycle check, and never after a refusal *)
RefusalIsClean == status = "SchemaParseError" => out = <<>>
(* the bare assertion of the code is unreachable *)
NoAssertion == status # "AssertionError"
(* the worklist only shrinks: |od| + |out| is constant while running *)
Shrinks == status = "running" /\ pc = "loop" =>
             Len(od) + Len(out) = Cardinality(ReachClasses(heap, roots))
(* the model meets the reference at the end *)
ModelMeetsRef == Terminal => R_C11(heap, roots, status, out)

(* liveness: the call ends (checked under FairSpec, no state constraint) *)
Terminates == [](status = "running" => <>(status # "running"))
=============================================================================
