-------------------------------- MODULE MC_Inst --------------------------------
(***************************************************************************)
(* Bounded instance for model instances: the document builder of MC_Doc;   *)
(* for every document that parses to an object class TLC evaluates, on the *)
(* MODEL, the results it builds from the value universe (model instances, *)
(* possibly nested in lists and anonymous objects), their                  *)
(* representations and the partition == induces on them, and exports both  *)
(* so the real instances can be compared (repr text read back with ast,    *)
(* pairwise ==).  Design-level invariant: == is an equivalence.            *)
(***************************************************************************)
EXTENDS DocSeeds, Instances, Universe, Json

LOCAL InternOrderKV == [k |-> 0, v |-> 0]

CONSTANTS WithUnsupported, SeedLevels
VARIABLES doc, budget
vars == <<doc, budget>>
Init == doc = Empty /\ budget = MaxSize
Spend == budget > 0 /\ budget' = budget - 1
AddLeaf == Spend /\ doc' \in {T \in LeafExt(doc) : LeafOK(T)}
AddSub  == Spend /\ MaxDepth > 0 /\ doc' \in NewSubExt(doc)
AddDeep == Spend /\ MaxDepth > 0 /\ doc' \in Ext(doc, MaxDepth) \ (LeafExt(doc) \cup NewSubExt(doc))
Next == AddLeaf \/ AddSub \/ AddDeep
Spec == Init /\ [][Next]_vars
InitSeeds == (doc \in Seeds \cup (IF WithUnsupported THEN SeedsUns ELSE {}) /\ budget = SeedLevels)
             \/ (doc \in Seeds0 /\ budget = 0)
SeedSpec == InitSeeds /\ [][Next]_vars

Export ==
  LET e == Parse(doc)
      ok == ~IsErr(e)
      tbl == ClassTable(doc)
      ns == IF ok THEN Namespace(e, tbl) ELSE <<>>
      (* documents with at least one object class in scope, class names usable as identities *)
      usable == ok /\ Len(ns) > 0 /\ NamesDistinct(ns)
      calls == IF usable THEN [i \in 1..NValues |-> Call(e, Values[i])] ELSE <<>>
      okIdx == IF usable THEN SelectSeq([i \in 1..NValues |-> i], LAMBDA i : calls[i].kind = "ok") ELSE <<>>
      outs == [n \in 1..Len(okIdx) |-> calls[okIdx[n]].out]
      mEq == usable /\ ~EqIsEquivalence(outs)
  IN PrintT(ToJson([doc |-> doc, usable |-> usable, idx |-> okIdx,
                    reprs |-> [n \in 1..Len(outs) |-> ValTerm(outs[n], ns)],
                    eqc |-> IF usable THEN EqClasses(outs) ELSE <<>>, mEq |-> mEq]))
Inv == Export
=============================================================================
