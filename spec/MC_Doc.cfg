CONSTANTS MaxSize = 1
 MaxDepth = 1
 Rich = FALSE
SPECIFICATION Spec
INVARIANT Inv
CHECK_DEADLOCK FALSE
