CONSTANTS MaxSize = 2
 MaxDepth = 1
 Rich = FALSE
 WithUnsupported = FALSE
SPECIFICATION Spec
INVARIANT Inv
CHECK_DEADLOCK FALSE
