------------------------------- MODULE Props -------------------------------
(***************************************************************************)
(* REFERENCE PREDICATES R_Cxx for the document family: what must be true   *)
(* of an OBSERVATION (made on the model or on the real code), stated over  *)
(* the source document and Draft6.tla only -- never over the shape of the  *)
(* implementation model.                                                   *)
(*                                                                         *)
(* An observation of a call:  [kind |-> "ok"|"reject"|"typeerror"|other,   *)
(*                             out  |-> result value]                      *)
(***************************************************************************)
EXTENDS Draft6, Names, TLC

(***************************************************************************)
(* C01  verdicts                                                           *)
(***************************************************************************)
R_C01(S, v, kind) ==
  \/ kind = "ok"     /\ TRUE  \in Allowed(S, v)
  \/ kind = "reject" /\ FALSE \in Allowed(S, v)

(***************************************************************************)
(* C10  only the library's errors escape                                   *)
(***************************************************************************)
R_C10_call(kind)  == kind \in {"ok", "reject", "typeerror"}
R_C10_parse(kind) == kind \in {"ok", "parseerr", "notimpl"}

(***************************************************************************)
(* C04  an accepted value comes back complete and unaltered                *)
(*                                                                         *)
(* Cands(S): the composition-free schemas that may have built the result   *)
(* (the predicate never says WHICH branch did), plus RAW for "not", whose  *)
(* construction returns the input itself.                                  *)
(***************************************************************************)
Raw == [raw |-> TRUE]
IsRaw(S) == "raw" \in DOMAIN S
CompKwsR == {"anyOf", "oneOf", "allOf", "not", "types"}
Minus(S, ks) == [k \in DOMAIN S \ ks |-> S[k]]

RECURSIVE Cands(_)
Cands(S) ==
  IF IsBoolSchema(S) THEN << [sch |-> TRUE] >>
  ELSE
  LET base == Minus(S, CompKwsR)
      RECURSIVE flat(_)
      flat(ss) == IF Len(ss) = 0 THEN <<>> ELSE Cands(Head(ss)) \o flat(Tail(ss))
      br(kw) == IF Has(S, kw) THEN flat(S[kw]) ELSE <<>>
      typed == IF Has(S, "types")
               THEN [i \in 1..Len(S.types) |-> base @@ [type |-> S.types[i]]]
               ELSE <<base>>
  IN typed \o br("allOf") \o br("oneOf") \o br("anyOf")
       \o (IF Has(S, "not") THEN <<Raw>> ELSE <<>>)

PyName(key) == AttrName(key)

IsContainer(o) == o.k \in {"obj", "anon", "model"}
OHas(o, key) == \E i \in 1..Len(o.v) : o.v[i][1] = key
OGet(o, key) == o.v[CHOOSE i \in 1..Len(o.v) : o.v[i][1] = key][2]

(* structural identity of a raw (unconverted) value                        *)
RECURSIVE RawSame(_, _)
RawSame(v, out) ==
  CASE v.k = "arr" -> /\ out.k = "arr" /\ Len(out.v) = Len(v.v)
                      /\ \A i \in 1..Len(v.v) : RawSame(v.v[i], out.v[i])
    [] v.k = "obj" -> /\ out.k = "obj" /\ Len(out.v) = Len(v.v)
                      /\ \A i \in 1..Len(v.v) :
                           OHas(out, v.v[i][1]) /\ RawSame(v.v[i][2], OGet(out, v.v[i][1]))
    [] OTHER -> out.k = v.k /\ JSame(v, out)

(* defaults a property's element may carry: declared on the schema itself or on a member of *)
(* its anyOf/oneOf/allOf (the parser collapses single-member compositions onto the member)  *)
RECURSIVE DefaultsWithin(_)
DefaultsWithin(S) ==
  IF IsBoolSchema(S) THEN {}
  ELSE (IF Has(S, "default") THEN {S.default} ELSE {})
       \cup UNION {UNION {DefaultsWithin(S[kw][i]) : i \in 1..Len(S[kw])} :
                     kw \in {k \in {"anyOf", "oneOf", "allOf"} : Has(S, k)}}

RECURSIVE R4(_, _, _)
RECURSIVE R4base(_, _, _)
RECURSIVE R4any(_, _, _)

R4(S, v, out) ==
  LET cs == Cands(S)
  IN \E i \in 1..Len(cs) :
        IF IsRaw(cs[i]) THEN RawSame(v, out) ELSE R4base(cs[i], v, out)

R4any(ss, v, out) == \E i \in 1..Len(ss) : R4(ss[i], v, out)

R4base(S, v, out) ==
  CASE v.k = "arr" ->
         /\ out.k = "arr" /\ Len(out.v) = Len(v.v)
         /\ \A i \in 1..Len(v.v) :
              LET sub == IF Has(S, "itemsT") THEN
                            (IF i <= Len(S.itemsT) THEN S.itemsT[i]
                             ELSE IF Has(S, "additionalItems") THEN S.additionalItems
                             ELSE [sch |-> TRUE])
                         ELSE IF Has(S, "items") THEN S.items ELSE [sch |-> TRUE]
              IN R4(sub, v.v[i], out.v[i])
    [] v.k = "obj" ->
         LET props == IF Has(S, "properties") THEN S.properties ELSE <<>>
             pats  == IF Has(S, "patternProperties") THEN S.patternProperties ELSE <<>>
             (* declared = has a property schema, or is a `required` name (the parser *)
             (* gives required names of object classes a synthetic property)         *)
             reqs  == IF Has(S, "required") THEN SeqRange(S.required) ELSE {}
             NameOf(key) == IF PairsHasKey(props, key) THEN PyName(key)
                            ELSE IF key \in reqs /\ OHas(out, PyName(key)) THEN PyName(key)
                            ELSE key
             SubsOf(key) ==
               IF PairsHasKey(props, key) THEN << PairsGet(props, key) >>
               ELSE LET m == SelectSeq(pats, LAMBDA p : Match(p[1], key))
                    IN IF Len(m) > 0 THEN [i \in 1..Len(m) |-> m[i][2]]
                       ELSE IF Has(S, "additionalProperties") THEN << S.additionalProperties >>
                       ELSE << [sch |-> TRUE] >>
             image == {NameOf(v.v[i][1]) : i \in 1..Len(v.v)}
         IN /\ IsContainer(out)
            (* what builds the container: an object class builds an instance of itself, an *)
            (* untyped schema an anonymous object                                          *)
            /\ (Has(S, "type") /\ S.type = "object" => out.k = "model")
            /\ (~Has(S, "type") => out.k = "anon")
            (* every input member present, under the right name, itself complete *)
            /\ \A i \in 1..Len(v.v) :
                  /\ OHas(out, NameOf(v.v[i][1]))
                  /\ R4any(SubsOf(v.v[i][1]), v.v[i][2], OGet(out, NameOf(v.v[i][1])))
            (* no two input members collapse *)
            /\ Cardinality(image) = Len(v.v)
            (* nothing invented: other members are declared properties holding *)
            (* the not-passed marker or their default                          *)
            /\ \A j \in 1..Len(out.v) :
                  out.v[j][1] \in image \/
                  (\E r \in reqs : out.v[j][1] = PyName(r) /\ ~HasKey(v, r)
                                     /\ out.v[j][2].k = "np") \/
                  \E p \in 1..Len(props) :
                     /\ out.v[j][1] = PyName(props[p][1])
                     /\ ~HasKey(v, props[p][1])
                     /\ \/ out.v[j][2].k = "np"
                        \/ \E d \in DefaultsWithin(props[p][2]) :
                              \/ RawSame(d, out.v[j][2])
                              \/ R4(props[p][2], d, out.v[j][2])
    [] v.k = "num" ->
         IF Has(S, "type") /\ S.type = "number"
         THEN out.k = "num" /\ out.f /\ NumEq(v, out)        \* a number schema builds the equal float
         ELSE out.k = "num" /\ JSame(v, out)
    [] OTHER -> out.k = v.k /\ JSame(v, out)

(* Which branch builds (the mechanism the property names: "composition returns the first    *)
(* successful branch's construction").  Stated only where the document leaves no doubt:    *)
(* a schema that is nothing but an anyOf, or nothing but a type list over leaf keywords --  *)
(* the result must be what the FIRST member accepting the value (per Draft6.tla, decided   *)
(* members only) builds.  With other keywords next to the composition the base schema      *)
(* builds, which R4 already covers.                                                        *)
FirstBranch(S, v, out) ==
  IF IsBoolSchema(S) THEN TRUE
  ELSE LET members ==
             IF DOMAIN S = {"sch", "anyOf"} THEN S.anyOf
             ELSE IF Has(S, "types") /\ DOMAIN S \cap CompKwsR = {"types"}
                  THEN [i \in 1..Len(S.types) |-> Minus(S, {"types", "default"}) @@ [type |-> S.types[i]]]
                  ELSE <<>>
           acc   == {i \in 1..Len(members) : Allowed(members[i], v) = {TRUE}}
           undec == {i \in 1..Len(members) : Allowed(members[i], v) = BOOLEAN}
       IN \/ acc = {}
          \/ LET first == CHOOSE i \in acc : \A j \in acc : i <= j
              IN \/ \E j \in undec : j < first
                 \/ R4(members[first], v, out)

R_C04(S, v, kind, out) == kind = "ok" => (R4(S, v, out) /\ FirstBranch(S, v, out))

(***************************************************************************)
(* C05  defaults fill omitted values, never override supplied ones         *)
(*                                                                         *)
(* Relational: dobs[i] = [source, conv] where conv is the observation of   *)
(* calling the property's own schema on its default.  For every declared   *)
(* property of a composition-free object schema that the input omits:      *)
(*   default valid   => member = conversion of the default                 *)
(*   default invalid => member = the raw default                           *)
(*   no default      => member is the not-passed marker                    *)
(***************************************************************************)
RECURSIVE ResEq(_, _)     \* results compared structurally, as projected (member order free)
ResEq(a, b) ==
  IF a.k # b.k THEN FALSE
  ELSE CASE a.k = "arr" -> /\ Len(a.v) = Len(b.v)
                           /\ \A i \in 1..Len(a.v) : ResEq(a.v[i], b.v[i])
         [] a.k \in {"obj", "anon", "model"} ->
              /\ Len(a.v) = Len(b.v)
              /\ \A i \in 1..Len(a.v) :
                    OHas(b, a.v[i][1]) /\ ResEq(a.v[i][2], OGet(b, a.v[i][1]))
         [] OTHER -> JSame(a, b)

(* two declared JSON names with one Python name: which declaration the attribute stands for  *)
(* is the subject of C12 (listed there); C05 speaks about unambiguous declarations           *)
NamesCollide(S) == ~IsBoolSchema(S) /\ Has(S, "properties")
                   /\ \E i, j \in 1..Len(S.properties) :
                         i # j /\ PyName(S.properties[i][1]) = PyName(S.properties[j][1])
DefaultsApply(S) == ~IsBoolSchema(S) /\ DOMAIN S \cap CompKwsR = {} /\ Has(S, "properties")
                    /\ ~NamesCollide(S)

R_C05_obj(S, v, kind, out, dobs) ==
  (kind = "ok" /\ v.k = "obj" /\ DefaultsApply(S)) =>
    /\ IsContainer(out)
    /\ \A p \in 1..Len(S.properties) :
         LET src == S.properties[p][1]
             ps  == S.properties[p][2]
             nm  == PyName(src)
         IN HasKey(v, src) \/
            IF ~IsBoolSchema(ps) /\ Has(ps, "default") THEN
               /\ OHas(out, nm)
               /\ LET (* the member is governed by the property's schema AND by every pattern
                          that matches its JSON name: "valid" means valid for all of them *)
                      pats == IF Has(S, "patternProperties") THEN S.patternProperties ELSE <<>>
                      ok == ConjSets(<< Allowed(ps, ps.default) >>
                                     \o [i \in 1..Len(pats) |->
                                          IF Match(pats[i][1], src) THEN Allowed(pats[i][2], ps.default)
                                          ELSE {TRUE}])
                  IN
                  /\ (ok = {TRUE}  => (PairsHasKey(dobs, src) /\ PairsGet(dobs, src).kind = "ok"
                                       /\ ResEq(OGet(out, nm), PairsGet(dobs, src).out)))
                  /\ (ok = {FALSE} => RawSame(ps.default, OGet(out, nm)))
            ELSE OHas(out, nm) => OGet(out, nm).k = "np"


(* the documented waiver: an object CLASS (type: object) accepts data that  *)
(* omits a required property whose schema declares a default               *)
StripWaived(S) ==
  IF ~Has(S, "required") \/ ~Has(S, "properties") THEN S
  ELSE [S EXCEPT !.required =
          SelectSeq(S.required, LAMBDA n :
             ~(PairsHasKey(S.properties, n) /\ ~IsBoolSchema(PairsGet(S.properties, n))
               /\ Has(PairsGet(S.properties, n), "default")))]
R_C05_waive(S, v, kind) ==
  (DefaultsApply(S) /\ Has(S, "type") /\ S.type = "object" /\ v.k = "obj"
     /\ Allowed(StripWaived(S), v) = {TRUE}) => kind = "ok"

(* calling an element with no value: ITS OWN default (edef = the default   *)
(* attribute observed on the element, NP if none) on the same terms;        *)
(* dconv = observation of calling the element on that default explicitly    *)
R_C05_np(S, edef, npobs, dconv) ==
  IF edef.k # "np" THEN
      LET ok == Allowed(S, edef) IN
      /\ npobs.kind = "ok"
      /\ (ok = {TRUE}  => (dconv.kind = "ok" /\ ResEq(npobs.out, dconv.out)))
      /\ (ok = {FALSE} => RawSame(edef, npobs.out))
  ELSE npobs.kind = "ok" /\ npobs.out.k = "np"

(***************************************************************************)
(* C20  unsupported keywords are refused at every schema position          *)
(***************************************************************************)
R_C20(S, parseKind) == HasUnsupported(S) <=> parseKind = "notimpl"

RECURSIVE Strip(_)
Strip(S) ==
  IF IsBoolSchema(S) THEN S
  ELSE [k \in DOMAIN S \ UnsupportedKws |->
          IF k \in SingleKws THEN Strip(S[k])
          ELSE IF k \in SeqKws THEN [i \in 1..Len(S[k]) |-> Strip(S[k][i])]
          ELSE IF k \in PairKws THEN [i \in 1..Len(S[k]) |-> <<S[k][i][1], Strip(S[k][i][2])>>]
          ELSE S[k]]
=============================================================================
