----------------------------- MODULE PropsElem -----------------------------
(***************************************************************************)
(* REFERENCE PREDICATES over observed element trees:                       *)
(*   C17  equal elements are interchangeable                               *)
(*   C18  repr rebuilds the element                                        *)
(*   C19  generated annotations are sound                                  *)
(* Element records have the shape of Elements.tla (as projected from the   *)
(* real objects by the harness, attributes only).                          *)
(***************************************************************************)
EXTENDS PropsSer

(***************************************************************************)
(* ElemSame: exact structural identity of two element records: literals by *)
(* JSON value AND Python type (1, 1.0 and true all differ), class names    *)
(* ignored, dictionaries unordered, sequences ordered.                     *)
(***************************************************************************)
ElemKwsS == {"items", "additionalItems", "contains", "additionalProperties", "propertyNames"}
RECURSIVE ElemSame(_, _)
ElemSame(a, b) ==
  /\ a.cls = b.cls
  /\ DOMAIN a.kw = DOMAIN b.kw
  /\ Len(a.elems) = Len(b.elems)
  /\ \A i \in 1..Len(a.elems) : ElemSame(a.elems[i], b.elems[i])
  /\ \A kw \in DOMAIN a.kw :
       LET x == a.kw[kw]  y == b.kw[kw] IN
       CASE kw \in {"default", "const"} -> JSame(x, y)
         [] kw = "enum" -> Len(x) = Len(y) /\ \A i \in 1..Len(x) : JSame(x[i], y[i])
         [] kw \in {"minimum", "maximum", "exclusiveMinimum", "exclusiveMaximum", "multipleOf"}
              -> JSame(x, y)
         [] kw \in ElemKwsS -> ElemSame(x, y)
         [] kw = "itemsT" -> Len(x) = Len(y) /\ \A i \in 1..Len(x) : ElemSame(x[i], y[i])
         [] kw \in {"patternProperties", "depsS"} ->
              /\ Len(x) = Len(y)
              /\ \A i \in 1..Len(x) : \E j \in 1..Len(y) :
                    x[i][1] = y[j][1] /\ ElemSame(x[i][2], y[j][2])
         [] kw = "properties" ->
              /\ Len(x) = Len(y)
              /\ \A i \in 1..Len(x) : \E j \in 1..Len(y) :
                    /\ x[i].attr = y[j].attr /\ x[i].required = y[j].required
                    /\ x[i].source = y[j].source /\ ElemSame(x[i].elem, y[j].elem)
         [] kw = "depsL" ->
              /\ Len(x) = Len(y)
              /\ \A i \in 1..Len(x) : \E j \in 1..Len(y) : x[i] = y[j]
         [] OTHER -> x = y

(***************************************************************************)
(* C17.  eqab / eqba: results of a == b and b == a on the real objects;    *)
(* ka / kb: verdict kinds on the value universe; ja / jb: serialize_json   *)
(* as JSON values.  "The same JSON Schema" ignores titles and the names    *)
(* given to definitions: both documents are compared with every reference  *)
(* inlined and titles removed.                                             *)
(***************************************************************************)
RECURSIVE Inline(_, _, _)
Inline(root, j, fuel) ==
  IF j.k = "arr" THEN JArr([i \in 1..Len(j.v) |-> Inline(root, j.v[i], fuel)])
  ELSE IF j.k # "obj" THEN j
  ELSE IF HasKey(j, "$ref") /\ Get(j, "$ref").k = "str" /\ IsLocalRef(Get(j, "$ref").v)
          /\ fuel > 0 /\ HasKey(root, "definitions")
          /\ Get(root, "definitions").k = "obj"
          /\ HasKey(Get(root, "definitions"), RefName(Get(j, "$ref").v))
       THEN Inline(root, Get(Get(root, "definitions"), RefName(Get(j, "$ref").v)), fuel - 1)
  ELSE LET keep == SelectSeq(j.v, LAMBDA p : p[1] \notin {"title", "definitions"})
           (* "required" is a set of names: its order carries no meaning *)
           AsSet(a) == IF a.k = "arr" /\ \A t \in 1..Len(a.v) : a.v[t].k = "str"
                       THEN JObj([t \in 1..Len(a.v) |-> << a.v[t].v, JNull >>]) ELSE a
       IN JObj([i \in 1..Len(keep) |->
                  << keep[i][1], IF keep[i][1] = "required" THEN AsSet(keep[i][2])
                                 ELSE Inline(root, keep[i][2], fuel) >>])

(* the same JSON Schema: equal as JSON documents (1 and 1.0 are the same number) *)
SameSchemaDoc(ja, jb) ==
  IF ja.k = "np" \/ jb.k = "np" THEN ja.k = jb.k
  ELSE JEq(Inline(ja, ja, 6), Inline(jb, jb, 6))

C06_Clause(j0, j1) ==
  IF JSame(j0, j1) THEN "ok"
  ELSE IF SameSchemaDoc(j0, j1) THEN "definition-names-differ-only"
  ELSE "document-differs"

C17_Clause(e) ==
  IF e.eqab # e.eqba THEN "not-symmetric"
  ELSE IF e.eqab /\ e.ka # e.kb THEN "equal-but-different-verdicts"
  ELSE IF e.eqab /\ ~SameSchemaDoc(e.ja, e.jb) THEN "equal-but-different-json"
  ELSE "ok"
(* serialize_json(Array(a), definitions = {d: b}) refers to d for the items exactly when b == a *)
C17s_Clause(e) == IF e.subst = e.eqba THEN "ok" ELSE "definition-substituted-without-equality"
(* reflexivity / independently built copies *)
C17c_Clause(e) == IF e.self /\ e.copyab /\ e.copyba THEN "ok" ELSE "copy-not-equal"

(***************************************************************************)
(* C18.  e: the element; r: what eval(repr(e)) built; eq: e == rebuilt on  *)
(* the real objects; kws: keyword-argument names of the outermost call in  *)
(* the repr text.                                                          *)
(***************************************************************************)
JsonKw(k) == CASE k = "itemsT" -> "items" [] k = "additionalItemsB" -> "additionalItems"
               [] k = "additionalPropertiesB" -> "additionalProperties"
               [] k \in {"depsL", "depsS"} -> "dependencies" [] OTHER -> k
NonDefault(e) == {JsonKw(k) : k \in DOMAIN e.kw}
C18_Clause(e) ==
  IF ~e.evaluates THEN "repr-does-not-evaluate"
  ELSE IF ~e.eq THEN "rebuilt-not-equal"
  ELSE IF ~ElemSame(e.e, e.r) THEN "rebuilt-differs"
  ELSE IF ~(SeqRange(e.kws) \subseteq NonDefault(e.e)) THEN "default-keyword-shown"
  ELSE IF ~((NonDefault(e.e) \ SeqRange(e.kws))
              \subseteq (IF e.e.cls = "Array" THEN {"items"} ELSE {})) THEN "keyword-missing"
  ELSE "ok"

(***************************************************************************)
(* C19.  Type expressions: [t |-> "Any"|"None"|"str"|"int"|"float"|"bool"  *)
(*   |"List"|"Union"|"Maybe"|"Class"|"?", a |-> Seq(type), n |-> STRING].  *)
(* HasType reads the annotation as a type checker does.                    *)
(***************************************************************************)
RECURSIVE HasType(_, _)
HasType(r, ty) ==
  CASE ty.t = "Any"   -> TRUE
    [] ty.t = "None"  -> r.k = "null"
    [] ty.t = "str"   -> r.k = "str"
    [] ty.t = "bool"  -> r.k = "bool"
    [] ty.t = "int"   -> (r.k = "num" /\ ~r.f) \/ r.k = "bool"
    [] ty.t = "float" -> r.k = "num" \/ r.k = "bool"
    [] ty.t = "List"  -> r.k = "arr" /\ (Len(ty.a) = 0 \/
                            \A i \in 1..Len(r.v) : HasType(r.v[i], ty.a[1]))
    [] ty.t = "Union" -> \E i \in 1..Len(ty.a) : HasType(r, ty.a[i])
    [] ty.t = "Maybe" -> r.k = "np" \/ HasType(r, ty.a[1])
    [] ty.t = "Class" -> r.k = "model" /\ r.cls = ty.n
    [] OTHER -> FALSE
(* the quantifier of C19 restricts defaults to ones valid for their schema *)
RECURSIVE AllDefaultsValid(_)
AllDefaultsValid(S) ==
  IF IsBoolSchema(S) THEN TRUE
  ELSE /\ (Has(S, "default") => Allowed(S, S.default) = {TRUE})
       /\ \A i \in 1..Len(SubSchemas(S)) : AllDefaultsValid(SubSchemas(S)[i])
C19_Clause(e) ==
  IF ~AllDefaultsValid(e.doc) THEN "ok"
  ELSE IF e.ty.t = "?" THEN "annotation-not-a-type"
  ELSE IF \E i \in 1..Len(e.outs) : ~HasType(e.outs[i], e.ty) THEN "value-not-of-annotated-type"
  ELSE IF e.ty.t # "Maybe" /\ ~e.reqd /\ e.ty.t # "Any" THEN "always-present-but-optional"
  ELSE "ok"
=============================================================================
