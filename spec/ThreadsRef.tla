----------------------------- MODULE ThreadsRef -----------------------------
(***************************************************************************)
(* REFERENCE PREDICATE of C14 (the Props.tla of the thread family; kept in *)
(* its own constant-free module so that the trace specification can use it *)
(* without the state machine of Threads.tla).                              *)
(***************************************************************************)
EXTENDS Integers, Sequences

(***************************************************************************)
(* The reference predicate, over observations of the real code only.       *)
(*   e.got[t], e.alone[t] : [k |-> kind, r |-> interned projected result]  *)
(*   e.tree0 / e.tree1    : interned projected tree before / afterwards    *)
(*   e.seq                : the projected trees that SEQUENTIAL runs of    *)
(*                          the same calls leave behind (a change that a   *)
(*                          sequential run makes as well is C08's matter)  *)
(***************************************************************************)
SameVerdicts(e) == \A t \in 1..Len(e.got) : e.got[t].k = e.alone[t].k
SameResults(e)  == \A t \in 1..Len(e.got) : e.got[t].r = e.alone[t].r
TreeKept(e)     == e.tree1 = e.tree0 \/ \E i \in 1..Len(e.seq) : e.seq[i] = e.tree1
R_C14(e) == Len(e.got) = Len(e.alone) /\ SameVerdicts(e) /\ SameResults(e) /\ TreeKept(e)
=============================================================================
