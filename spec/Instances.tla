------------------------------ MODULE Instances ------------------------------
(***************************************************************************)
(* IMPLEMENTATION MODEL of model instances (elements/object.py):           *)
(*   Object.__eq__    same class and equal member dicts (Python ==, so     *)
(*                    1 == 1.0 == True inside members, dict order ignored, *)
(*                    NotPassed equal to itself only)                      *)
(*   Object.__repr__  ClassName(attr=repr(value), ...) over the DECLARED   *)
(*                    properties in declaration order, not-passed members  *)
(*                    left out; members that are not declared properties   *)
(*                    (additional / pattern members) are not shown         *)
(* on the result values of Elements.tla (RModel / RAnon / JSON values).    *)
(* Representations are terms of Repr.tla.                                  *)
(***************************************************************************)
EXTENDS Repr

IsDictLike(r) == r.k \in {"obj", "anon"}

RECURSIVE ResEq(_, _)
DictEq(a, b) ==
  /\ Len(a) = Len(b)
  /\ \A i \in 1..Len(a) : \E j \in 1..Len(b) : a[i][1] = b[j][1] /\ ResEq(a[i][2], b[j][2])
(* Python's == on two results *)
ResEq(a, b) ==
  IF a.k = "model" \/ b.k = "model" THEN a.k = b.k /\ a.cls = b.cls /\ DictEq(a.v, b.v)
  ELSE IF IsDictLike(a) /\ IsDictLike(b) THEN DictEq(a.v, b.v)      \* _AnonymousObject is a dict
  ELSE IF IsDictLike(a) \/ IsDictLike(b) THEN FALSE
  ELSE IF a.k = "arr" /\ b.k = "arr" THEN Len(a.v) = Len(b.v) /\ \A i \in 1..Len(a.v) : ResEq(a.v[i], b.v[i])
  ELSE IF a.k = "arr" \/ b.k = "arr" THEN FALSE
  ELSE PyEq(a, b)

(* a result whose repr is a Python literal: plain JSON all the way down (an _AnonymousObject *)
(* is a dict and prints as one)                                                              *)
RECURSIVE PureJson(_)
PureJson(r) ==
  CASE r.k \in {"model", "np"} -> FALSE
    [] r.k = "arr" -> \A i \in 1..Len(r.v) : PureJson(r.v[i])
    [] r.k \in {"obj", "anon"} -> \A i \in 1..Len(r.v) : PureJson(r.v[i][2])
    [] OTHER -> TRUE

RECURSIVE AsJson(_)
AsJson(r) ==
  CASE r.k = "arr" -> JArr([i \in 1..Len(r.v) |-> AsJson(r.v[i])])
    [] r.k \in {"obj", "anon"} -> JObj([i \in 1..Len(r.v) |-> << r.v[i][1], AsJson(r.v[i][2]) >>])
    [] OTHER -> r

ClassByName(ns, name) ==
  LET hit == {i \in 1..Len(ns) : ns[i][2].name = name}
  IN ns[CHOOSE i \in hit : \A j \in hit : i <= j]

RECURSIVE ValTerm(_, _)
InstRepr(r, ns) ==
  LET ent == ClassByName(ns, r.cls)
      c == ent[2]
      props == IF "properties" \in DOMAIN c.kw THEN c.kw.properties ELSE <<>>
      member(a) == LET hit == {i \in 1..Len(r.v) : r.v[i][1] = a} IN r.v[CHOOSE i \in hit : TRUE][2]
      shown == SelectSeq(props, LAMBDA p : (\E i \in 1..Len(r.v) : r.v[i][1] = p.attr) /\ member(p.attr).k # "np")
  IN Term(ent[1], <<>>, [i \in 1..Len(shown) |-> << shown[i].attr, ValTerm(member(shown[i].attr), ns) >>], JNull)
ValTerm(r, ns) ==
  IF r.k = "np" THEN Term("ref", <<>>, <<>>, JStr("NotPassed"))
  ELSE IF r.k = "model" THEN InstRepr(r, ns)
  ELSE IF PureJson(r) THEN Lit(AsJson(r))
  ELSE IF r.k = "arr" THEN ListT([i \in 1..Len(r.v) |-> ValTerm(r.v[i], ns)])
  ELSE DictT([i \in 1..Len(r.v) |-> << r.v[i][1], ValTerm(r.v[i][2], ns) >>])

(* class names are identities only when no two classes in scope share a (pre-table) name *)
NamesDistinct(ns) == \A i, j \in 1..Len(ns) : i # j => ns[i][2].name # ns[j][2].name /\ ns[i][1] # ns[j][1]

(* the equivalence classes of == among a sequence of results: for each index the least equal index *)
EqClasses(rs) == [i \in 1..Len(rs) |-> CHOOSE j \in 1..i : ResEq(rs[j], rs[i]) /\ \A k \in 1..(j - 1) : ~ResEq(rs[k], rs[i])]

(* design-level sanity of the model's ==: an equivalence on what one class builds *)
EqIsEquivalence(rs) ==
  /\ \A i \in 1..Len(rs) : ResEq(rs[i], rs[i])
  /\ \A i, j \in 1..Len(rs) : ResEq(rs[i], rs[j]) = ResEq(rs[j], rs[i])
  /\ \A i, j, k \in 1..Len(rs) : ResEq(rs[i], rs[j]) /\ ResEq(rs[j], rs[k]) => ResEq(rs[i], rs[k])
=============================================================================
