------------------------------- MODULE MC_Desc -------------------------------
EXTENDS Docstring, Json
CONSTANT MaxLen
VARIABLE s
Init == s = <<>>
Grow == Len(s) < MaxLen /\ \E t \in Tokens : s' = Append(s, t)
Spec == Init /\ [][Grow]_s
Export ==
  LET rb == ReadBack(s)
      desc == IF rb.ok THEN DescriptionOf(rb.val) ELSE <<>>
  IN PrintT(ToJson([s |-> s, emitted |-> Emit(s), ok |-> rb.ok, doc |-> rb.val, desc |-> desc,
                    m07 |-> ~(R_Doc(s, rb.ok, rb.val) /\ R_Desc(s, rb.ok, desc))]))
Inv == Export
=============================================================================
