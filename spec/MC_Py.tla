-------------------------------- MODULE MC_Py --------------------------------
(* model-only instance for code generation: predicted module structure per document *)
EXTENDS DocSeeds, PyModule, Json

LOCAL InternOrderKV == [k |-> 0, v |-> 0]

CONSTANTS WithUnsupported, SeedLevels
VARIABLES doc, budget
vars == <<doc, budget>>
Init == doc = Empty /\ budget = MaxSize
Spend == budget > 0 /\ budget' = budget - 1
AddLeaf == Spend /\ doc' \in {T \in LeafExt(doc) : LeafOK(T)}
AddSub  == Spend /\ MaxDepth > 0 /\ doc' \in NewSubExt(doc)
AddDeep == Spend /\ MaxDepth > 0 /\ doc' \in Ext(doc, MaxDepth) \ (LeafExt(doc) \cup NewSubExt(doc))
Next == AddLeaf \/ AddSub \/ AddDeep
Spec == Init /\ [][Next]_vars
InitSeeds == (doc \in Seeds \cup (IF WithUnsupported THEN SeedsUns ELSE {}) /\ budget = SeedLevels)
             \/ (doc \in Seeds0 /\ budget = 0)
SeedSpec == InitSeeds /\ [][Next]_vars

Export ==
  LET e == Parse(doc)
      ok == ~IsErr(e)
      tbl == IF ok THEN ClassTable(doc) ELSE <<>>
      hasClass == ok /\ Len(ObjectClassesOf(e, tbl)) > 0
  IN (~hasClass) \/
     PrintT(ToJson([doc |-> doc, pym |-> PyModuleOf(e, tbl), mdecl |-> ~DeclaredBeforeUse(e, tbl)]))
Inv == Export
=============================================================================
