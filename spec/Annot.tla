-------------------------------- MODULE Annot --------------------------------
(***************************************************************************)
(* IMPLEMENTATION MODEL of annotation inference (Element.annotation,       *)
(* Array.annotation / item_annotations, CompositionElement.annotation,     *)
(* AllOf.annotation, ObjectMeta.annotation, _Property.annotation) on       *)
(* element records.  Type expressions have the shape used by               *)
(* PropsElem.HasType: [t, a, n].                                           *)
(***************************************************************************)
EXTENDS Serializers

Ty(t) == [t |-> t, a |-> <<>>, n |-> ""]
TyA(t, args) == [t |-> t, a |-> args, n |-> ""]
TyClass(name) == [t |-> "Class", a |-> <<>>, n |-> name]
IsAnyT(x) == x.t = "Any"

RemoveDupTypes(s) ==
  LET RECURSIVE go(_, _)
      go(i, acc) == IF i > Len(s) THEN acc
                    ELSE go(i + 1, IF \E j \in 1..Len(acc) : acc[j] = s[i] THEN acc ELSE Append(acc, s[i]))
  IN go(1, <<>>)

(* tbl: class table of Naming.tla (names after de-duplication); <<>> = names as titled *)
RECURSIVE AnnotOf(_, _)
AnnotOf(e, tbl) ==
  CASE e.cls = "String"  -> Ty("str")
    [] e.cls = "Integer" -> Ty("int")
    [] e.cls = "Number"  -> Ty("float")
    [] e.cls = "Boolean" -> Ty("bool")
    [] e.cls \in {"Null", "Nothing"} -> Ty("None")
    [] e.cls = "Object"  -> TyClass(NameIn(tbl, e))
    [] e.cls = "Array" ->
         LET items == IF K(e, "itemsT")
                      THEN (* tuple items *)
                           LET anns == [i \in 1..Len(e.kw.itemsT) |-> AnnotOf(e.kw.itemsT[i], tbl)]
                               addTrue == ~K(e, "additionalItems") /\ ~K(e, "additionalItemsB")
                               withAddl == IF K(e, "additionalItems")
                                           THEN Append(anns, AnnotOf(e.kw.additionalItems, tbl)) ELSE anns
                           IN IF addTrue THEN << Ty("Any") >>
                              ELSE IF \E i \in 1..Len(withAddl) : IsAnyT(withAddl[i]) THEN << Ty("Any") >>
                              ELSE RemoveDupTypes(withAddl)
                      ELSE << AnnotOf(e.kw.items, tbl) >>
         IN IF Len(items) = 0 THEN Ty("List")
            ELSE IF Len(items) = 1 THEN TyA("List", << items[1] >>)
            ELSE TyA("List", << TyA("Union", items) >>)
    [] e.cls \in {"AnyOf", "OneOf"} ->
         LET anns == RemoveDupTypes([i \in 1..Len(e.elems) |-> AnnotOf(e.elems[i], tbl)])
         IN IF Len(anns) = 1 THEN anns[1]
            ELSE IF \E i \in 1..Len(anns) : IsAnyT(anns[i]) THEN Ty("Any")
            ELSE TyA("Union", anns)
    [] e.cls = "AllOf" ->
         (* the first explicit (non-Any, non-Union) annotation, else the first non-Any, else Any *)
         LET anns == [i \in 1..Len(e.elems) |-> AnnotOf(e.elems[i], tbl)]
             expl == {i \in 1..Len(anns) : ~IsAnyT(anns[i]) /\ anns[i].t # "Union"}
             nonAny == {i \in 1..Len(anns) : ~IsAnyT(anns[i])}
             first(S) == anns[CHOOSE i \in S : \A j \in S : i <= j]
         IN IF expl # {} THEN first(expl) ELSE IF nonAny # {} THEN first(nonAny) ELSE Ty("Any")
    [] OTHER -> Ty("Any")                         \* Element, Not: the generic parameter is a TypeVar

(* _Property.annotation *)
PropAnnotOf(elem, required, tbl) ==
  IF required \/ ~IsNP(DefaultOf(elem)) THEN AnnotOf(elem, tbl) ELSE TyA("Maybe", << AnnotOf(elem, tbl) >>)
=============================================================================
