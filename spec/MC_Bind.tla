------------------------------- MODULE MC_Bind -------------------------------
(***************************************************************************)
(* Bounded instance of Threads.tla, part (i): the abstract bind protocol.  *)
(* The programs are GENERATED from the design (BindProtocol!CallProg), not *)
(* recorded (this run uses the ThreadsData.tla of this directory):         *)
(*   case 1: 2 calls on one element with 2 properties                      *)
(*   case 2: 3 calls on it                                                 *)
(*   case 3: one property object shared by two elements under different    *)
(*           attribute names, one call on each                             *)
(* TLC explores every interleaving.  In cases 1 and 2 every write is a     *)
(* stutter and every read returns the sequential value (ModelOK in every   *)
(* state, nothing is exported).  In case 3 the design itself races: TLC    *)
(* exports the interleavings, the harness replays them on the real tree.   *)
(* cfg: CONSTANTS Sel <- DataSel  Full = FALSE  Bursts = {}  Cap = n       *)
(*      SPECIFICATION Spec  INVARIANT Inv  INVARIANT ExportProgs           *)
(***************************************************************************)
EXTENDS Threads

ASSUME \A i \in 1..Len(DataCases) : TLCSet(i, 0)
DataSel == 1..Len(DataCases)

(* the programs themselves, exported once, for the conformance check of    *)
(* part (i): the recorded program of the real call, projected on the       *)
(* binding fields, against CallProg                                        *)
ExportProgs == c # 1 \/ pc # [t \in 1..2 |-> 1]
               \/ PrintT(ToJson([kind |-> "prog",
                                 progs |-> [i \in 1..Len(DataCases) |-> DataCases[i].prog],
                                 mem0 |-> [i \in 1..Len(DataCases) |-> DataCases[i].mem0]]))
=============================================================================
