----------------------------- MODULE Serializers -----------------------------
(***************************************************************************)
(* IMPLEMENTATION MODEL of statham/serializers/json.py on element records. *)
(*                                                                         *)
(* SerElem(e, tbl, top): _serialize_element + _serialize_recursive.        *)
(*   keyword extraction follows Element.__init__'s keyword-only parameters *)
(*   (a keyword is emitted when it differs from the parameter default, so  *)
(*   kw records -- which hold only non-default values -- are emitted as    *)
(*   they are); "required" is the explicit list followed by the sources of *)
(*   the required properties, duplicates removed; properties are keyed by  *)
(*   their JSON name; empty properties / required are dropped; Nothing is  *)
(*   `false`; an object class below the top is a "$ref" to its definition. *)
(* ToJsonDoc(e, tbl): serialize_json(e): the primary element in full, plus *)
(*   "definitions" for every object class reachable from it (other than    *)
(*   the primary itself), named through the class table of Naming.tla.     *)
(***************************************************************************)
EXTENDS Naming

NameIn(tbl, e) ==
  LET hit == {i \in 1..Len(tbl) : tbl[i][2].name = e.name /\ ElemEq(tbl[i][2], e)}
  IN IF hit = {} THEN e.name ELSE tbl[CHOOSE i \in hit : \A j \in hit : i <= j][1]

RemoveDupStrs(s) ==
  LET RECURSIVE go(_, _)
      go(i, acc) == IF i > Len(s) THEN acc
                    ELSE go(i + 1, IF s[i] \in SeqRange(acc) THEN acc ELSE Append(acc, s[i]))
  IN go(1, <<>>)

TypeNameOf(cls) ==
  CASE cls = "String" -> "string" [] cls = "Integer" -> "integer" [] cls = "Number" -> "number"
    [] cls = "Boolean" -> "boolean" [] cls = "Null" -> "null" [] cls = "Array" -> "array"
    [] cls = "Object" -> "object" [] OTHER -> ""

RECURSIVE SerElem(_, _, _)
(* top = TRUE: serialize the element itself even if it is an object class (primary / definition) *)
SerElem(e, tbl, top) ==
  IF e.cls = "Nothing" THEN JBool(FALSE)
  ELSE IF e.cls = "Object" /\ ~top
       THEN JObj(<< <<"$ref", JStr("#/definitions/" \o NameIn(tbl, e))>> >>)
  ELSE
  LET kw == e.kw
      has(k) == k \in DOMAIN kw
      sub(x) == SerElem(x, tbl, FALSE)
      lit(k) == IF has(k) THEN << <<k, kw[k]>> >> ELSE <<>>
      int(k) == IF has(k) THEN << <<k, JInt(kw[k])>> >> ELSE <<>>
      str(k) == IF has(k) THEN << <<k, JStr(kw[k])>> >> ELSE <<>>
      el(k)  == IF has(k) THEN << <<k, sub(kw[k])>> >> ELSE <<>>
      addl(k, kB) == IF has(k) THEN << <<k, sub(kw[k])>> >>
                     ELSE IF has(kB) THEN << <<k, JBool(kw[kB])>> >> ELSE <<>>
      props == IF has("properties") THEN kw.properties ELSE <<>>
      reqd == RemoveDupStrs((IF has("required") THEN kw.required ELSE <<>>)
                            \o [i \in 1..Len(SelectSeq(props, LAMBDA p : p.required)) |->
                                  SelectSeq(props, LAMBDA p : p.required)[i].source])
      required == IF has("properties") /\ Len(props) > 0
                  THEN (IF Len(reqd) > 0 THEN << <<"required", JArr([i \in 1..Len(reqd) |-> JStr(reqd[i])])>> >>
                        ELSE <<>>)
                  ELSE IF has("required") /\ Len(kw.required) > 0
                       THEN << <<"required", JArr([i \in 1..Len(kw.required) |-> JStr(kw.required[i])])>> >>
                       ELSE <<>>
      properties == IF Len(props) > 0
                    THEN << <<"properties", JObj([i \in 1..Len(props) |-> << props[i].source, sub(props[i].elem) >>])>> >>
                    ELSE <<>>
      pairsEl(k) == IF has(k) THEN << <<k, JObj([i \in 1..Len(kw[k]) |-> << kw[k][i][1], sub(kw[k][i][2]) >>])>> >>
                    ELSE <<>>
      deps == IF has("depsL") \/ has("depsS")
              THEN << <<"dependencies",
                        JObj((IF has("depsL") THEN [i \in 1..Len(kw.depsL) |->
                                << kw.depsL[i][1], JArr([j \in 1..Len(kw.depsL[i][2]) |-> JStr(kw.depsL[i][2][j])]) >>]
                              ELSE <<>>)
                             \o (IF has("depsS") THEN [i \in 1..Len(kw.depsS) |->
                                   << kw.depsS[i][1], sub(kw.depsS[i][2]) >>] ELSE <<>>))>> >>
              ELSE <<>>
      items == IF has("itemsT") THEN << <<"items", JArr([i \in 1..Len(kw.itemsT) |-> sub(kw.itemsT[i])])>> >>
               ELSE el("items")
      comp == IF e.cls \in {"AnyOf", "OneOf", "AllOf"}
              THEN << << (CASE e.cls = "AnyOf" -> "anyOf" [] e.cls = "OneOf" -> "oneOf" [] OTHER -> "allOf"),
                         JArr([i \in 1..Len(e.elems) |-> sub(e.elems[i])]) >> >>
              ELSE IF e.cls = "Not" THEN << <<"not", sub(e.elems[1])>> >> ELSE <<>>
      typ == IF TypeNameOf(e.cls) # "" THEN << <<"type", JStr(TypeNameOf(e.cls))>> >> ELSE <<>>
      title == IF e.cls = "Object" THEN << <<"title", JStr(NameIn(tbl, e))>> >> ELSE <<>>
  IN JObj(lit("default") \o lit("const")
          \o (IF has("enum") THEN << <<"enum", JArr(kw.enum)>> >> ELSE <<>>)
          \o items \o addl("additionalItems", "additionalItemsB")
          \o int("minItems") \o int("maxItems")
          \o (IF has("uniqueItems") THEN << <<"uniqueItems", JBool(kw.uniqueItems)>> >> ELSE <<>>)
          \o el("contains") \o lit("minimum") \o lit("maximum") \o lit("exclusiveMinimum")
          \o lit("exclusiveMaximum") \o lit("multipleOf") \o str("format") \o str("pattern")
          \o int("minLength") \o int("maxLength") \o required \o properties
          \o pairsEl("patternProperties") \o addl("additionalProperties", "additionalPropertiesB")
          \o int("minProperties") \o int("maxProperties") \o el("propertyNames") \o deps
          \o str("description") \o comp \o typ \o title)

(* every object class record reachable from e (e itself excluded), in discovery order *)
RECURSIVE ClassesBelow(_, _)
ClassesBelow(e, fuel) ==
  IF fuel = 0 THEN <<>>
  ELSE LET kids == KwElems(e.kw) \o e.elems
           RECURSIVE each(_)
           each(i) == IF i > Len(kids) THEN <<>>
                      ELSE (IF kids[i].cls = "Object" THEN <<kids[i]>> ELSE <<>>)
                           \o ClassesBelow(kids[i], fuel - 1) \o each(i + 1)
       IN each(1)

ToJsonDoc(e, tbl) ==
  LET primary == SerElem(e, tbl, TRUE)
      classes == ClassesBelow(e, 12)
      RECURSIVE defs(_, _)
      defs(i, acc) ==
        IF i > Len(classes) THEN acc
        ELSE LET nm == NameIn(tbl, classes[i])
             IN defs(i + 1, IF PairsHasKey(acc, nm) THEN acc
                            ELSE Append(acc, << nm, SerElem(classes[i], tbl, TRUE) >>))
      ds == defs(1, <<>>)
      (* `if object_class is not primary`: the primary class is never among its own definitions *)
      ds2 == IF e.cls = "Object" THEN SelectSeq(ds, LAMBDA p : p[1] # NameIn(tbl, e)) ELSE ds
  IN IF primary.k # "obj" THEN primary
     ELSE IF Len(ds2) = 0 THEN primary
     ELSE JObj(primary.v \o << <<"definitions", JObj(ds2)>> >>)
=============================================================================
