------------------------------ MODULE PropsSer ------------------------------
(***************************************************************************)
(* REFERENCE PREDICATES for the serialization properties, over real        *)
(* observations:                                                           *)
(*   C03  the serialized document is a well-formed Draft-6 schema whose    *)
(*        references resolve, and it accepts exactly what the element did  *)
(*   C06  serialize . parse is the identity on the serializer's image      *)
(*   C07  defaults / object descriptions survive parsing and serialization *)
(***************************************************************************)
EXTENDS Props, Meta, Universe

(***************************************************************************)
(* C03: j = serialize_json(e) as a JSON value; kinds[i] = outcome kind of   *)
(* calling e on Values[i]                                                  *)
(***************************************************************************)
R_C03_wf(j)   == WellFormed(j)
R_C03_refs(j) == LET S == ToSchema(j) IN RefsResolve(S) /\ RefsAcyclic(S)
R_C03_same(j, kinds) ==
  LET S == ToSchema(j) IN \A i \in 1..NValues : R_C01(S, Values[i], kinds[i])
C03_Clause(j, kinds) ==
  IF ~R_C03_wf(j) THEN "not-well-formed"
  ELSE IF ~R_C03_refs(j) THEN "unresolved-ref"
  ELSE IF ~R_C03_same(j, kinds) THEN "different-meaning"
  ELSE "ok"

(***************************************************************************)
(* C06: j0 = serialize(parse(doc)), j1 = serialize(parse(j0))               *)
(***************************************************************************)
R_C06(j0, j1) == JSame(j0, j1)
(* C06_Clause (in PropsElem, where Inline is defined) tells a document that differs only in *)
(* the NAMES given to its definitions from one whose content differs                      *)

(***************************************************************************)
(* C07: skeleton positions.  A skeleton path ignores how the parser        *)
(* restructures composition and type lists (anyOf/oneOf/allOf/not members  *)
(* and type-list variants sit at the path of their parent) and names only  *)
(* the structural steps.  R_C07: at every skeleton path the document and   *)
(* the artefact (element tree / serialized document / executed generated   *)
(* classes) hold the same set of defaults, value and type exact; same for  *)
(* descriptions of object schemas.                                         *)
(***************************************************************************)
Step(kind, name) == kind \o ":" \o name

(* <<path, default>> pairs of a schema record (refs resolved in root R)     *)
RECURSIVE SchemaFacts(_, _, _, _)
SchemaFacts(R, S, path, fuel) ==
  IF IsBoolSchema(S) \/ fuel = 0 THEN {}
  ELSE IF Has(S, "ref") THEN
     IF Has(R, "definitions") /\ PairsHasKey(R.definitions, S.ref)
     THEN SchemaFacts(R, PairsGet(R.definitions, S.ref), path, fuel - 1) ELSE {}
  ELSE
  LET (* statham's normal form drops keywords that cannot apply to the declared type(s) *)
      types == IF Has(S, "type") THEN {S.type}
               ELSE IF Has(S, "types") THEN SeqRange(S.types) ELSE {"array", "object"}
      arrOK == "array" \in types
      objOK == "object" \in types
      Applies(kw) == IF kw \in {"items", "itemsT", "additionalItems", "contains"} THEN arrOK
                     ELSE IF kw \in {"properties", "patternProperties", "additionalProperties",
                                     "propertyNames", "depsS"} THEN objOK
                     ELSE TRUE
      one(kw, st) == IF Has(S, kw) /\ Applies(kw)
                     THEN SchemaFacts(R, S[kw], Append(path, st), fuel - 1) ELSE {}
      sq(kw) == IF Has(S, kw)
                THEN UNION {SchemaFacts(R, S[kw][i], path, fuel - 1) : i \in 1..Len(S[kw])} ELSE {}
      tup == IF Has(S, "itemsT") /\ Applies("itemsT")
             THEN UNION {SchemaFacts(R, S.itemsT[i], Append(path, Step("t", ToString(i))), fuel - 1) :
                           i \in 1..Len(S.itemsT)} ELSE {}
      pr(kw, kd) == IF Has(S, kw) /\ Applies(kw)
                    THEN UNION {SchemaFacts(R, S[kw][i][2], Append(path, Step(kd, S[kw][i][1])), fuel - 1) :
                                  i \in 1..Len(S[kw])} ELSE {}
      isObj == (Has(S, "type") /\ S.type = "object")
               \/ (Has(S, "types") /\ \E i \in 1..Len(S.types) : S.types[i] = "object")
      (* statham's normal form of an object class DECLARES every required name: a required name   *)
      (* without a declaration of its own is governed by the additionalProperties schema (unless  *)
      (* a pattern matches it), whose facts are therefore met under that name as well            *)
      declared == IF Has(S, "properties") THEN {S.properties[i][1] : i \in 1..Len(S.properties)} ELSE {}
      matched(n) == Has(S, "patternProperties") /\ \E i \in 1..Len(S.patternProperties) : Match(S.patternProperties[i][1], n)
      synth == IF isObj /\ Has(S, "required") /\ Has(S, "additionalProperties") /\ ~IsBoolSchema(S.additionalProperties)
               THEN UNION {SchemaFacts(R, S.additionalProperties, Append(path, Step("p", n)), fuel - 1) :
                             n \in {m \in SeqRange(S.required) \ declared : ~matched(m)}}
               ELSE {}
  IN (IF Has(S, "default") THEN {<<path, "default", S.default>>} ELSE {})
     \cup synth
     \cup (IF isObj /\ Has(S, "description") THEN {<<path, "description", JStr(S.description)>>} ELSE {})
     \cup one("items", "i") \cup one("additionalItems", "ai") \cup one("contains", "c")
     \cup one("additionalProperties", "ap") \cup one("propertyNames", "pn")
     \cup (IF Has(S, "not") THEN SchemaFacts(R, S["not"], path, fuel - 1) ELSE {})
     \cup sq("anyOf") \cup sq("oneOf") \cup sq("allOf")
     \cup tup \cup pr("properties", "p") \cup pr("patternProperties", "pp") \cup pr("depsS", "d")

(* the same facts of an element record (Elements.tla shape)                  *)
RECURSIVE ElemFacts(_, _, _)
ElemFacts(e, path, fuel) ==
  IF fuel = 0 THEN {}
  ELSE
  LET kw == e.kw
      has(k) == k \in DOMAIN kw
      one(k, st) == IF has(k) THEN ElemFacts(kw[k], Append(path, st), fuel - 1) ELSE {}
      members == UNION {ElemFacts(e.elems[i], path, fuel - 1) : i \in 1..Len(e.elems)}
      tup == IF has("itemsT")
             THEN UNION {ElemFacts(kw.itemsT[i], Append(path, Step("t", ToString(i))), fuel - 1) :
                           i \in 1..Len(kw.itemsT)} ELSE {}
      pr(k, kd) == IF has(k)
                   THEN UNION {ElemFacts(kw[k][i][2], Append(path, Step(kd, kw[k][i][1])), fuel - 1) :
                                 i \in 1..Len(kw[k])} ELSE {}
      props == IF has("properties")
               THEN UNION {ElemFacts(kw.properties[i].elem,
                                     Append(path, Step("p", kw.properties[i].source)), fuel - 1) :
                             i \in 1..Len(kw.properties)} ELSE {}
  IN (IF has("default") THEN {<<path, "default", kw.default>>} ELSE {})
     \cup (IF e.cls = "Object" /\ has("description")
           THEN {<<path, "description", JStr(kw.description)>>} ELSE {})
     \cup one("items", "i") \cup one("additionalItems", "ai") \cup one("contains", "c")
     \cup one("additionalProperties", "ap") \cup one("propertyNames", "pn")
     \cup members \cup tup \cup props \cup pr("patternProperties", "pp") \cup pr("depsS", "d")

FactIn(f, Fs) == \E g \in Fs : g[1] = f[1] /\ g[2] = f[2] /\ JSame(g[3], f[3])
SameFacts(A, B) == (\A f \in A : FactIn(f, B)) /\ (\A f \in B : FactIn(f, A))

Fuel == 12
R_C07_elem(doc, e) == SameFacts(SchemaFacts(doc, doc, <<>>, Fuel), ElemFacts(e, <<>>, Fuel))
R_C07_json(doc, j) ==
  WellFormed(j) /\ LET S == ToSchema(j)
                   IN SameFacts(SchemaFacts(doc, doc, <<>>, Fuel), SchemaFacts(S, S, <<>>, Fuel))
=============================================================================
