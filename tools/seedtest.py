#!/venv/bin/python
"""Confirm a candidate seeded change and run checks against it.

usage: seedtest.py <mutant-dir> <property> [check ids...]
  1. scratch worktree of /repo HEAD: apply patch, run pinned tests (must stay 1008 passed),
     run demo (must fail), revert, run demo (must pass); worktree removed.
  2. apply to /repo, run ./check for each id (default: the property), revert /repo.
"""
import json, os, subprocess, sys, tempfile, shutil, time

def sh(cmd, **kw):
    return subprocess.run(cmd, shell=True, text=True, capture_output=True, **kw)

def main():
    mdir, prop = sys.argv[1], sys.argv[2]
    checks = sys.argv[3:] or [prop]
    patch = os.path.join(mdir, "patch.diff"); demo = os.path.join(mdir, "demo.py")
    res = dict(dir=mdir, property=prop)
    wt = tempfile.mkdtemp(prefix="seedwt-", dir="/tmp")
    os.rmdir(wt)
    try:
        r = sh(f"git -C /repo worktree add -q --detach {wt} HEAD")
        assert r.returncode == 0, r.stderr
        r = sh(f"git -C {wt} apply {patch}")
        res["applies"] = r.returncode == 0
        if not res["applies"]:
            r3 = sh(f"git -C {wt} apply --3way {patch}")
            res["applies_3way"] = r3.returncode == 0
            if r3.returncode != 0:
                res["apply_err"] = r.stderr[-300:]
                print(json.dumps(res)); return
        r = sh(f"cd {wt} && /venv/bin/python -m pytest -q -p no:cacheprovider --timeout=900 --continue-on-collection-errors 2>&1 | tail -1")
        res["tests"] = r.stdout.strip()
        r = sh(f"cd {wt} && /venv/bin/python {demo}")
        res["demo_with"] = r.returncode
        sh(f"git -C {wt} diff HEAD > {wt}.diff")
        sh(f"git -C {wt} checkout -- . && git -C {wt} reset -q --hard")
        r = sh(f"cd {wt} && /venv/bin/python {demo}")
        res["demo_without"] = r.returncode
        if r.returncode != 0:
            res["demo_without_err"] = (r.stdout + r.stderr)[-400:]
    finally:
        sh(f"git -C /repo worktree remove --force {wt}")
    ok = "1008 passed" in res.get("tests", "") and res["demo_with"] != 0 and res["demo_without"] == 0
    res["confirmed"] = ok
    # run the checks against a scratch worktree with the change applied (VERIF_REPO), so that
    # /repo itself is never touched and several candidates can be tried at once
    wt2 = tempfile.mkdtemp(prefix="seedrun-", dir="/tmp")
    os.rmdir(wt2)
    sh(f"git -C /repo worktree add -q --detach {wt2} HEAD")
    try:
        r = sh(f"git -C {wt2} apply {wt}.diff")
        assert r.returncode == 0, r.stderr
        for c in checks:
            t = time.time()
            r = sh(f"cd /verif && VERIF_EVIDENCE_DIR=/tmp/seed-evidence VERIF_REPLAY_DIR=/tmp/seed-replays VERIF_REPO={wt2} ./check {c} --tier quick")
            res[f"check_{c}"] = dict(exit=r.returncode, wall=round(time.time()-t, 1),
                                    tail=[l[:260] for l in r.stdout.strip().splitlines()[-4:]],
                                    err=r.stderr[-300:] if r.returncode == 2 else "")
    finally:
        sh(f"git -C /repo worktree remove --force {wt2}")
        os.unlink(f"{wt}.diff")
    print(json.dumps(res, indent=1))

main()
