#!/bin/sh
for f in "$@"; do python3 -c "
import sys,json
try:
    r=json.load(open('$f'))
except Exception as e:
    print('$f', 'unparsable', open('$f').read()[-300:]); sys.exit()
print(r['dir'], 'confirmed=',r.get('confirmed'), r.get('tests','')[:12], 'applies=',r.get('applies'), r.get('apply_err','')[:100])
for c in [k for k in r if k.startswith('check_')]: print(' ',c, 'exit=',r[c]['exit'], r[c]['wall'], r[c]['tail'][-3:-1] if r[c]['exit']==1 else r[c]['err'])
" | cut -c1-460; done
