#!/bin/bash
# Confirm every candidate seeded change under /tmp/mut/out-C*/{a,b} and run its property's quick
# check against it; results in /tmp/mut/sweep/<id>-<v>.json; 3 at a time.
mkdir -p /tmp/mut/sweep
run_one() {
  m=$1; p=${m%/*}; v=${m#*/}
  timeout 2400 /verif/tools/seedtest.py /tmp/mut/out-$m $p > /tmp/mut/sweep/$p-$v.json 2>&1
}
export -f run_one
ls -d /tmp/mut/out-C*/[ab] | sed 's#/tmp/mut/out-##' | xargs -P 3 -I{} bash -c 'run_one {}'
echo done > /tmp/mut/sweep/DONE
