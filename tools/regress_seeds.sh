#!/bin/bash
# regress_seeds.sh <out-dir> <seed-name>...: run the quick check of each stored seeded change against a
# scratch worktree of /repo HEAD carrying it (VERIF_REPO); one line per seed in <out-dir>/summary.txt
out=$1; shift; mkdir -p $out
for s in "$@"; do
  p=${s%-*}
  wt=$(mktemp -d /tmp/regr-XXXXXX); rmdir $wt
  git -C /repo worktree add -q --detach $wt HEAD || { echo "$s worktree-failed" >> $out/summary.txt; continue; }
  if git -C $wt apply /verif/seeded/$s/patch.diff 2>/dev/null || git -C $wt apply --3way /verif/seeded/$s/patch.diff 2>/dev/null; then
    t0=$(date +%s)
    (cd /verif && VERIF_EVIDENCE_DIR=$out/evidence VERIF_REPLAY_DIR=$out/replays VERIF_REPO=$wt ./check $p --tier quick > $out/$s.out 2>&1)
    echo "$s exit=$? $(( $(date +%s)-t0 ))s" >> $out/summary.txt
  else
    echo "$s does-not-apply" >> $out/summary.txt
  fi
  git -C /repo worktree remove --force $wt
done
