#!/bin/bash
# second wave: /tmp/mut2/out-C*/{a,b} -> /tmp/mut2/sweep/<id>-<v>.json ; 3 at a time
mkdir -p /tmp/mut2/sweep
run_one() {
  m=$1; p=${m%/*}; v=${m#*/}
  [ -s /tmp/mut2/sweep/$p-$v.json ] && exit 0
  timeout 3000 /verif/tools/seedtest.py /tmp/mut2/out-$m $p > /tmp/mut2/sweep/$p-$v.json 2>&1
}
export -f run_one
ls -d /tmp/mut2/out-C*/[ab] 2>/dev/null | sed 's#/tmp/mut2/out-##' | xargs -P 3 -I{} bash -c 'run_one {}'
echo done > /tmp/mut2/sweep/DONE
