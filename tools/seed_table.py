#!/usr/bin/env python3
"""prints the markdown table of seeded changes and the checks that catch them (from seeded/*/meta.json)"""
import glob, json, os
rows = []
for d in sorted(glob.glob("/verif/seeded/*/")):
    m = json.load(open(os.path.join(d, "meta.json")))
    name = os.path.basename(d.rstrip("/"))
    caught = ", ".join(f"{c} ({'caught' if v['caught'] else 'MISSED'})" for c, v in m["checks"].items())
    clause = ""
    for c, v in m["checks"].items():
        for l in v.get("last_lines", []):
            if "]" in l and "x]" in l:
                clause = l.split("]", 1)[1].strip()[:110]
                break
    rows.append((name, (m.get("summary") or "")[:150].replace("|", "/").replace("\n", " "),
                 (m.get("needs") or "")[:130].replace("|", "/").replace("\n", " "), caught, clause.replace("|", "/")))
print("| seeded change | what it does | needs | quick check | first reported clause / witness |")
print("|---|---|---|---|---|")
for r in rows:
    print("| " + " | ".join(r) + " |")
