#!/usr/bin/env python3
"""keep_seed.py <mutant-dir> <result-json> <seed-name>: copy a confirmed seeded change into
/verif/seeded/<seed-name>/ with a meta.json recording what it breaks, what it needs, and what
was run to confirm it and which check caught it."""
import json, os, shutil, sys
mdir, resf, name = sys.argv[1:4]
res = json.load(open(resf))
assert res.get("confirmed"), "not confirmed: " + resf
dst = os.path.join("/verif/seeded", name)
os.makedirs(dst, exist_ok=True)
shutil.copy(os.path.join(mdir, "patch.diff"), dst)
shutil.copy(os.path.join(mdir, "demo.py"), dst)
meta = json.load(open(os.path.join(mdir, "meta.json")))
checks = {k[6:]: dict(exit=v["exit"], caught=v["exit"] == 1, wall_s=v["wall"], last_lines=v["tail"][-3:])
          for k, v in res.items() if k.startswith("check_")}
out = dict(
    property=res["property"], summary=meta.get("summary"), needs=meta.get("needs"),
    why_tests_pass=meta.get("why_tests_pass"),
    origin="written by an independent sub-agent that saw only the property text and a scratch worktree",
    confirmed=dict(
        applies_to_current_head=True,
        pinned_tests_with_change=res.get("tests"),
        demo_exit_with_change=res.get("demo_with"), demo_exit_without_change=res.get("demo_without"),
        how="tools/seedtest.py: scratch worktree of /repo HEAD, git apply, pinned pytest command, demo.py with and without the change; then ./check <id> --tier quick with VERIF_REPO pointing at a scratch worktree carrying the change"),
    checks=checks)
json.dump(out, open(os.path.join(dst, "meta.json"), "w"), indent=1)
print(name, {k: v["caught"] for k, v in checks.items()})
