#!/bin/sh
# Offline set-up: parse (SANY) every specification module, byte-compile the harness.
set -e
cd "$(dirname "$0")"
mkdir -p .cache evidence replays
T=$(mktemp -d)
trap 'rm -rf "$T"' EXIT
cp spec/*.tla "$T"/
cat > "$T/TraceData.tla" <<'EOT'
---- MODULE TraceData ----
EXTENDS Integers, Sequences, TLC
Events == <<>>
====
EOT
cd "$T"
for f in MC_*.tla Trace_*.tla; do
  if ! java -cp /opt/veriftools/tla/tla2tools.jar:/opt/veriftools/tla/CommunityModules-deps.jar tla2sany.SANY "$f" > sany.out 2>&1 || grep -q "^\*\*\* Errors\|Fatal errors" sany.out; then
    echo "SANY failed on $f"; cat sany.out; exit 1
  fi
done
cd - >/dev/null
/venv/bin/python -m compileall -q harness >/dev/null
echo setup-ok
