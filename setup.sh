#!/bin/sh
# Offline set-up: syntax/semantic check of every specification module, byte-compile harness.
set -e
cd "$(dirname "$0")"
mkdir -p .cache evidence replays
for f in spec/MC_Doc.tla spec/Trace_Doc.tla; do
  ( cd spec && java -cp /opt/veriftools/tla/tla2tools.jar:/opt/veriftools/tla/CommunityModules-deps.jar tla2sany.SANY "$(basename $f)" >/tmp/verif-sany.$$ 2>&1 ) || true
  if grep -q "Could not find module TraceData" /tmp/verif-sany.$$; then :; 
  elif grep -qi "error" /tmp/verif-sany.$$; then cat /tmp/verif-sany.$$; rm -f /tmp/verif-sany.$$; exit 1; fi
  rm -f /tmp/verif-sany.$$
done
/venv/bin/python -m compileall -q harness >/dev/null
echo setup-ok
